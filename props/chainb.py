"""Step-level (layer B) slab-chain core and the unbounded channels built on it: obligations + atomic-action
trace-inclusion tie.

Models  : lean/Fv/Chan/ChainB.lean  (slab-backed Vyukov chain, internal/slab_chain.rs; SLAB_NODES, SLAB_POOL_CAP parameters)
          lean/Fv/Chan/MpscUB.lean  (mpsc/unbounded_v3 on the chain)      lean/Fv/Chan/MpmcUB.lean (mpmc_v2/unbounded)
Theorems: lean/Fv/Props/ChainB.lean (names in props/chainb.theorems) - feed C01, C02, C04, C05, C06, C09 for
          mpsc_u, mpsc_u_async, mpmc_u, mpmc_u_async
Engine  : lean/Fv/Driver/ChainB.lean (exe fvdrv_chainb) replays `chanh ... --atomics` transcripts of those flavours

Use from a property script:   import chainb; chainb.obligations(ctx); chainb.tie(ctx)
SLAB_NODES is 128 in the tree and is not shrunk under cfg(loom): slab recycling / pool overflow are reached by
the fixed corpus cases corpus/chainb/{recycle,pool_overflow}.case (batches of 129..1300 values).
"""
import os, subprocess, sys
from vlib import VERIF, CHAN_RUSTFLAGS
sys.path.insert(0, os.path.dirname(__file__))
import chanlib   # monitor lines are judged per property (prop_of) and matched against the known-finding families

THEOREMS = [l.strip() for l in open(os.path.join(VERIF, "props", "chainb.theorems")) if l.strip() and not l.startswith("#")]
MODULE = "Fv.Props.ChainB"
CORPUS = os.path.join(VERIF, "corpus", "chainb")
FLAVOURS = "mpsc_u,mpsc_u_async,mpmc_u,mpmc_u_async"

ASSUMPTIONS = [
    "chain-B: sequentially consistent memory; the ordering of every access is compared with the model's on every trace (weaker = MISMATCH), not given semantics",
    "chain-B: non-atomic work between two shim scheduling points (node value write/take, cursor update, waiter-slot take/fill, Vec push/pop under the pool mutex) is atomic with the adjacent visible action",
    "chain-B: Arc refcount traffic is not a visible action; the strong count of the shared state is modelled as the number of live handles",
    "chain-B: SLAB_NODES = 128 is not shrunk under cfg(loom); recycling and pool overflow are tied on fixed corpus programs, the theorems hold for every SLAB_NODES >= 1 and pool capacity",
]


def obligations(ctx):
    return ctx.lean_obligations(MODULE, THEOREMS)


def selftest_layout(drv, h):
    """The role table must fail loudly: swap two construction lines of the calibration transcript and
    expect a `calibration` MISMATCH from the driver."""
    p = subprocess.run([h, "run", os.path.join(CORPUS, "calibration.case"), "--atomics"], capture_output=True, text=True, timeout=120)
    txt = p.stdout.splitlines()
    i = next(k for k, l in enumerate(txt) if l.startswith("L a3:"))
    j = next(k for k, l in enumerate(txt) if l.startswith("L a4:"))
    txt[i], txt[j] = txt[j], txt[i]
    q = subprocess.run([drv], input="\n".join(txt) + "\n", capture_output=True, text=True, timeout=120)
    return "calibration" in q.stdout and "MISMATCH" in q.stdout


def tie(ctx, cases=None):
    """Trace inclusion: every atomic / mutex / fence / park / unpark / wake action the real code performs
    under the scheduler shim must be the step the model's program counter dictates (same object role, values
    read and written, CAS outcome, ordering at least as strong); every call/return must match."""
    drv = ctx.lean_exe("fvdrv_chainb")
    h = ctx.cargo_build("chan", "chanh", rustflags=CHAN_RUSTFLAGS)
    ctx.assumptions += [a for a in ASSUMPTIONS if a not in ctx.assumptions]
    if ctx.replay:
        return [chanlib.tie(ctx, "chainb-replay", [h, "run", ctx.replay, "--atomics"], [drv])]
    ts = []
    ok = selftest_layout(drv, h)
    ctx.extra.setdefault("chainb", {})["layout_selftest_detects_reordering"] = ok
    if not ok:
        ctx.notes.append("chainb: layout self-test did NOT detect a reordered construction")
    for f in sorted(os.listdir(CORPUS)):
        if f.endswith(".case"):
            ts.append(chanlib.tie(ctx, "chainb-corpus-" + f[:-5], [h, "run", os.path.join(CORPUS, f), "--atomics"], [drv]))
    n = cases or (600 if ctx.quick else 8000)
    for mode in ("seq", "conc", "async"):
        ts.append(chanlib.tie(ctx, "chainb-atomic-steps-" + mode,
                          [h, "gen", "--seed", str(ctx.seed), "--cases", str(n), "--mode", mode, "--flavours", FLAVOURS, "--atomics"]
                          + ([] if ctx.quick else ["--tier", "thorough"]),
                          [drv], timeout=3000))
    return ts


def run(ctx):
    obligations(ctx)
    tie(ctx)
