"""SpmcB — step-level (B) model of fibre's broadcast SPMC channel
(channels/src/spmc/ring_buffer.rs, spmc/mod.rs, internal/left_right.rs; sync handles).
Model: lean/Fv/Chan/SpmcB.lean + lean/Fv/Chan/LeftRightB.lean (one visible action per step, the
non-atomic slot write / list mutations as separate silent steps; the payload clone steps `rVal` / `bVals` are
matched against the logged `A <tid> clone v<id>` lines of the harness — `V::clone` is a scheduling point —
in trace order, so a cursor store that precedes its copy-out is a MISMATCH); theorems:
Fv.Props.SpmcB (+ lemmas Fv.Lemmas.SpmcB*); tie: T1 — the real code runs under the scheduler shim
(`--cfg loom`), `chanh --atomics` logs every visible action, `fvdrv_spmcb` replays each action as THE
enabled step of the model thread (kind, object role from the creation-order layout + calibration,
ordering at least as strong, values read / written, CAS outcome) and each C/R line as the model's
call / return with the same result.

Used by the property scripts of C07 (and the spmc parts of C03 C04 C05 C09):
    import spmcb; spmcb.obligations(ctx); spmcb.tie(ctx)
"""
import os
import random
from vlib import VERIF, CHAN_RUSTFLAGS

MODULE = "Fv.Props.SpmcB"
THEOREMS = [l.strip() for l in open(os.path.join(VERIF, "props", "spmcb.theorems")) if l.strip() and not l.startswith("#")]
WITNESSES = [os.path.join(VERIF, "findings", "SpmcB_stale_clone.case"), os.path.join(VERIF, "findings", "SpmcB_reopened.case")]
ASSUMPTIONS = [
    "SpmcB: sequentially consistent memory; the Ordering of every access is recorded in the model (actInfo) and compared on every trace (a weakened ordering is a MISMATCH), but no theorem relates the orderings to SC",
    "SpmcB: every handle is used by one call at a time (Rust ownership for drop/close(&mut) on the sender; the harness for the &self forms) — `single_producer` is a theorem of that discipline, not of the types (the handles are Sync)",
    "SpmcB: async forms (SendFuture / RecvFuture / Stream, producer_waker AtomicWaker) are not in the B model; the tie skips a case from the first blocking call on an async handle (try_* forms and probes on async handles are the same code and are replayed)",
    "SpmcB: theorems are for untainted runs (no clone of a closed receiver, no to_async/to_sync of a closed handle); the tainted behaviours are in the model and refuted by the *_fails_* witnesses",
]


def obligations(ctx):
    ctx.lean_obligations(MODULE, THEOREMS)


def _cmd(*argv):
    """harness command with the monitor lines removed: this tie is step-level trace inclusion only; the
    property monitors are evaluated (and attributed to known findings) by the chanh ties of C03..C09"""
    import shlex
    return ["sh", "-c", " ".join(shlex.quote(a) for a in argv) + " | grep -v '^!monitor'"]


def _targeted_cases(path, seed, n):
    """the configurations C07 names: capacity 1..3, many consumers, receivers cloned / closed / dropped
    while the sender is sending or parked, single and batch forms (incl. the repository's pinned
    `looped_repro_spmc_sync_hang_*` shape: capacity 1, 4 consumers)"""
    rng = random.Random(seed ^ 0x5B3C)
    out = []
    for i in range(n):
        cap = rng.choice([1, 1, 1, 2, 2, 3])
        nrecv = rng.choice([2, 3, 4])
        items = rng.randint(2, 5)
        shape = i % 4
        out.append(f"#case spmcb-t-{seed}-{i} flavour=spmc cap={cap} threads={nrecv + 1} strategy={rng.choice(['rand', 'pct'])} "
                   f"seed={rng.getrandbits(40)} mode=conc atomics=1 budget=60000")
        out.append("P 0 " + " ; ".join(f"clone r0 r{k}" for k in range(1, nrecv)) if nrecv > 1 else "P 0 len s0")
        vals = list(range(1, items + 1))
        if shape == 2:
            half = items // 2
            send = [f"send_batch s0 {','.join(map(str, vals[:half + 1]))}"] + [f"send s0 {v}" for v in vals[half + 1:]]
        elif shape == 3:
            send = [f"send_batch_mut s0 {','.join(map(str, vals))}"]
        else:
            send = [f"send s0 {v}" for v in vals]
        out.append("P 1 " + " ; ".join(send) + " ; drop s0")
        for k in range(nrecv):
            ops = []
            n_recv = items if k > 0 or shape == 0 else rng.randint(0, items)
            for _ in range(n_recv):
                ops.append(rng.choice(["recv r%d" % k, "recv r%d" % k, "recv_batch r%d 2" % k, "try_recv r%d" % k]))
            if shape == 1 and k == 0:
                # a receiver that clones itself mid-stream and drops the clone, then closes
                ops.insert(min(1, len(ops)), f"clone r0 r{nrecv + 5}")
                ops.insert(min(3, len(ops)), f"drop r{nrecv + 5}")
                ops.append("close r0")
            ops.append(f"drop r{k}")
            out.append(f"P {k + 2} " + " ; ".join(ops))
        out.append("#end")
    open(path, "w").write("\n".join(out) + "\n")


DFS_CASES = """#case spmcb-dfs-park-drop flavour=spmc cap=1 threads=2 strategy=replay seed=1 mode=dfs atomics=1
P 0 try_send s0 1
P 1 send s0 2 ; drop s0
P 2 drop r0
#end
#case spmcb-dfs-park-recv flavour=spmc cap=1 threads=2 strategy=replay seed=1 mode=dfs atomics=1
P 0 try_send s0 1
P 1 send s0 2
P 2 recv r0 ; recv r0
#end
#case spmcb-dfs-clone-scan flavour=spmc cap=1 threads=2 strategy=replay seed=1 mode=dfs atomics=1
P 0 len s0
P 1 try_send s0 1 ; try_send s0 2
P 2 clone r0 r1 ; try_recv r0 ; drop r1
#end
#case spmcb-dfs-recv-wait flavour=spmc cap=2 threads=2 strategy=replay seed=1 mode=dfs atomics=1
P 0 len s0
P 1 send s0 1 ; drop s0
P 2 recv r0 ; recv r0
#end
"""


# payload copy-out races (chanx A): `V::clone` is a scheduling point of the shim and a logged action, so the DFS can
# run the producer between a consumer's index loads and its copy-out / between two copies of one batch. These runs
# KEEP their monitor lines: a tail published before the copy-out shows as a concrete history (value skipped /
# duplicated / out of order, send completed over an unread value) besides the step-level MISMATCH.
RACE_CASES = """#case spmcb-race-batch-recheck flavour=spmc cap=2 threads=2 strategy=replay seed=1 mode=dfs atomics=1
P 0 try_send_batch s0 1,2
P 1 try_send s0 3 ; try_send s0 4
P 2 try_recv_batch r0 2 ; try_recv_batch r0 2
#end
#case spmcb-race-single-recheck flavour=spmc cap=1 threads=2 strategy=replay seed=1 mode=dfs atomics=1
P 0 try_send s0 1
P 1 try_send s0 2 ; try_send s0 3
P 2 try_recv r0 ; try_recv r0
#end
#case spmcb-race-batch-other-receiver flavour=spmc cap=2 threads=3 strategy=replay seed=1 mode=dfs atomics=1
P 0 clone r0 r1 ; try_send_batch s0 1,2
P 1 send s0 3
P 2 recv_batch r0 2
P 3 recv r1 ; recv r1
#end
"""


def race_tie(ctx, h, drv):
    """bounded DFS over the copy-out race programs, monitors kept and judged under the checked property"""
    import chanlib
    f = os.path.join(ctx.rundir, "spmcb_race.case")
    open(f, "w").write(RACE_CASES)
    t = ctx.tie("spmcb-copyout-race-dfs",
                [h, "dfs", f, "--preempt", "2", "--max-runs", "1300" if ctx.quick else "8000", "--all", "--atomics"],
                [drv], timeout=3000)
    return chanlib.classify(ctx, t)


def tie(ctx):
    drv = ctx.lean_exe("fvdrv_spmcb")
    h = ctx.cargo_build("chan", "chanh", rustflags=CHAN_RUSTFLAGS)
    ctx.assumptions += [a for a in ASSUMPTIONS if a not in ctx.assumptions]
    if ctx.replay:
        return [ctx.tie("spmcb-replay", _cmd(h, "run", ctx.replay, "--atomics"), [drv])]
    ts = []
    wit = os.path.join(ctx.rundir, "spmcb_witnesses.case")
    open(wit, "w").write("".join(open(w).read() for w in WITNESSES if os.path.exists(w)))
    ts.append(ctx.tie("spmcb-witnesses", _cmd(h, "run", wit, "--atomics"), [drv]))
    cases = os.path.join(ctx.rundir, "spmcb_targeted.case")
    _targeted_cases(cases, ctx.seed, 300 if ctx.quick else 2000)
    ts.append(ctx.tie("spmcb-atomics-targeted", _cmd(h, "run", cases, "--atomics"), [drv], timeout=3000))
    for mode, n in (("seq", 300 if ctx.quick else 1500), ("conc", 400 if ctx.quick else 2500)):
        ts.append(ctx.tie("spmcb-atomics-gen-" + mode,
                          _cmd(h, "gen", "--seed", str(ctx.seed), "--cases", str(n), "--mode", mode,
                               "--flavours", "spmc", "--atomics"), [drv], timeout=3000))
    dfs = os.path.join(ctx.rundir, "spmcb_dfs.case")
    open(dfs, "w").write(DFS_CASES)
    ts.append(ctx.tie("spmcb-atomics-dfs",
                      _cmd(h, "dfs", dfs, "--preempt", "2", "--max-runs", "400" if ctx.quick else "5000", "--all", "--atomics"),
                      [drv], timeout=3000))
    ts.append(race_tie(ctx, h, drv))
    return ts


def run(ctx):
    obligations(ctx)
    tie(ctx)
