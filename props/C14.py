"""C14 — eviction policy contract. Model: lean/Fv/Cache/Policy/*.lean; theorems: Fv.Props.C14;
tie: T2 differential of the real CachePolicy objects against the Lean policy engine."""
import os
from vlib import VERIF

THEOREMS = [l.strip() for l in open(os.path.join(VERIF, "props", "C14.theorems")) if l.strip() and not l.startswith("#")]

def run(ctx):
    ctx.lean_obligations("Fv.Props.C14", THEOREMS)
    drv = ctx.lean_exe("fvdrv_policy")
    h = ctx.cargo_build("cache", "policyh")
    ctx.assumptions += [
        "policy internals (arena links, HashMap+VecDeque pairs) are abstracted to lists; the abstraction is validated only by the differential run",
        "TinyLFU count-min sketch modelled collision-free (theorems hold for every sketch state)",
        "u64 overflow of cost sums not modelled",
    ]
    if ctx.replay:
        ctx.tie("replay", [h, "run", ctx.replay], [drv]); return
    ctx.tie("known-findings+corpus", [h, "run", os.path.join(VERIF, "findings", "C14_F9.case")], [drv])
    n = 2400 if ctx.quick else 80000
    ctx.tie("policy-differential", [h, "gen", "--seed", str(ctx.seed), "--cases", str(n)], [drv], shrink_with=[h, "run"])
