"""Step-level (layer B) oneshot channel: obligations + atomic-action trace-inclusion tie.

Model   : lean/Fv/Chan/OneshotB.lean    (one atomic action of one handle per step; any number of sender
                                         handles / clones, one receiver; programs are parameters)
Theorems: lean/Fv/Props/OneshotB.lean   (names in props/oneshotb.theorems) — feed C01, C03, C04, C05, C06, C09 for oneshot
Engine  : lean/Fv/Driver/OneshotB.lean  (exe fvdrv_oneshotb) replays `chanh … --flavours oneshot --atomics`

oneshot runs on the scheduler shim only because the harness is built with vlib.CHAN_RUSTFLAGS
(`--cfg loom --cfg excsn_fibre_verif`, verif hook e3542c6 in /repo: oneshot/core.rs + mod.rs import their
atomics / Mutex / Arc from crate::internal::sync under the guard).

Use from a property script (two lines):
    import oneshotb
    oneshotb.obligations(ctx); oneshotb.tie(ctx)
Standalone: see lean/Fv/Chan/OneshotB.README.md
"""
import os, subprocess
from vlib import VERIF, CHAN_RUSTFLAGS

THEOREMS = [l.strip() for l in open(os.path.join(VERIF, "props", "oneshotb.theorems")) if l.strip() and not l.startswith("#")]
MODULE = "Fv.Props.OneshotB"             # imports Fv.Props.OneshotBWit (the decide witnesses)
CORPUS = os.path.join(VERIF, "corpus", "oneshotb")

ASSUMPTIONS = [
    "oneshot-B: sequentially consistent memory; the ordering of every access (CAS: success and failure ordering) is compared with the model's on every trace, not given semantics",
    "oneshot-B: futures_util::AtomicWaker is not on the primitive seam: register / wake (take + invoke) are modelled by their contract as atomic steps; the engine places them right after the visible action that precedes them, the model theorems allow them anywhere",
    "oneshot-B: Arc is modelled by its contract (OneShotShared::drop runs when the last handle lets go); refcount traffic is not a visible action",
    "oneshot-B: a handle is used by one thread at a time (send(self) and Receiver: !Sync by ownership; for Sender's &self methods it is the harness discipline)",
]


WITNESSES = [os.path.join(VERIF, "findings", "OneshotB_F18.case")]


def _cmd(*argv):
    """harness command with the monitor lines removed: this tie is step-level trace inclusion only; the
    property monitors are evaluated (and attributed to known findings) by the chanh ties of C01..C09"""
    import shlex
    return ["sh", "-c", " ".join(shlex.quote(a) for a in argv) + " | grep -v '^!monitor'"]


def obligations(ctx):
    """`lake build Fv.Props.OneshotB` + `#print axioms` audit of every theorem in props/oneshotb.theorems."""
    return ctx.lean_obligations(MODULE, THEOREMS)


def selftest_layout(drv):
    """The role table must fail loudly: swap two construction lines of the calibration case and expect a
    `layout-changed` MISMATCH from the driver."""
    txt = open(os.path.join(CORPUS, "calibration.case")).read().splitlines()
    i = next(k for k, l in enumerate(txt) if l.startswith("L a2:bool"))
    j = next(k for k, l in enumerate(txt) if l.startswith("L a3:usize"))
    txt[i], txt[j] = txt[j], txt[i]
    p = subprocess.run([drv], input="\n".join(txt) + "\n", capture_output=True, text=True, timeout=120)
    return "layout-changed" in p.stdout


def tie(ctx, cases=None):
    """Trace inclusion: every atomic / mutex / park / unpark action (and every waker invocation) the real
    oneshot performs under the scheduler shim must be THE enabled step of the handle's agent in the model
    (same kind, object role, value before / after, CAS outcome, ordering at least as strong), every
    call / return must match, deadlocks must be parked-without-token states, drop counters must agree."""
    drv = ctx.lean_exe("fvdrv_oneshotb")
    h = ctx.cargo_build("chan", "chanh", rustflags=CHAN_RUSTFLAGS)
    ctx.assumptions += [a for a in ASSUMPTIONS if a not in ctx.assumptions]
    if ctx.replay:
        return [ctx.tie("oneshotb-replay", _cmd(h, "run", ctx.replay, "--atomics"), [drv])]
    ts = []
    ok = selftest_layout(drv)
    ctx.extra.setdefault("oneshotb", {})["layout_selftest_detects_reordering"] = ok
    if not ok:
        ctx.notes.append("oneshotb: layout self-test did NOT detect a reordered construction")
    for f in sorted(os.listdir(CORPUS)):
        if f.endswith(".case"):
            ts.append(ctx.tie("oneshotb-corpus-" + f[:-5], _cmd(h, "run", os.path.join(CORPUS, f), "--atomics"), [drv]))
    for w in WITNESSES:
        if os.path.exists(w):
            # the step-level replay of the known defect: the engine must agree with the deadlock (TAG known-F18-…)
            ts.append(ctx.tie("oneshotb-witness-" + os.path.basename(w)[:-5], _cmd(h, "run", w, "--atomics"), [drv]))
    n = cases or (2000 if ctx.quick else 10000)
    tier = [] if ctx.quick else ["--tier", "thorough"]
    ts.append(ctx.tie("oneshotb-atomic-steps-conc",
                      _cmd(*([h, "gen", "--seed", str(ctx.seed), "--cases", str(n), "--mode", "conc", "--flavours", "oneshot", "--atomics"] + tier)),
                      [drv], timeout=3000))
    ts.append(ctx.tie("oneshotb-atomic-steps-async",
                      _cmd(*([h, "gen", "--seed", str(ctx.seed + 1), "--cases", str(max(n // 4, 200)), "--mode", "async", "--flavours", "oneshot", "--atomics"] + tier)),
                      [drv], timeout=3000))
    ts.append(ctx.tie("oneshotb-atomic-steps-seq",
                      _cmd(*([h, "gen", "--seed", str(ctx.seed + 2), "--cases", str(max(n // 4, 200)), "--mode", "seq", "--flavours", "oneshot", "--atomics"] + tier)),
                      [drv], timeout=3000))
    return ts


def run(ctx):
    obligations(ctx)
    tie(ctx)
