"""Case generator for the Mpsc3B tie: programs that use only the API forms the B model covers
(single-item sync/async send/recv forms, manual futures, clone/close/drop, probes)."""
import random


def gen_case(rng, idx, seed):
    is_async = rng.random() < 0.45
    flavour = "mpsc_b_async" if is_async else "mpsc_b"
    cap = rng.choice([1, 1, 2, 2, 3, 4, 5, 8])
    nprod = rng.choice([1, 2, 2, 3])
    vals = iter(range(1, 1000))
    p0 = []
    handles = ["s0"]
    for i in range(1, nprod):
        p0.append(f"clone s0 s{i}")
        handles.append(f"s{i}")
    if rng.random() < 0.15:
        p0.append(f"try_send s0 {next(vals)}")
    progs = []
    fut_id = [0]
    for i, h in enumerate(handles):
        ops = []
        n = rng.randint(1, 4)
        futs = []
        for _ in range(n):
            r = rng.random()
            if is_async and r < 0.3:
                f = f"f{fut_id[0]}"; fut_id[0] += 1
                ops.append(f"fut {f} = send_fut {h} {next(vals)}")
                ops.append(f"poll {f}")
                if rng.random() < 0.5:
                    ops.append(f"wakes {f}")
                if rng.random() < 0.6:
                    ops.append(f"poll {f}")
                futs.append(f)
                if rng.random() < 0.5:
                    ops.append(f"dropfut {f}"); futs.pop()
            elif r < 0.6:
                ops.append(f"send {h} {next(vals)}")
            elif r < 0.85:
                ops.append(f"try_send {h} {next(vals)}")
            elif r < 0.9:
                ops.append(rng.choice([f"len {h}", f"is_full {h}", f"is_empty {h}", f"capacity {h}", f"is_closed {h}"]))
            elif r < 0.95:
                ops.append(f"close {h}")
            else:
                ops.append(f"clone {h} s{len(handles) + 10 + i}")
        for f in futs:
            ops.append(f"dropfut {f}")
        if rng.random() < 0.7:
            ops.append(f"drop {h}")
        progs.append(ops)
    cons = []
    n = rng.randint(1, 6)
    futs = []
    for _ in range(n):
        r = rng.random()
        if is_async and r < 0.3:
            f = f"f{fut_id[0]}"; fut_id[0] += 1
            cons.append(f"fut {f} = recv_fut r0")
            cons.append(f"poll {f}")
            if rng.random() < 0.5:
                cons.append(f"wakes {f}")
            if rng.random() < 0.6:
                cons.append(f"poll {f}")
            futs.append(f)
            if rng.random() < 0.5:
                cons.append(f"dropfut {f}"); futs.pop()
        elif r < 0.6:
            cons.append("recv r0")
        elif r < 0.8:
            cons.append("try_recv r0")
        elif r < 0.88 and not is_async:
            cons.append("recv_timeout0 r0")
        elif r < 0.95:
            cons.append(rng.choice(["len r0", "is_empty r0", "is_full r0", "is_closed r0"]))
        else:
            cons.append("close r0")
    for f in futs:
        cons.append(f"dropfut {f}")
    if rng.random() < 0.4:
        cons.append("drop r0")
    progs.append(cons)
    strat = rng.choice(["rand", "rand", "pct"])
    lines = [f"#case m3b-{seed}-{idx} flavour={flavour} cap={cap} threads={len(progs)} strategy={strat} seed={rng.getrandbits(40)} mode=conc atomics=1"]
    lines.append("P 0 " + " ; ".join(p0) if p0 else "P 0")
    for t, ops in enumerate(progs, start=1):
        lines.append(f"P {t} " + " ; ".join(ops))
    lines.append("#end")
    return "\n".join(lines) + "\n"


def write_cases(path, seed, n):
    rng = random.Random(seed)
    with open(path, "w") as f:
        for i in range(n):
            f.write(gen_case(rng, i, seed))


if __name__ == "__main__":
    import sys
    write_cases(sys.argv[1], int(sys.argv[2]), int(sys.argv[3]))
