"""C13 — capacity is enforced and cost accounting matches residency."""
from props import cachelib, cacheconc
def run(ctx):
    cachelib.run(ctx, "C13", [("capacity", 6), ("register", 1), ("snapshot", 1)], 3600, 60000, stress=100)
    # concurrent layer: critical-section model over all interleavings + baton-scheduled tie on the real Cache
    cacheconc.obligations(ctx, "C13")
    cacheconc.tie(ctx)
