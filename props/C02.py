"""C02 — per-producer FIFO; sequential FIFO; batches keep order.
Model: lean/Fv/Chan/{Spec,Seq,Lin,LinCore}.lean; theorems: Fv.Props.C02; ties: sequential differential of every
API form of every point-to-point flavour (chanh --mode seq -> Q) and linearizability of scheduled concurrent
histories (chanh --mode conc -> Fv.Chan.linearizable), both through fvdrv_chan."""
import os, sys
sys.path.insert(0, os.path.dirname(__file__))
import chanlib

THEOREMS = chanlib.names("C02")

def run(ctx):
    chanlib.standard_run(ctx, "Fv.Props.C02", THEOREMS, ["C02_SpmcB_N1_stale_clone_order.case"])
    # step-level (layer B) obligations/ties of the lock-free cores, provided by their own modules
    chanlib.layer_b(ctx, chanlib.LAYER_B_ALL)
