"""C17 — iteration and snapshots enumerate exactly the live entries."""
from props import cachelib
def run(ctx):
    cachelib.run(ctx, "C17", [("iter", 4), ("snapshot", 4), ("ttl", 1)], 3600, 60000)
