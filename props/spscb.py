"""Step-level (layer B) SPSC bounded channel: obligations + atomic-action trace-inclusion tie.

Model   : lean/Fv/Chan/SpscB.lean      (one visible action per step; P ‖ C; programs, capacity parameters)
Theorems: lean/Fv/Props/SpscB.lean     (names in props/spscb.theorems) — feed C01, C02, C03, C05 for spsc
Engine  : lean/Fv/Driver/SpscB.lean    (exe fvdrv_spscb) replays `chanh … --flavours spsc --mode conc --atomics`

Use from a property script (two lines):
    import spscb
    spscb.obligations(ctx); spscb.tie(ctx)
Standalone: see lean/Fv/Chan/SpscB.README.md
"""
import os, re, subprocess
from vlib import VERIF, CHAN_RUSTFLAGS

THEOREMS = [l.strip() for l in open(os.path.join(VERIF, "props", "spscb.theorems")) if l.strip() and not l.startswith("#")]
MODULE = "Fv.Props.SpscB"
CORPUS = os.path.join(VERIF, "corpus", "spscb")

ASSUMPTIONS = [
    "spsc-B: sequentially consistent memory; the ordering of every access is compared with the model's on every trace, not given semantics",
    "spsc-B: non-atomic work between two shim scheduling points (slot write/read, waiter-slot take/fill) is atomic with the preceding visible action",
    "spsc-B: park tokens are per role (a handle is used by one thread at a time); Arc refcount traffic is not a visible action",
    "spsc-B: batch forms, is_closed/is_full and sync<->async conversions are not in the step-level model yet: such cases are replayed up to the first such call and counted under TAG skip:<op>",
    "spsc-B: the timed receive recv_timeout(d) is in the model (same call sites as recv, Loc.tm; park_timeout = park that may return without a token; the deadline test is the environment step Label.deadline, placed by the driver where the trace shows the call left instead of waiting)",
]


def obligations(ctx):
    """`lake build Fv.Props.SpscB` + `#print axioms` audit of every theorem in props/spscb.theorems."""
    return ctx.lean_obligations(MODULE, THEOREMS)


def _corpus_text():
    out = []
    if os.path.isdir(CORPUS):
        for f in sorted(os.listdir(CORPUS)):
            if f.endswith(".case"):
                out.append(open(os.path.join(CORPUS, f)).read())
    return "\n".join(out)


def selftest_layout(drv):
    """The role table must fail loudly: swap two construction lines of the calibration case and expect
    a `layout-changed` MISMATCH from the driver."""
    txt = open(os.path.join(CORPUS, "calibration.case")).read().splitlines()
    i = next(k for k, l in enumerate(txt) if l.startswith("L a3:usize"))
    j = next(k for k, l in enumerate(txt) if l.startswith("L a5:bool"))
    txt[i], txt[j] = txt[j], txt[i]
    p = subprocess.run([drv], input="\n".join(txt) + "\n", capture_output=True, text=True, timeout=120)
    return "layout-changed" in p.stdout


def tie(ctx, cases=None):
    """Trace inclusion: every atomic / mutex / park / unpark / fence action the real code performs under
    the scheduler shim must be an enabled step of the model (same object role, value read and written,
    ordering at least as strong), every call/return must match."""
    drv = ctx.lean_exe("fvdrv_spscb")
    h = ctx.cargo_build("chan", "chanh", rustflags=CHAN_RUSTFLAGS)
    ctx.assumptions += [a for a in ASSUMPTIONS if a not in ctx.assumptions]
    if ctx.replay:
        return [ctx.tie("spscb-replay", [h, "run", ctx.replay, "--atomics"], [drv])]
    ts = []
    ok = selftest_layout(drv)
    ctx.extra.setdefault("spscb", {})["layout_selftest_detects_reordering"] = ok
    if not ok:
        ctx.notes.append("spscb: layout self-test did NOT detect a reordered construction")
    cal = os.path.join(CORPUS, "calibration.case")
    ts.append(ctx.tie("spscb-calibration+corpus", [h, "run", cal, "--atomics"], [drv]))
    for f in sorted(os.listdir(CORPUS)):
        if f.endswith(".case") and f != "calibration.case":
            ts.append(ctx.tie("spscb-corpus-" + f[:-5], [h, "run", os.path.join(CORPUS, f), "--atomics"], [drv]))
    n = cases or (3000 if ctx.quick else 15000)
    ts.append(ctx.tie("spscb-atomic-steps",
                      [h, "gen", "--seed", str(ctx.seed), "--cases", str(n), "--mode", "conc", "--flavours", "spsc", "--atomics"]
                      + ([] if ctx.quick else ["--tier", "thorough"]),
                      [drv], timeout=3000))
    return ts


def run(ctx):
    obligations(ctx)
    tie(ctx)
