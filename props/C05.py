"""C05 — blocked threads are always woken (history level, safety form).
Theorems: Fv.Props.C05 (Enabled on the abstract state; blocking op blocks <=> not enabled on Q; soundness of the
checker's quiescence requirement). Tie: chanh --mode conc histories through `fvdrv_chan --liveness`: besides being
linearizable, a run that ended in a deadlock must have a linearization in whose final state every never-returned
operation is disabled (otherwise MISMATCH blocked-op-enabled-at-quiescence = a lost wakeup).
Step-level no-lost-wakeup obligations (register / fence / re-check / park) are the layer-B modules' (included below)."""
import os, sys
sys.path.insert(0, os.path.dirname(__file__))
import chanlib
from vlib import VERIF, CHAN_RUSTFLAGS

THEOREMS = chanlib.names("C05")
# ---- step-level B-model obligations/ties of other agents: each exposes THEOREMS (+MODULE) / obligations(ctx) and tie(ctx)
LAYER_B = chanlib.LAYER_B_ALL + ["lockb"]

def run(ctx):
    ctx.lean_obligations("Fv.Props.C05", THEOREMS)
    drv = ctx.lean_exe("fvdrv_chan")
    h = ctx.cargo_build("chan", "chanh", rustflags=CHAN_RUSTFLAGS)
    ctx.assumptions += [a for a in chanlib.ASSUMPTIONS if a not in ctx.assumptions]
    ctx.assumptions.append("C05: liveness in safety form (no enabled operation is blocked at quiescence); that a runnable thread is eventually scheduled, and that spin/yield re-contention loops terminate under an unfair scheduler, is assumed")
    if ctx.replay:
        if chanlib.replay_owner(ctx) is None:
            chanlib.liveness_tie(ctx, "replay", [h, "run", ctx.replay], drv)
        chanlib.layer_b(ctx, LAYER_B); return
    for w in ("C05_F14_mpsc_b_send_blocked_with_space.case", "C05_F5_mpmc_recv_timeout_unreachable.case",
              "C04_OBS_oneshot_recv_after_taken.case"):
        if os.path.exists(os.path.join(VERIF, "findings", w)):
            chanlib.liveness_tie(ctx, "known-" + w[:-5], [h, "run", os.path.join(VERIF, "findings", w)], drv)
    # sequential programs: a blocking op whose condition never comes is reported `blocks` by the harness and must be
    # `blocks` in the model too (Enabled on the exact abstract state) - catches count/flag bookkeeping slips that make a
    # thread wait for a disconnect or for space that the history says is already there
    ns = 3000 if ctx.quick else 15000
    chanlib.tie(ctx, "seq-differential", [h, "gen", "--seed", str(ctx.seed), "--cases", str(ns), "--mode", "seq", "--tier", ctx.tier], [drv])
    n = 4000 if ctx.quick else 25000
    chanlib.liveness_tie(ctx, "conc-liveness", [h, "gen", "--seed", str(ctx.seed), "--cases", str(n), "--mode", "conc",
                                                "--tier", ctx.tier], drv)
    chanlib.race_pairs_tie(ctx, h, drv)
    # scenario DFS: a future woken for an item / for space is dropped un-polled while the other side is parked
    # (exhaustive over schedules with one preemption; a swallowed or misdirected wake ends in a deadlock)
    sc = os.path.join(VERIF, "corpus", "chan_dfs", "dropfut.case")
    if os.path.exists(sc) and not ctx.replay:
        chanlib.liveness_tie(ctx, "dropfut-scenarios-dfs", [h, "dfs", sc, "--preempt", "1" if ctx.quick else "2",
                                                           "--max-runs", "300" if ctx.quick else "4000", "--all"], drv)
    chanlib.layer_b(ctx, LAYER_B)
