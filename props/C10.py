"""C10 — hybrid locks (fibre::sync::HybridMutex / HybridRwLock): mutual exclusion, wake on release,
cancel-safe acquisition.

Models: lean/Fv/Sync/{WaitList,Mutex,RwLock}.lean (small-step, one visible action per step, all programs /
thread counts / interleavings, SC memory). Theorems: Fv.Props.C10 (names in props/C10.theorems).
Tie (T1, DESIGN §2.3): the real locks are built under `--cfg loom` against the scheduler shim
(/verif/shim/loom) and driven by `chanh` (flavours mutex, rwlock) with `--atomics`; every logged atomic
load / store / RMW / CAS / park / unpark / spin / yield and every call / return is replayed by `fvdrv_lock`
as an ENABLED step of the model for that thread (same object role, same values, same CAS outcome, ordering
at least as strong) — trace inclusion, first divergence = MISMATCH — plus the API-level lock spec (a guard is
granted only when compatible with the guards definitely held). Harness monitors: guard coexistence through
the instrumented protected value, blocked-while-free at deadlock.
"""
import os, re, sys
sys.path.insert(0, os.path.dirname(__file__))
from vlib import VERIF, REPO, CHAN_RUSTFLAGS

THEOREMS = [l.strip() for l in open(os.path.join(VERIF, "props", "C10.theorems")) if l.strip() and not l.startswith("#")]

# the loom seam: the harness build may differ from the shipped build only in these constants
# (SPIN_YIELDS, POLL_ATTEMPTS: parameters `Cfg.spinYields`, `Cfg.pollAttempts` of the models)
SEAM = {"sync/mutex.rs": 2, "sync/rwlock.rs": 2, "sync/wait_queue.rs": 0}

def seam_guard(ctx):
    for f, want in SEAM.items():
        p = os.path.join(REPO, "channels", "src", f)
        try:
            src = open(p).read()
        except OSError as e:
            ctx.proof_failures.append({"error": "seam guard: cannot read " + p, "log": repr(e)}); continue
        got = len(re.findall(r"IS_LOOM|cfg\s*\(\s*loom\s*\)|MODEL_CHECK", src))
        if got != want:
            ctx.proof_failures.append({"error": "seam guard: %s has %d loom-conditional sites, recorded %d "
                                       "(the harness build may no longer differ from the shipped build only in the "
                                       "spin/poll budgets the models take as parameters)" % (f, got, want)})

def mine(ctx, t):
    """keep this property's monitor lines (flavours mutex / rwlock)"""
    t.monitor_fails = [(c, s, m) for (c, s, m) in t.monitor_fails if s.split(":")[0] in ("mutex", "rwlock")]
    return t

def run(ctx):
    ctx.lean_obligations("Fv.Props.C10", THEOREMS)
    drv = ctx.lean_exe("fvdrv_lock")
    h = ctx.cargo_build("chan", "chanh", rustflags=CHAN_RUSTFLAGS)
    seam_guard(ctx)
    ctx.assumptions += [
        "sequentially consistent memory: the orderings of all accesses are compared on every trace (a weakened ordering is a broken correspondence) but given no semantics",
        "memory safety of the intrusive raw-pointer list is not modelled (node ids, not addresses); the model proves every queued node has a live owner",
        "the loom build differs from the shipped build only in SPIN_YIELDS / POLL_ATTEMPTS (= 1), which are parameters of the models (seam guard)",
        "the scheduler shim never fails compare_exchange_weak spuriously and never returns from park spuriously; the models allow both, so those transitions are proved about but not exercised by the tie",
        "liveness in safety form: fairness of the OS scheduler / executor is assumed",
        "reader count does not overflow; usize is 64-bit",
    ]
    if ctx.replay:
        mine(ctx, ctx.tie("replay", [h, "run", ctx.replay, "--atomics"], [drv])); return
    cdir = os.path.join(VERIF, "corpus", "lock")
    for f in sorted(os.listdir(cdir)):
        if f.endswith(".case"):
            mine(ctx, ctx.tie("corpus-" + f[:-5], [h, "run", os.path.join(cdir, f)], [drv]))
    # bounded DFS over the schedules of the hand-written contention programs
    runs = 150 if ctx.quick else 4000
    for f in ("mutex_two_waiters.case", "rwlock_mix.case"):
        mine(ctx, ctx.tie("dfs-" + f[:-5], [h, "dfs", os.path.join(cdir, f), "--preempt", "2", "--max-runs", str(runs),
                                           "--all", "--atomics"], [drv]))
    n = 2500 if ctx.quick else 60000
    mine(ctx, ctx.tie("lock-step-trace-inclusion",
                      [h, "gen", "--seed", str(ctx.seed), "--cases", str(n), "--tier", ctx.tier,
                       "--flavours", "mutex,rwlock", "--mode", "conc", "--atomics"], [drv]))
