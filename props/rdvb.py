"""Critical-section-granularity (layer B) model of the queued rendezvous core: obligations + tie.

Model   : lean/Fv/Chan/RendezvousB.lean   (one locked section of the core mutex — the hand-off through the waiter record happens
                                           inside it — or one out-of-lock visible action per step: the wake after the guard is
                                           dropped, a state-byte load, park, the cancel CAS WAITING->CANCELLED that the code performs
                                           BEFORE taking the lock, a poll boundary, a future drop)
Theorems: lean/Fv/Props/RendezvousB.lean  (names in props/rdvb.theorems) — feed C01, C03, C05, C06 for rdv_spsc / rdv_mpsc / rdv_mpmc
Engine  : lean/Fv/Driver/LockedChan.lean  (exe fvdrv_lockedchan, shared with mpmc2b): the C/R history of every chanh case of the
          rdv_* flavours must be a behaviour of the model (memoised DFS for an explaining run).

Use from a property script:
    import rdvb
    rdvb.obligations(ctx); rdvb.tie(ctx)
"""
import os
from vlib import VERIF, CHAN_RUSTFLAGS

THEOREMS = [l.strip() for l in open(os.path.join(VERIF, "props", "rdvb.theorems")) if l.strip() and not l.startswith("#")]
MODULE = "Fv.Props.RendezvousB"
FLAVOURS = "rdv_spsc,rdv_spsc_async,rdv_mpsc,rdv_mpsc_async,rdv_mpmc,rdv_mpmc_async"
ASYNC_FLAVOURS = "rdv_spsc_async,rdv_mpsc_async,rdv_mpmc_async"
WITNESSES = [
    "C01_F1_rdv_timed_recv_cancel_race.case",     # F1: sender Ok / receiver Timeout / value dropped — a behaviour of the model
    "C06_F1_rdv_dropped_recv_future.case",        # F1, future shape
    "C04_F3_rdv_async_futures_ignore_closed.case",
]

ASSUMPTIONS = [
    "rdv-B: every locked section of the rendezvous core mutex is atomic (shim Mutex); sequentially consistent memory for the "
    "out-of-lock actions (state-byte load, cancel CAS, park/unpark, wakes issued after the guard is dropped)",
    "rdv-B: the receiver store is modelled as a FIFO list; the single-slot Option store of the spsc/mpsc flavours coincides with it "
    "while at most one receiver is parked (single consumer)",
    "rdv-B: waiter records are fresh ids (no address reuse); use-after-free of a record is outside the model",
    "rdv-B: C01 is proved only for runs outside the F1 window (no lock section pops a record that is no longer WAITING, no RecvFuture "
    "dropped after its hand-off committed); C01_fails_F1 shows the full statement is false",
    "rdv-B: duplicate-freedom of the token histories is not proved at B level for rendezvous (the history-level checker covers it at run time)",
]


def obligations(ctx):
    return ctx.lean_obligations(MODULE, THEOREMS)


def tie(ctx, cases=None):
    """Tie (i): history inclusion at critical-section granularity (search for an explaining model run)."""
    drv = ctx.lean_exe("fvdrv_lockedchan")
    h = ctx.cargo_build("chan", "chanh", rustflags=CHAN_RUSTFLAGS)
    ctx.assumptions += [a for a in ASSUMPTIONS if a not in ctx.assumptions]
    if ctx.replay:
        return [ctx.tie("rdvb-replay", [h, "run", ctx.replay], [drv])]
    ts = []
    for w in WITNESSES:
        p = os.path.join(VERIF, "findings", w)
        if os.path.exists(p):
            ts.append(ctx.tie("rdvb-witness-" + w[:-5], [h, "run", p], [drv]))
    n = cases or (6000 if ctx.quick else 30000)
    tier = [] if ctx.quick else ["--tier", "thorough"]
    ts.append(ctx.tie("rdvb-conc-histories",
                      [h, "gen", "--seed", str(ctx.seed), "--cases", str(n), "--mode", "conc", "--flavours", FLAVOURS] + tier,
                      [drv], timeout=3000))
    ts.append(ctx.tie("rdvb-manual-poll-histories",
                      [h, "gen", "--seed", str(ctx.seed + 1), "--cases", str(n // 2), "--mode", "async", "--flavours", ASYNC_FLAVOURS] + tier,
                      [drv], timeout=3000))
    return ts


def run(ctx):
    obligations(ctx)
    tie(ctx)
