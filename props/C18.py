"""C18 — IoC resolution. Model: lean/Fv/Ioc/Container.lean; theorems: Fv.Props.C18;
ties: T2 differential of fibre_ioc's Container / global() / LocalContainer (public API + macros)
against the Lean engine `fvdrv_ioc`, plus a real-thread stress run checked against the
atomic-get_or_init small-step model."""
import json, os
from vlib import VERIF

THEOREMS = [l.strip() for l in open(os.path.join(VERIF, "props", "C18.theorems")) if l.strip() and not l.startswith("#")]

def run(ctx):
    # findings this property knows about; the lead merges them into known_findings.json, until then
    # (and harmlessly afterwards) they are taken from findings/C18.entries.json
    have = {f["signature"] for f in ctx.known}
    for e in json.load(open(os.path.join(VERIF, "findings", "C18.entries.json"))):
        if e["property"] == ctx.prop and e["signature"] not in have:
            ctx.known.append(e)
    ctx.lean_obligations("Fv.Props.C18", THEOREMS)
    drv = ctx.lean_exe("fvdrv_ioc")
    h = ctx.cargo_build("ioc", "ioch")
    ctx.assumptions += [
        "once_cell::sync::OnceCell::get_or_init / unsync::OnceCell::get_or_init: at most one initialiser runs to completion, a panicking initialiser leaves the cell empty (contract taken as given; exercised by the stress tie, not proved)",
        "schedules: one top-level resolution's provider lookup and its cell initialisation (including the nested resolutions of the factory) are two atomic steps of the small-step model; finer interleavings of nested resolutions are covered only by the real-thread stress run",
        "DashMap / HashMap are modelled as a finite map with atomic get/insert; TypeId equality is modelled as equality of a type tag",
        "factories only resolve other services and produce a value (a factory that registers into the container it is resolved from would self-deadlock on the DashMap shard lock; outside the property's quantifier)",
        "a 'factory run' is a completed invocation: a factory that panics leaves the cell empty and is invoked again by the next resolution",
    ]
    if ctx.replay:
        ctx.tie("replay", [h, "run", ctx.replay], [drv]); return
    # every case runs in a worker process with a watchdog: a hang is reported as ioc:resolve-hang, a
    # process death (stack overflow) as ioc:resolve-crash — both are violations of "a panic, not a hang"
    ctx.tie("known-findings", [h, "run", os.path.join(VERIF, "findings", "C18_F16.case")], [drv])
    corpus = os.path.join(VERIF, "corpus", "ioc")
    if os.path.isdir(corpus):
        for f in sorted(os.listdir(corpus)):
            if f.endswith(".case"):
                ctx.tie("corpus-" + f[:-5], [h, "run", os.path.join(corpus, f)], [drv])
    n = 1600 if ctx.quick else 60000
    ctx.tie("ioc-differential", [h, "gen", "--seed", str(ctx.seed), "--cases", str(n), "--tier", ctx.tier], [drv])
    m = 600 if ctx.quick else 20000
    ctx.tie("ioc-thread-stress", [h, "stress", "--seed", str(ctx.seed), "--cases", str(m), "--tier", ctx.tier], [drv])
