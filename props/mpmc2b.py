"""Critical-section-granularity (layer B) model of the bounded MPMC channel v2: obligations + tie.

Model   : lean/Fv/Chan/Mpmc2B.lean        (one locked section of the channel mutex, or one out-of-lock visible action —
                                           state-byte load, park, cancel CAS, deferred wake, poll boundary, future drop — per step;
                                           sync send/recv/try_*/recv_timeout(0), SendFuture/RecvFuture with poll/drop, clone/close/drop;
                                           programs, capacity, number of threads/tasks are parameters)
Theorems: lean/Fv/Props/Mpmc2B.lean       (names in props/mpmc2b.theorems) — feed C01, C02, C03, C05, C06 for mpmc bounded
Engine  : lean/Fv/Driver/LockedChan.lean  (exe fvdrv_lockedchan): for every chanh case of the flavours mpmc_b / mpmc_b_async the
          C/R history (real-time order, results, `wakes` / `ok:woken` observations, the F5 panic) must be a behaviour of the model:
          a memoised DFS looks for a model run that explains it.

Use from a property script:
    import mpmc2b
    mpmc2b.obligations(ctx); mpmc2b.tie(ctx)
"""
import os
from vlib import VERIF, CHAN_RUSTFLAGS

THEOREMS = [l.strip() for l in open(os.path.join(VERIF, "props", "mpmc2b.theorems")) if l.strip() and not l.startswith("#")]
MODULE = "Fv.Props.Mpmc2B"
FLAVOURS = "mpmc_b,mpmc_b_async"
WITNESSES = [
    "C05_F5_mpmc_recv_timeout_unreachable.case",         # F5: history with the unreachable! panic is a model behaviour
    "C06_F2_wake_one_swallowed_by_dropped_future.case",  # F2: swallowed wake (mpmc_b_async cases; other flavours are skipped)
    "C04_F3_conversion_resets_closed.case",              # F3: count underflow after converting a closed handle (tagged, not explained)
    "C04_F3_mpmc_async_futures_ignore_closed.case",
]

# regression programs of repaired findings (corpus/chan): must be explained with no excuse tag
REGRESSIONS = [
    "C06_F17_fixed_mpmc2_spurious_repoll.case",          # F17 (fixed cd494c8): spurious re-poll of a registered RecvFuture takes an item
]

ASSUMPTIONS = [
    "mpmc2-B: every locked section of the channel's HybridMutex is atomic (the lock itself is verified separately, C10); "
    "the waiter-state CAS and the unpark/wake calls issued while the guard is held belong to that section",
    "mpmc2-B: sequentially consistent memory for the out-of-lock actions (state-byte load, cancel CAS, park/unpark, deferred wakes)",
    "mpmc2-B: waiter records are identified by fresh ids (no address reuse); sound because no queued async receiver record outlives "
    "its future (Fv.Props.Mpmc2B.mpmc2_no_dangling_waiter_record, the invariant finding F17 broke until fix cd494c8)",
    "mpmc2-B: batch forms and the Stream impl are not in the model: cases containing a batch op are counted under TAG skip-batch",
    "mpmc2-B: clone requires a live counterpart count > 0 and a handle is closed at most once; conversions of a closed handle (F3) are tagged",
    "mpmc2-B: C05/C06 are proved in safety form (no quiescent state with a sleeper whose operation is possible); fairness is assumed",
]


def obligations(ctx):
    """`lake build Fv.Props.Mpmc2B` + `#print axioms` audit of every theorem in props/mpmc2b.theorems."""
    return ctx.lean_obligations(MODULE, THEOREMS)


def tie(ctx, cases=None):
    """Tie (i): history inclusion at critical-section granularity (search for an explaining model run)."""
    drv = ctx.lean_exe("fvdrv_lockedchan")
    h = ctx.cargo_build("chan", "chanh", rustflags=CHAN_RUSTFLAGS)
    ctx.assumptions += [a for a in ASSUMPTIONS if a not in ctx.assumptions]
    if ctx.replay:
        return [ctx.tie("mpmc2b-replay", [h, "run", ctx.replay], [drv])]
    ts = []
    for w in WITNESSES:
        p = os.path.join(VERIF, "findings", w)
        if os.path.exists(p):
            ts.append(ctx.tie("mpmc2b-witness-" + w[:-5], [h, "run", p], [drv]))
    for w in REGRESSIONS:
        p = os.path.join(VERIF, "corpus", "chan", w)
        if os.path.exists(p):
            ts.append(ctx.tie("mpmc2b-corpus-" + w[:-5], [h, "run", p], [drv]))
    n = cases or (6000 if ctx.quick else 30000)
    tier = [] if ctx.quick else ["--tier", "thorough"]
    ts.append(ctx.tie("mpmc2b-conc-histories",
                      [h, "gen", "--seed", str(ctx.seed), "--cases", str(n), "--mode", "conc", "--flavours", FLAVOURS] + tier,
                      [drv], timeout=3000))
    ts.append(ctx.tie("mpmc2b-manual-poll-histories",
                      [h, "gen", "--seed", str(ctx.seed + 1), "--cases", str(n // 2), "--mode", "async", "--flavours", "mpmc_b_async"] + tier,
                      [drv], timeout=3000))
    return ts


def run(ctx):
    obligations(ctx)
    tie(ctx)
