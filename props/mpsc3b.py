"""Mpsc3B — step-level (B) model of fibre's bounded MPSC v3 (channels/src/mpsc/bounded_v3/*).
Model: lean/Fv/Chan/Mpsc3B.lean (one visible action per step); theorems: Fv.Props.Mpsc3B (+ lemmas
Fv.Lemmas.Mpsc3B*); tie: T1 — the real code runs under the scheduler shim (`--cfg loom`), `chanh --atomics`
logs every visible action, `fvdrv_mpsc3b` replays each action as THE enabled step of the model thread
(kind, object role from the creation-order layout table + calibration, ordering at least as strong,
values found/left, CAS outcome) and each C/R line as the model's call/return with the same result.

Used by the property scripts of C01 C02 C03 C04 C05 C06 C09 (flavours mpsc_b / mpsc_b_async):
    import mpsc3b; mpsc3b.obligations(ctx); mpsc3b.tie(ctx)
"""
import os
import sys
from vlib import VERIF, CHAN_RUSTFLAGS

sys.path.insert(0, os.path.join(VERIF, "props"))
import mpsc3b_gen  # noqa: E402

MODULE = "Fv.Props.Mpsc3B"
THEOREMS = [l.strip() for l in open(os.path.join(VERIF, "props", "mpsc3b.theorems")) if l.strip() and not l.startswith("#")]
WITNESSES = [os.path.join(VERIF, "findings", "Mpsc3B_F14.case"), os.path.join(VERIF, "findings", "Mpsc3B_F2.case")]
ASSUMPTIONS = [
    "Mpsc3B: sequentially consistent memory; the Ordering of every access is recorded in the model and compared on every trace (a weakened ordering is a MISMATCH), but no theorem relates the orderings to SC",
    "Mpsc3B: a sender handle / the receiver is used by one call at a time (Rust ownership for drop, the harness for &self forms); slots are modelled by ticket, the chunk-table mapping is checked per action by the tie",
    "Mpsc3B: batch forms, to_sync/to_async and Stream are not in the B model (the tie skips cases using them; they stay covered by the linearizability layer)",
]


def obligations(ctx):
    ctx.lean_obligations(MODULE, THEOREMS)


def _long_cases(path, seed, n):
    """long runs: force chunk-table recycling (ensure_resident CAS, consumer_retired) and the
    last-sender-drop wake of a parked receiver"""
    import random
    rng = random.Random(seed ^ 0x5EED)
    out = []
    for i in range(n):
        cap = rng.choice([1, 2, 3, 4, 5])
        k = rng.randint(22, 30)
        fl = "mpsc_b_async" if i % 3 == 0 else "mpsc_b"
        s1 = [f"send s0 {v}" for v in range(1, k // 2 + 1)]
        s2 = [f"send s1 {v}" for v in range(100, 100 + k - k // 2)]
        out.append(f"#case m3b-long-{seed}-{i} flavour={fl} cap={cap} threads=3 strategy={rng.choice(['rand', 'pct'])} seed={rng.getrandbits(40)} mode=conc atomics=1 budget=100000")
        out.append("P 0 clone s0 s1")
        out.append("P 1 " + " ; ".join(s1) + " ; drop s0")
        out.append("P 2 " + " ; ".join(s2) + " ; drop s1")
        out.append("P 3 " + " ; ".join(["recv r0"] * (k + 1)))
        out.append("#end")
    open(path, "w").write("\n".join(out) + "\n")


def _cmd(*argv):
    """harness command with the monitor lines removed: this tie is step-level trace inclusion only; the
    property monitors are evaluated (and attributed to known findings) by the chanh ties of C01..C09"""
    import shlex
    return ["sh", "-c", " ".join(shlex.quote(a) for a in argv) + " | grep -v '^!monitor'"]


def tie(ctx):
    drv = ctx.lean_exe("fvdrv_mpsc3b")
    h = ctx.cargo_build("chan", "chanh", rustflags=CHAN_RUSTFLAGS)
    ctx.assumptions += [a for a in ASSUMPTIONS if a not in ctx.assumptions]
    if ctx.replay:
        return [ctx.tie("mpsc3b-replay", _cmd(h, "run", ctx.replay, "--atomics"), [drv])]
    ts = []
    wit = os.path.join(ctx.rundir, "mpsc3b_witnesses.case")
    open(wit, "w").write("".join(open(w).read() for w in WITNESSES if os.path.exists(w)))
    ts.append(ctx.tie("mpsc3b-witnesses", _cmd(h, "run", wit, "--atomics"), [drv]))
    n = 1500 if ctx.quick else 10000
    cases = os.path.join(ctx.rundir, "mpsc3b_gen.case")
    mpsc3b_gen.write_cases(cases, ctx.seed, n)
    ts.append(ctx.tie("mpsc3b-atomics-random", _cmd(h, "run", cases, "--atomics"), [drv], timeout=3000))
    longc = os.path.join(ctx.rundir, "mpsc3b_long.case")
    _long_cases(longc, ctx.seed, 40 if ctx.quick else 150)
    ts.append(ctx.tie("mpsc3b-atomics-recycling", _cmd(h, "run", longc, "--atomics"), [drv], timeout=3000))
    ts.append(ctx.tie("mpsc3b-atomics-chanh-gen",
                      _cmd(h, "gen", "--seed", str(ctx.seed), "--cases", "300" if ctx.quick else "1500", "--mode", "conc",
                           "--flavours", "mpsc_b,mpsc_b_async", "--atomics"), [drv], timeout=3000))
    return ts


def run(ctx):
    obligations(ctx)
    tie(ctx)
