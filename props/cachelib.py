"""Shared plumbing of the cache properties C11, C12, C13, C16, C17: one Lean model
(lean/Fv/Cache/*.lean, engine fvdrv_cache), one harness (harness/cache/src/bin/cacheh.rs).
Every generated case is run on the real `fibre_cache` and replayed on the model (tie), and all
five properties' monitors evaluate the implementation's own history; `VERIF_PROP` selects the
property whose monitor verdicts are reported."""
import json, os
from vlib import VERIF

ASSUMPTIONS = [
    "sequential histories only (one API call at a time, loader and listener threads awaited); concurrent interleavings are out of scope of this tie",
    "identity BuildHasher: shard = key % shards; HashMap iteration order, order of the coalesced read batch and random victims are oracles read from the implementation (policy-call log / clock-rewind probe) and re-checked by comparing every policy call",
    "time is the virtual clock of the cfg(excsn_fibre_verif) hook; timer-wheel tick duration 1 s or 2 s so that the f64 division and rounding in TimerWheel::schedule are exact (the model rounds exactly, ties away from zero)",
    "u64 overflow of cost sums other than current_cost (modelled as wrapping) is not modelled",
    "per-shard HashMaps are one association list keyed by key with shard = key % n (power-of-two shard counts)",
]

def theorems(prop):
    p = os.path.join(VERIF, "props", prop + ".theorems")
    return [l.strip() for l in open(p) if l.strip() and not l.startswith("#")]

def run(ctx, prop, focuses, quick_cases, thorough_cases, stress=0):
    """focuses: list of (focus, weight); cases are split by weight. stress: number of real-thread
    stress cases (quick tier; x10 thorough) checked by the harness-side monitors only."""
    ctx.lean_obligations("Fv.Props." + prop, theorems(prop))
    drv = ctx.lean_exe("fvdrv_cache")
    h = ctx.cargo_build("cache", "cacheh")
    ctx.assumptions += ASSUMPTIONS
    # findings recorded by this builder that the lead has not merged into known_findings.json yet
    ep = os.path.join(VERIF, "findings", prop + ".entries.json")
    if os.path.exists(ep):
        have = {f["signature"] for f in ctx.known}
        ctx.known += [f for f in json.load(open(ep)) if f["property"] == prop and f["signature"] not in have]
    env = {"VERIF_PROP": prop}
    if ctx.replay:
        ctx.tie("replay", [h, "run", ctx.replay], [drv], env=env, shrink_with=[h, "run"]); return
    w = os.path.join(VERIF, "findings", prop + "_findings.case")
    if os.path.exists(w):
        ctx.tie("known-findings", [h, "run", w], [drv], env=env, shrink_with=[h, "run"])
    corpus = os.path.join(VERIF, "corpus", "cache")
    if os.path.isdir(corpus):
        for f in sorted(os.listdir(corpus)):
            if f.endswith(".case"):
                ctx.tie("corpus-" + f[:-5], [h, "run", os.path.join(corpus, f)], [drv], env=env, shrink_with=[h, "run"])
    total = quick_cases if ctx.quick else thorough_cases
    wsum = sum(wt for _, wt in focuses)
    for focus, wt in focuses:
        n = max(50, total * wt // wsum)
        ctx.tie("cache-differential-" + focus,
                [h, "gen", "--seed", str(ctx.seed), "--cases", str(n), "--tier", ctx.tier, "--focus", focus, "--workers", "8"], [drv], env=env,
                shrink_with=[h, "run"])   # a failing case is delta-debugged over its op list (vlib.Ctx.shrink)
    if stress:
        # real threads + live janitor (1 ms): concurrent histories checked against the per-key register with
        # real-time order, accounting at quiescence, listener truthfulness. Not replayed on the model; replay: best-effort.
        ctx.notes.append("stress tie: real-thread histories are checked by harness monitors only (no model replay); a hit is reproducible only statistically (cacheh stress <seed> <n>)")
        ctx.tie("cache-real-thread-stress", [h, "stress", str(ctx.seed), str(stress if ctx.quick else stress * 10)], None, env=env)
