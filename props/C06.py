"""C06 — async: woken when enabled; cancellation harmless (history level).
Theorems: Fv.Props.C06 (futures = the blocking forms' state machines moved by poll; pending only when stuck; "no wake
since the last poll" admitted only for a disabled future; dropping a pending future is a no-op on the abstract state
and conserves tokens; checker soundness for quiescence with futures).
Ties: chanh --mode async (manual-poll programs and 2-thread programs with futures) and --mode conc (async flavours
driven by the parking executor) through `fvdrv_chan --liveness`.
Step-level wake-conservation obligations (waker registration, wake-one forwarding) are the layer-B modules'."""
import os, sys
sys.path.insert(0, os.path.dirname(__file__))
import chanlib
from vlib import VERIF, CHAN_RUSTFLAGS

THEOREMS = chanlib.names("C06")
# ---- step-level B-model obligations/ties of other agents: each exposes THEOREMS (+MODULE) / obligations(ctx) and tie(ctx)
LAYER_B = chanlib.LAYER_B_ALL + ["lockb"]

def run(ctx):
    ctx.lean_obligations("Fv.Props.C06", THEOREMS)
    drv = ctx.lean_exe("fvdrv_chan")
    h = ctx.cargo_build("chan", "chanh", rustflags=CHAN_RUSTFLAGS)
    ctx.assumptions += [a for a in chanlib.ASSUMPTIONS if a not in ctx.assumptions]
    ctx.assumptions += [
        "C06: wakers are not modelled at this level; the history's wake counters (wakes f => n:k, dropfut => ok / ok:woken) are judged against enabledness on the abstract state (exact occupancy), k > 0 is never constrained",
        "C06: a future only moves while it is polled; its waiter records are filed under a per-future id",
        "C06: wake-ONE protocol: a polled, pending, enabled future may be unwoken (and a registered future polled again may stay Pending) while at least as many OTHER registered, enabled futures of the same direction exist as there are free slots / buffered items (the one wake-up per unit may sit with them); nothing is demanded while an operation of another thread is still in flight (the notification is the last step of a send / receive). A future of the same direction dropped after it was woken names finding F2 (signature suffix :after-woken-future-dropped)",
    ]
    if ctx.replay:
        if chanlib.replay_owner(ctx) is None:
            chanlib.liveness_tie(ctx, "replay", [h, "run", ctx.replay], drv)
        chanlib.layer_b(ctx, LAYER_B); return
    for w in ("C06_F2_wake_one_swallowed_by_dropped_future.case", "C06_F14_mpsc_b_async_send_fut_not_woken.case",
              "C06_F1_rdv_dropped_recv_future.case",
              "C04_OBS_oneshot_recv_after_taken.case"):
        if os.path.exists(os.path.join(VERIF, "findings", w)):
            chanlib.liveness_tie(ctx, "known-" + w[:-5], [h, "run", os.path.join(VERIF, "findings", w)], drv)
    # regression programs of repaired liveness findings (must pass with no monitor): F17 (fixed cd494c8)
    for w in ("C06_F17_fixed_mpmc2_spurious_repoll.case",):
        if os.path.exists(os.path.join(VERIF, "corpus", "chan", w)):
            chanlib.liveness_tie(ctx, "corpus-" + w[:-5], [h, "run", os.path.join(VERIF, "corpus", "chan", w)], drv)
    ns = 3000 if ctx.quick else 15000
    chanlib.tie(ctx, "seq-differential", [h, "gen", "--seed", str(ctx.seed), "--cases", str(ns), "--mode", "seq", "--tier", ctx.tier], [drv])
    n = 4000 if ctx.quick else 25000
    chanlib.liveness_tie(ctx, "async-futures", [h, "gen", "--seed", str(ctx.seed), "--cases", str(n), "--mode", "async",
                                                "--tier", ctx.tier], drv)
    chanlib.liveness_tie(ctx, "conc-liveness", [h, "gen", "--seed", str(ctx.seed), "--cases", str(n), "--mode", "conc",
                                                "--tier", ctx.tier], drv)
    chanlib.race_pairs_tie(ctx, h, drv)
    # scenario DFS: a future woken for an item / for space is dropped un-polled while the other side is parked
    # (exhaustive over schedules with one preemption; a swallowed or misdirected wake ends in a deadlock)
    sc = os.path.join(VERIF, "corpus", "chan_dfs", "dropfut.case")
    if os.path.exists(sc) and not ctx.replay:
        chanlib.liveness_tie(ctx, "dropfut-scenarios-dfs", [h, "dfs", sc, "--preempt", "1" if ctx.quick else "2",
                                                           "--max-runs", "300" if ctx.quick else "4000", "--all"], drv)
    chanlib.layer_b(ctx, LAYER_B)
