"""C07 — broadcast spmc: each receiver gets every value once, in order, with backpressure.
Spec level: sequential model lean/Fv/Chan/Bcast.lean (per-receiver cursor into the sent sequence), theorems
Fv.Props.C07, tie = sequential differential of every API form of fibre::spmc (sync + async, clone/close/drop/convert
orders) through chanh --flavours spmc,spmc_async --mode seq and fvdrv_chan, incl. the payload clone/drop counters.
Interleavings: the step-level model Fv/Chan/SpmcB.lean and its atomic-action tie (props/spmcb.py, if present)."""
import importlib, json, os, sys
sys.path.insert(0, os.path.dirname(__file__))
import chanlib
from vlib import VERIF, CHAN_RUSTFLAGS

THEOREMS = chanlib.names("C07")

def run(ctx):
    ctx.lean_obligations("Fv.Props.C07", THEOREMS)
    drv = ctx.lean_exe("fvdrv_chan")
    h = ctx.cargo_build("chan", "chanh", rustflags=CHAN_RUSTFLAGS)
    ctx.assumptions += [a for a in chanlib.ASSUMPTIONS if a not in ctx.assumptions]
    ctx.assumptions.append("spmc: concurrent histories are judged by the harness monitors and by the step-level model (SpmcB) only; fvdrv_chan replays the sequential cases")
    ef = os.path.join(VERIF, "findings", "SpmcB.entries.json")
    if os.path.exists(ef):
        have = {f["signature"] for f in ctx.known}
        for e in json.load(open(ef)):
            if e["property"] == "C07" and e["signature"] not in have:
                ctx.known.append(e)
    if ctx.replay:
        if chanlib.replay_owner(ctx) == "spmcb":
            importlib.import_module("spmcb").tie(ctx)
        else:
            chanlib.tie(ctx, "replay", [h, "run", ctx.replay], [drv])
        return
    for w in ("SpmcB_stale_clone.case", "SpmcB_reopened.case"):
        chanlib.witness_tie(ctx, h, drv, w)
    n = 3000 if ctx.quick else 20000
    chanlib.tie(ctx, "spmc-seq-differential", [h, "gen", "--seed", str(ctx.seed), "--cases", str(n), "--mode", "seq",
                                                "--tier", ctx.tier, "--flavours", "spmc,spmc_async"], [drv])
    chanlib.tie(ctx, "spmc-conc-monitors", [h, "gen", "--seed", str(ctx.seed), "--cases", str(n), "--mode", "conc",
                                             "--tier", ctx.tier, "--flavours", "spmc,spmc_async"], [drv])
    p = os.path.join(os.path.dirname(__file__), "spmcb.py")
    if os.path.exists(p):
        m = importlib.import_module("spmcb")
        if hasattr(m, "obligations"): m.obligations(ctx)
        if hasattr(m, "tie"): m.tie(ctx)
