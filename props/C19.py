"""C19 — log events reach exactly the configured appenders, in order, none lost.
Model: lean/Fv/Log/{Route,Pipeline}.lean; theorems: Fv.Props.C19; tie: T4 whole-process
differential (one child process per generated configuration) against the Lean engine `route`."""
import json
import os
from vlib import VERIF

THEOREMS = [l.strip() for l in open(os.path.join(VERIF, "props", "C19.theorems")) if l.strip() and not l.startswith("#")]

def run(ctx):
    # open findings of this property that the lead has not merged into known_findings.json yet
    ent = os.path.join(VERIF, "findings", "C19.entries.json")
    if os.path.exists(ent):
        have = {f["signature"] for f in ctx.known}
        ctx.known += [f for f in json.load(open(ent)) if f["property"] == "C19" and f["signature"] not in have]
    ctx.lean_obligations("Fv.Props.C19", THEOREMS)
    drv = ctx.lean_exe("fvdrv_route")
    h = ctx.cargo_build("logproc", "logproch")
    ctx.assumptions += [
        "the bounded fibre::mpsc channel is represented by its sequential FIFO specification plus a visible/in-flight distinction (its internals are C01-C05)",
        "HashMap iteration orders are arbitrary lists; byte length and char count order prefixes of one target identically",
        "routing is exercised through custom-stream appenders; the writer-thread loop is exercised by the shutdown-race tie with one file appender (console / rolling_file share run_byte_appender_writer)",
        "the writer's final drain (fix 4f2f2e4, former finding F12b) ends on Disconnected or on the FINAL_DRAIN_GRACE deadline (200 ms): real time is not modelled, the deadline is the explicit environment step graceExpired and the no-loss theorems assume it does not fire before the senders are closed and the in-flight sends have landed (graceEarly = false); C19_residual_graceExpired_early_loses is the decide-witness that an early expiry still loses an accepted event; the shutdown-race tie reports any such loss as pipeline:writer-lost-event-accepted-before-shutdown (no longer a known finding)",
        "a send is modelled with its closed check and its slot claim as one atomic step (the channel performs them as two loads; a send that passes the check just before close() and claims just after the receiver answered Disconnected is outside the model and belongs to C04)",
        "tracing callsite interest caching is sound because DispatchLayer::enabled depends on (target, level) only",
    ]
    if ctx.replay:
        ctx.tie("replay", [h, "run", ctx.replay], [drv]); return
    ctx.tie("known-findings", [h, "run", os.path.join(VERIF, "findings", "C19_F12a.case")], [drv])
    ctx.tie("corpus", [h, "run", os.path.join(VERIF, "corpus", "route", "C19_corpus.case")], [drv])
    n = 500 if ctx.quick else 6000
    ctx.tie("route-differential", [h, "gen", "--seed", str(ctx.seed), "--cases", str(n), "--tier", ctx.tier], [drv], timeout=3000)
    # shutdown racing k emitting threads: custom stream + file appender (writer thread), Block policy
    r = 80 if ctx.quick else 1500
    ctx.tie("shutdown-race", [h, "gen", "--seed", str(ctx.seed), "--cases", str(r), "--kind", "race"], [drv], timeout=3000)
