"""C12 — no expired entry is ever served (TTL, per-item TTL, TTI, stale window)."""
from props import cachelib, cacheconc
def run(ctx):
    cachelib.run(ctx, "C12", [("ttl", 6), ("register", 1), ("iter", 1)], 3600, 60000)
    # concurrent layer: expiry under interleavings (critical-section model with a virtual clock) + baton-scheduled tie
    cacheconc.obligations(ctx, "C12")
    cacheconc.tie(ctx)
