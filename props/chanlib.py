"""Shared plumbing of the channel properties C01–C07, C09 (harness `chanh`, Lean engine `fvdrv_chan`).

* `prop_of(sig)`      — which property a chanh monitor signature belongs to (README.md of the harness);
                        every property's check judges only its own signatures, the others are judged by
                        their own checks on the same kind of runs.
* `KNOWN`             — the open findings as *signature families* (regular expressions): chanh signatures
                        carry the flavour and the API form, so one defect shows under many spellings.
                        A monitor failure is reported as KNOWN-FINDING only if it matches a family of the
                        property being checked; anything else is a VIOLATION.
* `tie(ctx, name, cmd, drv)` — run a tie and apply the two filters above.
"""
import json, os, re
from vlib import VERIF, CHAN_RUSTFLAGS

FIND = os.path.join(VERIF, "findings")

def prop_of(sig):
    tail = sig.split(":", 1)[1] if ":" in sig else sig
    if tail.startswith("drop:"): return "C09"
    if tail.startswith("order:per-producer"): return "C02"
    if tail.startswith("order:broadcast") or "received-twice-by-one-receiver" in tail: return "C07"
    if tail.startswith("len:") or tail.startswith("occupancy:"): return "C03"
    if ":blocked-" in ":" + tail or "pending-enabled-not-woken" in tail:
        return "C06" if (sig.split(":")[0].endswith("_async") or "_fut:" in sig) else "C05"
    if "panic:" in tail: return "C05"
    # the worker process died while running the case (chanh gen restarts behind it): memory unsafety reached
    if tail.startswith("crash:"): return "C06" if sig.split(":")[0].endswith("_async") else "C05"
    if any(k in tail for k in ("value-never-sent", "value-received-twice", "returned-in-error-and-received",
                               "error-does-not-return", "ok-value-never-received")): return "C01"
    if any(k in tail for k in ("closed-handle", "second-close-ok", "accepted-after-all-receivers-gone",
                               "value-after-disconnected", "not-disconnected-after-disconnected",
                               "disconnected-before-drain", "empty-after-all-senders-gone", "disconnected-while-sender-alive")): return "C04"
    return "?"

# (id, property, regex, witness file, what): the open channel findings are listed in /verif/known_findings.json
# (entries with a `signature_regex`: chanh signatures carry flavour and API form, so one defect has several spellings)
KNOWN = [(f.get("id", "?"), f["property"], f["signature_regex"], f.get("witness", ""), f.get("what", ""))
         for f in json.load(open(os.path.join(VERIF, "known_findings.json")))["open"] if f.get("signature_regex")]
# families found by the thorough-tier validation of the history-level ties, pending their merge into known_findings.json
# (merge_findings.py, run by the lead): same shape; an entry already merged is simply listed twice
for _E in ("chanq.entries.json", "chanx.entries.json"):
    _P = os.path.join(FIND, _E)
    if os.path.exists(_P):
        KNOWN += [(f.get("id", "?"), f["property"], f["signature_regex"], f.get("witness", ""), f.get("what", ""))
                  for f in json.load(open(_P)) if f.get("signature_regex")]

def classify(ctx, tie):
    """Keep the monitor failures of this property; turn those matching a known family into known findings."""
    keep = []
    for cid, sig, msg in tie.monitor_fails:
        if prop_of(sig) != ctx.prop:
            continue
        keep.append((cid, sig, msg))
        if any(f["signature"] == sig for f in ctx.known):
            continue
        for fid, prop, rx, wit, what in KNOWN:
            if prop == ctx.prop and re.search(rx, sig):
                ctx.known.append({"id": fid, "property": prop, "signature": sig, "witness": wit, "what": what})
                break
    other = len(tie.monitor_fails) - len(keep)
    tie.monitor_fails = keep
    if other:
        ctx.notes.append("tie %s: %d monitor lines of other channel properties ignored here (judged by their own checks)" % (tie.name, other))
    return tie

def tie(ctx, name, cmd, drv, **kw):
    t = ctx.tie(name, cmd, drv, **kw)
    return classify(ctx, t)

ASSUMPTIONS = [
    "chan: the model is at linearization-point granularity (one step = one atomic effect on the abstract FIFO / waiter queues); the step-level lock-free protocols (ring indices, tickets, chain links, park/unpark) are the subject of the layer-B models tied by atomic-action traces (props/spscb.py, mpsc3b.py, mpmc2b.py, rdvb.py)",
    "chan: sequentially consistent executions only (the scheduler shim runs one thread at a time)",
    "chan: concurrent specification is deliberately weaker than an atomic FIFO where the code is: try_recv may report Empty / try_send Full while another send is in flight (claimed-but-unwritten ticket, SKIP tombstones, swap-then-link), `len`-based probes of the lock-free families are not compared in concurrent histories; SKIP tombstones of overshooting bounded-mpsc claims (any send form racing another) count as occupancy until the consumer walks over them, so a later try_send may report Full below capacity (only after two sends overlapped and before the consumer next walks to the end of the ring with no send in flight)",
    "chan: operations that are several atomic steps in the code are several steps in the concurrent specification: oneshot send = claim (WRITING) / second look at receiver_dropped / publish / drop of the consumed Sender; spsc sender close = producer_dropped store / sender_count decrement (no receive form observes the flag since fix 23f212c of finding N6); batches on the lock-free rings move item by item",
    "chan: usize counters are 64-bit and wrap (release profile); values are distinct small integers",
]

def corpus_ties(ctx, h, drv, drvargs=()):
    d = os.path.join(VERIF, "corpus", "chan")
    out = []
    if os.path.isdir(d):
        for f in sorted(os.listdir(d)):
            if f.endswith(".case") and not f.startswith("atomics_"):
                out.append(tie(ctx, "corpus-" + f[:-5], [h, "run", os.path.join(d, f)], [drv, *drvargs]))
    return out

def witness_tie(ctx, h, drv, fname, drvargs=()):
    p = os.path.join(FIND, fname)
    if os.path.exists(p):
        return tie(ctx, "known-" + fname[:-5], [h, "run", p], [drv, *drvargs])

def standard_run(ctx, module, theorems, witnesses, quick_n=(3000, 3000), thorough_n=(20000, 20000), extra=None,
                 async_n=(1500, 10000)):
    ctx.lean_obligations(module, theorems)
    drv = ctx.lean_exe("fvdrv_chan")
    h = ctx.cargo_build("chan", "chanh", rustflags=CHAN_RUSTFLAGS)
    ctx.assumptions += [a for a in ASSUMPTIONS if a not in ctx.assumptions]
    if ctx.replay:
        if replay_owner(ctx) is None:
            tie(ctx, "replay", [h, "run", ctx.replay], [drv])
        return h, drv
    for w in witnesses:
        witness_tie(ctx, h, drv, w)
    corpus_ties(ctx, h, drv)
    ns, nc = quick_n if ctx.quick else thorough_n
    tie(ctx, "seq-differential", [h, "gen", "--seed", str(ctx.seed), "--cases", str(ns), "--mode", "seq", "--tier", ctx.tier], [drv])
    tie(ctx, "conc-linearizability", [h, "gen", "--seed", str(ctx.seed), "--cases", str(nc), "--mode", "conc", "--tier", ctx.tier], [drv])
    # manual-poll programs (chanx C): registered-waiter states are reached deterministically there (k > cap pending futures,
    # then cap+1 non-blocking operations of the other side, `len` / `is_full` probes); lost-wakeup mismatches of the
    # futures checker belong to C06 and are left to it (liveness_tie keeps only those of the property being checked)
    na = async_n[0] if ctx.quick else async_n[1]
    if na:
        liveness_tie(ctx, "async-futures", [h, "gen", "--seed", str(ctx.seed), "--cases", str(na), "--mode", "async", "--tier", ctx.tier], drv)
    race_pairs_tie(ctx, h, drv)
    if extra:
        extra(ctx, h, drv)
    return h, drv

def race_pairs_tie(ctx, h, drv):
    """`chanh races` (chanx D / E): every admin op (clone / close / drop / to_async / to_sync) of either side in one thread
    against every data / probe op of the other side — of the same side on a clone — and of the SAME handle shared by both
    threads — in a second thread; tiny programs explored best-first (fewest preemptions first) with preemption bound 2 and
    a run budget per program. Quick tier: the core pairs (try-form of the other side at the empty / full boundary, try-form
    on a clone, every shared-handle program) and a sample of the others chosen by seed; thorough: every program. The runs
    are ordinary concurrent histories: monitors + linearizability (+ quiescence rule), judged under the checked property."""
    return liveness_tie(ctx, "race-pairs-dfs", [h, "races", "--seed", str(ctx.seed), "--tier", ctx.tier], drv)


def names(prop):
    return [l.strip() for l in open(os.path.join(VERIF, "props", prop + ".theorems")) if l.strip() and not l.startswith("#")]


# ---------------------------------------------------------------- liveness (C05 / C06)
LIVE_RX = re.compile(r"(?:blocked-op-enabled-at-quiescence|pending-enabled-not-woken) sig=(\S*)")

def liveness_tie(ctx, name, cmd, drv):
    """Tie with the quiescence requirement (`fvdrv_chan --liveness`): a history that ended in a deadlock must
    have a linearization in whose final state every never-returned operation is disabled.  The model's
    `Enabled` is the property's (exact occupancy, senders/receivers gone), so the open lost-wakeup findings
    (F14, F18, F2) show up here as `blocked-op-enabled-at-quiescence sig=<flavour>:<form>:<shape>` mismatches.
    They are turned into monitor failures under the harness' signature scheme, so that they are reported as
    KNOWN-FINDING only if that signature belongs to an open finding of the property being checked, and as a
    VIOLATION otherwise.  Cases whose blocked operation belongs to the sibling property (C05: sync flavours,
    C06: *_async flavours and futures) are left to that property's check."""
    t = ctx.tie(name, cmd, [drv, "--liveness"])
    keep = []
    for cid, line in t.mismatches:
        m = LIVE_RX.search(line)
        if not m:
            keep.append((cid, line)); continue
        sigs = [x for x in m.group(1).split(",") if x]
        mine = [x for x in sigs if prop_of(x) == ctx.prop]
        if not sigs:
            keep.append((cid, line)); continue
        fired = {s for c, s, _ in t.monitor_fails if c == cid}
        # the harness' own liveness monitor already named the defect of this case (its signature is the one judged)
        if any(prop_of(s) == ctx.prop and any(pr == ctx.prop and re.search(rx, s) for _, pr, rx, _, _ in KNOWN) for s in fired):
            continue
        for x in mine:
            if x not in fired:
                t.monitor_fails.append((cid, x, "checker: never-returned operation is enabled in the final state of every linearization (" + line[:160] + ")"))
        if not mine:
            ctx.notes.append("tie %s case %s: blocked-enabled operation belongs to the sibling liveness property (%s)" % (name, cid, ",".join(sigs)))
    t.mismatches = keep
    return classify(ctx, t)

def replay_owner(ctx):
    """name of the layer-B plug-in whose tie wrote the replay file (its tie names start with `<plug-in>-`), else None"""
    try:
        for l in open(ctx.replay, errors="replace"):
            if l.startswith("# tie: "):
                name = l[len("# tie: "):].strip()
                for m in LAYER_B_ALL + ["lockb"]:
                    if name.startswith(m + "-"):
                        return m
                return None
            if not l.startswith("#"):
                break
    except OSError:
        pass
    return None

# the step-level cores (props/<name>.py plug-ins), in the order their ties run
LAYER_B_ALL = ["spscb", "mpsc3b", "mpmc2b", "rdvb", "chainb", "spmcb", "oneshotb"]

def layer_b(ctx, mods):
    """Step-level (layer B) obligations and atomic-action ties of the lock-free cores, provided by other modules
    (each exposes THEOREMS (+ MODULE) or obligations(ctx), and tie(ctx)).  They run in both tiers (quick sizes are the plug-ins' own; VERIF_CHAN_LAYERB=0 switches them off).  Their monitor lines are
    filtered like ours: only signatures of the property being checked are judged here."""
    import importlib
    if os.environ.get("VERIF_CHAN_LAYERB", "1") == "0":
        ctx.notes.append("layer-B modules (%s) switched off by VERIF_CHAN_LAYERB=0" % ", ".join(mods))
        return
    if ctx.replay:
        # a replay file belongs to the tie that wrote it (`# tie: <name>` header): only that engine re-judges it
        owner = replay_owner(ctx)
        mods = [m for m in mods if owner is not None and owner == m]
    for mod in mods:
        p = os.path.join(VERIF, "props", mod + ".py")
        if not os.path.exists(p):
            ctx.notes.append("layer-B module props/%s.py not present yet" % mod); continue
        try:
            m = importlib.import_module(mod)
            ef = os.path.join(FIND, mod + ".entries.json")
            if os.path.exists(ef):
                have = {f["signature"] for f in ctx.known}
                for e in json.load(open(ef)):
                    if e.get("property") == ctx.prop and e["signature"] not in have:
                        ctx.known.append(e)
            if hasattr(m, "obligations"): m.obligations(ctx)
            elif hasattr(m, "THEOREMS") and hasattr(m, "MODULE"): ctx.lean_obligations(m.MODULE, m.THEOREMS)
            if hasattr(m, "tie"):
                n0 = len(ctx.ties)
                m.tie(ctx)
                for t in ctx.ties[n0:]:
                    classify(ctx, t)
        except Exception as e:
            ctx.proof_failures.append({"module": mod, "error": "layer-B module failed", "log": repr(e)[:1500]})
