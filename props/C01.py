"""C01 — exactly-once delivery; failed operations have no effect.
Model: lean/Fv/Chan/{Spec,Seq,Lin,LinCore}.lean; theorems: Fv.Props.C01; ties: sequential differential of every
API form of every point-to-point flavour (chanh --mode seq -> Q) and linearizability of scheduled concurrent
histories (chanh --mode conc -> Fv.Chan.linearizable), both through fvdrv_chan."""
import os, sys
sys.path.insert(0, os.path.dirname(__file__))
import chanlib

THEOREMS = chanlib.names("C01")

def run(ctx):
    chanlib.standard_run(ctx, "Fv.Props.C01", THEOREMS, ["C01_F1_rdv_timed_recv_cancel_race.case"])
    for mod in ("spscb", "mpsc3b", "mpmc2b", "rdvb"):
        # step-level (layer B) obligations/ties of the lock-free cores, provided by their own modules
        p = os.path.join(os.path.dirname(__file__), mod + ".py")
        if os.path.exists(p) and os.environ.get("VERIF_CHAN_LAYERB", "0") == "1":
            import importlib
            m = importlib.import_module(mod)
            if hasattr(m, "obligations"): m.obligations(ctx)
            if hasattr(m, "tie"): m.tie(ctx)
