"""C16 — eviction listener notifications are truthful and never duplicated."""
from props import cachelib, cacheconc
def run(ctx):
    cachelib.run(ctx, "C16", [("listener", 6), ("capacity", 1), ("ttl", 1)], 3600, 60000, stress=150)
    # concurrent layer: critical-section model over all interleavings + baton-scheduled tie on the real Cache
    cacheconc.obligations(ctx, "C16")
    cacheconc.tie(ctx)
