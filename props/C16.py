"""C16 — eviction listener notifications are truthful and never duplicated."""
from props import cachelib
def run(ctx):
    cachelib.run(ctx, "C16", [("listener", 6), ("capacity", 1), ("ttl", 1)], 3600, 60000, stress=150)
