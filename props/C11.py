"""C11 — cache reads return only the latest live value of their own key."""
from props import cachelib, cacheconc
def run(ctx):
    cachelib.run(ctx, "C11", [("register", 5), ("capacity", 2), ("ttl", 1), ("iter", 1)], 3600, 60000, stress=150)
    # concurrent layer: critical-section model over all interleavings + baton-scheduled tie on the real Cache
    cacheconc.obligations(ctx, "C11")
    cacheconc.tie(ctx)
    # fetch_with values enter the map through the loader task: the order of its critical sections (map insert,
    # marker removal, completion of the shared future) is tied step by step by the C15 engine; its monitors are
    # judged by ./check C15, here only the correspondence counts (a value handed to callers before it is published
    # could be overwritten late: "returns an overwritten value after the overwrite completed")
    if not ctx.replay:
        ldrv = ctx.lean_exe("fvdrv_loader")
        lh = ctx.cargo_build("cache", "loaderh")
        t = ctx.tie("loader-step-order", [lh, "gen", "--seed", str(ctx.seed), "--cases", "500" if ctx.quick else "2500",
                                          "--dfs", "2000" if ctx.quick else "8000"], [ldrv])
        t.monitor_fails = []
