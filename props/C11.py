"""C11 — cache reads return only the latest live value of their own key."""
from props import cachelib, cacheconc
def run(ctx):
    cachelib.run(ctx, "C11", [("register", 5), ("capacity", 2), ("ttl", 1), ("iter", 1)], 3600, 60000, stress=150)
    # concurrent layer: critical-section model over all interleavings + baton-scheduled tie on the real Cache
    cacheconc.obligations(ctx, "C11")
    cacheconc.tie(ctx)
