OV = {}
OV["H_pDropDec"] = '''  rename_i b hpc
  have hmem : h ∈ s.liveS := (hH.live h).1 |> fun _ => (hH.live h).2 (hH.active h (by simp [hpc]))
  constructor <;> simp only []
  case cnt => rw [List.length_erase_of_mem hmem, hH.cnt]
  case nodup => exact hH.nodup.erase h
  case live => intro h'; rw [hH.nodup.mem_erase_iff]; have := hH.live h'; grind
  case fin_live => intro hf; simp [hH.fin_live hf]
  all_goals closeH hH'''
OV["H_pClone"] = '''  rename_i hc
  constructor <;> simp only []
  case cnt => simp [hH.cnt]
  case nodup =>
    have : h' ∉ s.liveS := fun hm => by have := (hH.live h').1 hm; simp_all
    exact List.nodup_append.2 ⟨hH.nodup, by simp, by intro a ha b hb; simp at hb; subst hb; intro e; subst e; exact this ha⟩
  case live => intro h2; have := hH.live h2; simp [List.mem_append]; grind
  case fin_live => intro hf; rw [hc.2.2] at hf; simp at hf
  all_goals closeH hH'''

OV["P_pBump"] = '''  all_goals (rename_i b hpc hsl hg _; have hfree := hS.owned_free h b (s.ppos h) hsl (Nat.le_refl _) hg.2)
  all_goals (constructor <;> simp only [] <;> closeP hP)'''

OV["C_pSwap"] = '''  constructor <;> simp only []
  case seq => rw [List.take_append_of_le_length (by have := hC.k_le; have := hC.len; omega)]; exact hC.seq
  all_goals closeC hC'''

OV["C_cPopLoad"] = '''  all_goals first
    | (have hg : s.tailGone = false := by
         cases hgg : s.tailGone
         · rfl
         · have := hH.gone_fin hgg; simp_all
       obtain ⟨hlt, hnx, hpk⟩ := hC.next_tail hg (by assumption)
       have hv := hC.vals (s.k + 1) (by omega) (by omega)
       have hd := hC.nodrop (by assumption)
       have hs := hC.seq
       have hl := hC.len
       constructor <;> simp only []
       case seq =>
         rw [hd] at hs ⊢
         simp at hs ⊢
         rw [hnx, hv, List.take_add_one, ← hs]
         simp [List.getElem?_eq_getElem (show s.k < s.sent.length by omega)]
       all_goals closeC hC)
    | (constructor <;> simp only [] <;> closeC hC)'''
OV["C_cFinLoad"] = '''  all_goals first
    | (have hg : s.tailGone = false := by
         have := hH.gone_pc; simp_all
       obtain ⟨hlt, hnx, hpk⟩ := hC.next_tail hg (by assumption)
       have hv := hC.vals (s.k + 1) (by omega) (by omega)
       have hs := hC.seq
       have hl := hC.len
       constructor <;> simp only []
       case seq =>
         rw [hnx, hv, List.take_add_one, ← hs]
         simp [List.getElem?_eq_getElem (show s.k < s.sent.length by omega)]
       all_goals closeC hC)
    | (have hf : s.fin = true := by have := hH.fin_pc; simp_all
       have hk := InvC.tail_none_fin hH hC hf (by assumption)
       constructor <;> simp only [] <;> closeC hC)'''

OV["S_pBump"] = '''  all_goals (
    rename_i b hpc hsl hg _
    have hfree := hS.owned_free h b (s.ppos h) hsl (Nat.le_refl _) hg.2
    constructor <;> simp only []
    case count => intro b' hb'; rw [live_congr (nst := s.nst) (by grind)]; exact hS.count b' hb'
    all_goals closeS hS)'''

_seal = '''    have hb : b < s.nextSlab := by
      apply Classical.byContradiction; intro hn
      have := (hS.fresh b (by omega)).1
      rw [hS.owned h b hsl] at this; simp at this
    have hc := hS.count b hb
    rw [hS.owned h b hsl] at hc
    have hof := hS.owned_free h b
    have hpos := (hS.owned_pos h b hsl).1
    have ht := live_tail (cfg := cfg) (nst := s.nst) (nst' := sealNodes cfg s.nst b (s.ppos h)) (b := b) (u := s.ppos h) hpos
      (by intro i hi; simp [sealNodes_nd]; omega)
      (by intro i h1 h2; rw [hof i hsl h1 h2]; simp)
      (by intro i h1 h2; simp [sealNodes_nd, h1, h2])
    simp at hc
    constructor <;> simp only []
    case count =>
      intro b' hb'
      by_cases hbb : b' = b
      · subst hbb; simp; split <;> simp <;> omega
      · rw [live_congr (nst := s.nst) (by intro i hi; simp [sealNodes_nd, hbb])]
        simp [upd_apply, hbb]; exact hS.count b' hb'
    case sealed_pos =>
      intro b'
      by_cases hbb : b' = b
      · subst hbb; simp; omega
      · simp [upd_apply, hbb]; exact hS.sealed_pos b'
    all_goals closeS hS'''
OV["S_pSealDec"] = "  · rename_i b hpc hsl hcond\n" + _seal + "\n  · rename_i b hpc hsl\n" + _seal

OV["S_pRelUnlock"] = '''  all_goals (
    rename_i b c hpc hlen
    have hrel := hS.p_relUnlock hpc
    constructor <;> simp only []
    all_goals first
      | (have hnot : b ∉ s.pool := by
           intro hm; have := (hS.pool_iff b).1 hm; rw [hrel] at this; simp at this
         exact nodup_snoc hS.pool_nodup hnot)
      | closeS hS)'''
OV["S_cRelUnlock"] = '''  all_goals (
    rename_i b c hpc hlen
    have hrel := hS.c_relUnlock hpc
    constructor <;> simp only []
    all_goals first
      | (have hnot : b ∉ s.pool := by
           intro hm; have := (hS.pool_iff b).1 hm; rw [hrel] at this; simp at this
         exact nodup_snoc hS.pool_nodup hnot)
      | closeS hS)'''

OV["S_pAcqUnlock"] = '''  all_goals first
    | (rename_i hpc _ b hlast
       obtain ⟨hnd, hnot, hmem⟩ := pool_pop_nodup hlast hS.pool_nodup
       have hpb : s.sst b = .pooled := (hS.pool_iff b).1 ((hmem b).2 (Or.inr rfl))
       constructor <;> simp only []
       case pool_nodup => exact hnd
       case pool_iff =>
         intro b'
         have := hS.pool_iff b'
         have := hmem b'
         by_cases hbb : b' = b
         · subst hbb; simp [hnot]
         · simp [upd_apply, hbb]; grind
       all_goals closeS hS)
    | (constructor <;> simp only [] <;> closeS hS)'''

OV["S_pRearmRem"] = '''  rename_i b hpc
  have hpop := hS.popped h b hpc
  constructor <;> simp only []
  case count =>
    intro b' hb'
    by_cases hbb : b' = b
    · subst hbb
      rw [live_all (by intro i hi; simp [freeNodes_nd, hi])]; simp; omega
    · rw [live_congr (nst := s.nst) (by intro i hi; simp [freeNodes_nd, hbb])]
      simp [upd_apply, hbb]; exact hS.count b' hb'
  all_goals closeS hS'''

OV["S_pAlloc"] = '''  constructor <;> simp only []
  case count =>
    intro b' hb'
    by_cases hbb : b' = s.nextSlab
    · subst hbb
      rw [live_all (by intro i hi; rw [(hS.fresh_nodes _ i (Nat.le_refl _)).1]; simp)]; simp; omega
    · simp [upd_apply, hbb]; exact hS.count b' (by omega)
  all_goals closeS hS'''

OV["S_pSwap"] = '''  constructor <;> simp only []
  case count =>
    intro b' hb'
    rw [live_congr (nst := s.nst) (by intro i hi; grind)]; exact hS.count b' hb'
  all_goals closeS hS'''

_popS1 = '''    have hg : s.tailGone = false := by
      cases hgg : s.tailGone
      · rfl
      · have := hH.gone_fin hgg; have := hH.gone_pc; simp_all
    obtain ⟨hlt, hnx, hpk⟩ := hC.next_tail hg (by assumption)
    have htl := hC.at_in hg s.k (Nat.le_refl _) hC.k_le
    rw [← hC.tail] at htl
    constructor <;> simp only []
    case count =>
      intro b' hb'
      rw [live_congr (nst := s.nst) (by intro i hi; grind)]; exact hS.count b' hb'
    all_goals closeS hS'''
OV["S_cPopLoad"] = "  · constructor <;> simp only [] <;> closeS hS\n  ·\n" + _popS1 + "\n  ·\n" + _popS1

OV["S_cRetDec"] = '''  rename_i b i c hpc
  have hlim : s.nst (.nd b i) = .limbo := (hS.limbo _).2 (by rw [hpc]; rfl)
  have hi : i < cfg.N := by
    apply Classical.byContradiction; intro hn
    have := (hS.junk b i (by omega)).1; rw [this] at hlim; simp at hlim
  have hb : b < s.nextSlab := by
    apply Classical.byContradiction; intro hn
    have := (hS.fresh_nodes b i (by omega)).1; rw [this] at hlim; simp at hlim
  have hc := hS.count b hb
  have hfl := live_flip (cfg := cfg) (nst := s.nst) (nst' := upd s.nst (.nd b i) .retired) (b := b) hi
    (by rw [hlim]; simp) (by simp) (by intro j hj; simp [upd_apply, hj])
  have hz := hS.zero b
  have hsp := hS.sealed_pos b
  have hst : s.rem b = 1 → s.sst b = .sealed := by
    intro h1
    cases hs : s.sst b <;> first
      | rfl
      | (exfalso; exact hS.alloc b hb hs)
      | (exfalso; rw [hs] at hc; simp at hc; omega)
      | (exfalso; have := hz (by rw [hs]; rfl); omega)
  constructor <;> simp only []
  case count =>
    intro b' hb'
    by_cases hbb : b' = b
    · subst hbb
      simp
      split
      · rename_i h1; have := hst h1; simp; omega
      · cases hs : s.sst b' <;> simp [hs] at hc ⊢ <;> omega
    · rw [live_congr (nst := s.nst) (by intro j hj; simp [upd_apply, hbb])]
      simp [upd_apply, hbb]; exact hS.count b' hb'
  case sealed_pos =>
    intro b'
    by_cases hbb : b' = b
    · subst hbb; simp; split
      · simp
      · intro hs; simp [hs] at hc; omega
    · simp [upd_apply, hbb]; exact hS.sealed_pos b'
  case zero =>
    intro b'
    by_cases hbb : b' = b
    · subst hbb; simp; split
      · intro _; omega
      · intro hzz; have := hz hzz; omega
    · simp [upd_apply, hbb]; exact hS.zero b'
  all_goals closeS hS'''

_finS1 = '''    have hg : s.tailGone = false := by
      have := hH.gone_pc; simp_all
    have htl := hC.at_in hg s.k (Nat.le_refl _) hC.k_le
    rw [← hC.tail] at htl
    constructor <;> simp only []
    case count =>
      intro b' hb'
      rw [live_congr (nst := s.nst) (by intro i hi; grind)]; exact hS.count b' hb'
    all_goals closeS hS'''
OV["S_cFinLoad"] = "  ·\n" + _finS1 + "\n  ·\n" + _finS1 + "\n  ·\n" + _finS1 + "\n  ·\n" + _finS1
