import re, os, sys
sys.path.insert(0, os.path.dirname(__file__))
steps = [
 ("pStart", "stepPStart", "{h : Nat} {vals : List Nat}", "stepPStart s h vals"),
 ("pBump", "stepPBump", "{h : Nat}", "stepPBump cfg s h"),
 ("pSealDec", "stepPSealDec sealDec", "{h : Nat}", "stepPSealDec cfg s h"),
 ("pRelFence", "stepPRelFence", "{h : Nat}", "stepPRelFence s h"),
 ("pRelLock", "stepPRelLock", "{h : Nat}", "stepPRelLock s h"),
 ("pRelUnlock", "stepPRelUnlock", "{h : Nat}", "stepPRelUnlock cfg s h"),
 ("pAcqLock", "stepPAcqLock", "{h : Nat}", "stepPAcqLock s h"),
 ("pAcqUnlock", "stepPAcqUnlock", "{h : Nat}", "stepPAcqUnlock s h"),
 ("pRearmRem", "stepPRearmRem", "{h : Nat}", "stepPRearmRem cfg s h"),
 ("pRearmNode", "stepPRearmNode", "{h : Nat}", "stepPRearmNode cfg s h"),
 ("pAlloc", "stepPAlloc", "{h : Nat}", "stepPAlloc cfg s h"),
 ("pPrelink", "stepPPrelink", "{h : Nat}", "stepPPrelink s h"),
 ("pSwap", "stepPSwap", "{h : Nat}", "stepPSwap s h"),
 ("pLink", "stepPLink", "{h : Nat}", "stepPLink s h"),
 ("pClose", "stepPClose", "{h : Nat}", "stepPClose s h"),
 ("pDropDec", "stepPDropDec", "{h : Nat}", "stepPDropDec s h"),
 ("pClone", "stepPClone", "{h h' : Nat}", "stepPClone s h h'"),
 ("cPopLoad", "stepCPopLoad leaveNode", "", "stepCPopLoad s"),
 ("cRetDec", "stepCRetDec", "", "stepCRetDec s"),
 ("cRelFence", "stepCRelFence", "", "stepCRelFence s"),
 ("cRelLock", "stepCRelLock", "", "stepCRelLock s"),
 ("cRelUnlock", "stepCRelUnlock", "", "stepCRelUnlock cfg s"),
 ("cRet", "stepCRet", "", "stepCRet s"),
 ("cFinStart", "stepCFinStart", "", "stepCFinStart s"),
 ("cFinLoad", "stepCFinLoad leaveNode", "", "stepCFinLoad s"),
]
inv = open('/verif/lean/Fv/Lemmas/ChainBInv.lean').read()
def fields(G):
    m = re.search(r"structure Inv%s .*? where\n(.*?)\n\n" % G, inv, re.S)
    return re.findall(r"^  (\w+) :", m.group(1), re.M)
F = {G: fields(G) for G in "HPCS"}
hdr = '''import Fv.Lemmas.%s
/-! Preservation of `Inv%s` by every step of the slab-chain model (generated skeleton + hand proofs). -/
namespace Fv.Chan.ChainB
set_option maxHeartbeats 1000000
attribute [local grind =] upd_apply upd2_apply publishNodes_apply sealNodes_apply freeNodes_apply freeNodes_nd freeNodes_stub sealNodes_nd sealNodes_stub

'''
keep = {"H": ["hH"], "P": ["hH","hP","hC","hS"], "C": ["hH","hP","hC","hS"], "S": ["hH","hP","hC","hS"]}
try:
    from overrides import OV
except Exception as e:
    print("no overrides", e); OV = {}
only = sys.argv[1:]   # e.g. H_pStart : write scratch file for just that theorem
def thm(G, nm, unf, bind, app):
    res = "InvS cfg s'" if G=="S" else f"Inv{G} s'"
    hv = "h"+G
    clears = [x for x in ["hH","hP","hC","hS"] if x not in keep[G]]
    key = f"{G}_{nm}"
    body = OV.get(key)
    if body is None:
        clr = ("  all_goals clear " + " ".join(clears) + "\n") if clears else ""
        if only:
            body = f"{clr}  all_goals (constructor <;> simp only [] <;> try close{G} {hv})"
        else:
            body = f"{clr}  all_goals (constructor <;> simp only [] <;> close{G} {hv})"
    return f'''theorem inv{G}_{nm} {{cfg : Cfg}} {{s s' : State}} {bind} (hN : 0 < cfg.N) (hi : Inv cfg s)
    (hs : {app} = some s') : {res} := by
  obtain ⟨hH, hP, hC, hS⟩ := hi
  have _ := hN
  unfold {unf} at hs
  step_elim hs
{body}

'''
def macro(G):
    hv = "h"+G
    alts = " | ".join(f"exact (${hv}).{f}" for f in F[G])
    return f"macro \"close{G} \" {hv}:ident : tactic => `(tactic| first | {alts} | grind)\n\n"
if only:
    G, nm = only[0].split("_")
    st = [x for x in steps if x[0]==nm][0]
    out = hdr % ("ChainBInv", G) + macro(G) + "set_option profiler true\nset_option profiler.threshold 2000\n" + thm(G,*st) + "end Fv.Chan.ChainB\n"
    open("/verif/.build/scratch/one.lean","w").write(out)
else:
    for G in "HPCS":
        out = hdr % ({'H':'ChainBInv','P':'ChainBStepH','C':'ChainBStepP','S':'ChainBStepC'}[G], G) + macro(G)
        for st in steps: out += thm(G,*st)
        out += "end Fv.Chan.ChainB\n"
        open(f"/verif/lean/Fv/Lemmas/ChainBStep{G}.lean","w").write(out)
