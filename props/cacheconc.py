"""cacheconc — concurrent (critical-section granularity) layer of the cache properties C11, C13, C16.

Model: lean/Fv/Cache/Conc.lean — N threads running arbitrary programs of get/peek/fetch, insert (incl.
overwrite with another cost), remove/invalidate, compute / try_compute, entry().or_insert, clear and
maintenance passes (cooperative maintenance inside insert, run_maintenance / janitor cleanup: drain of the
write-event buffer, admission with policy-chosen victims, TTL cleanup, capacity pass); ONE step = what the
code does under one acquisition of a shard's map lock, one atomic add/sub on `current_cost`, one event-buffer
push/pop, one policy call, one notification try_send, or the acquisition/release of a maintenance_lock.
Theorems (every program, thread count, policy behaviour, interleaving): Fv.Props.CacheConc (C11c_*, C13c_*),
Fv.Props.C11Conc (real-time order), Fv.Props.C16Conc; lemmas Fv.Lemmas.CacheConc*.
Tie (T3): harness/cache/src/bin/conch.rs runs generated multi-thread programs on the REAL `Cache` on real
threads under a baton scheduler installed through the cfg(excsn_fibre_verif) yield points placed between the
critical sections AND before every shard / maintenance lock acquisition (second hook: every HybridRwLock /
HybridMutex acquisition and every clock read is reported), random schedules + stateless DFS over tiny programs;
`fvdrv_cacheconc` replays every step on the model: the step must be enabled for that thread, its outcome /
return value must be the model's, the lock acquisitions and clock reads observed inside the step must be exactly
the model's footprint of that step (Fv.Cache.Conc.footprint, order and mode included), and after every scheduling
decision the implementation's `current_cost` and resident map must equal the model's. Expiry: virtual clock
`advance` ops, TTL / TTI / per-insert TTL (theorems Fv.Props.C12Conc).

Used by the property scripts of C11, C12, C13, C16:
    from props import cacheconc; cacheconc.obligations(ctx); cacheconc.tie(ctx)
"""
import json
import os
import shlex
from vlib import VERIF

MODULE = "Fv.Props.C16Conc"            # imports Fv.Props.CacheConc
EXTRA_MODULES = ("Fv.Props.C11Conc", "Fv.Props.C13Conc", "Fv.Props.C12Conc", "Fv.Props.CacheConcAsync")


def _read(name):
    return [l.strip() for l in open(os.path.join(VERIF, "props", name)) if l.strip() and not l.startswith("#")]


THEOREMS_BY_PROP = {"C11": _read("C11conc.theorems"), "C12": _read("C12conc.theorems"), "C13": _read("C13conc.theorems"), "C16": _read("C16conc.theorems")}
THEOREMS = [t for p in ("C11", "C12", "C13", "C16") for t in THEOREMS_BY_PROP[p]]

# which harness monitor signatures speak about which property
SIG_PREFIXES = {
    "C11": ("conc:read-", "conc:remove-returned", "conc:compute-", "conc:or_insert-", "conc:map-changed"),
    "C12": ("conc:expiry:",),
    "C13": ("conc:accounting:",),
    "C16": ("conc:listener:",),
}
WITNESSES = [os.path.join(VERIF, "findings", f) for f in ("cacheconc_capacity_policy_cost.case", "cacheconc_expiry.case", "cacheconc_async_clear_deadlock.case")]

ASSUMPTIONS = [
    "cacheconc: each critical section (one shard map guard, one policy call, one atomic op on current_cost, one channel push/pop) is atomic: the tie yields only BETWEEN them (hook points), so interleavings inside a section and weak-memory effects of the Relaxed counter are not explored",
    "cacheconc: policies are oracles (admission decision, victims, released cost come from the implementation and are label parameters of the model); the policy contract itself is C14",
    "cacheconc: the background janitor thread is parked (tick 1 h) and maintenance is driven through run_maintenance / cooperative maintenance — the model's `maint` operation also covers the janitor's own cleanup shape (try_lock, limit 256), which is not driven by the tie; the expiry set of the timer wheel (tick-driven, F7) and the TTI sample are oracles read from the implementation",
    "cacheconc: time is the virtual clock of the cfg(excsn_fibre_verif) hook; it advances only through `advance` operations of the programs (any thread, any point of the interleaving); cases that use expiry own the process-global clock (serialised)",
    "cacheconc: async operations are driven to completion by one worker thread each (an executor whose park / wake go through the scheduler); a case containing an async insert runs with maintenance_chance 2^31 because the async insert's maintenance SIGNAL would wake the real janitor thread, which is not under the scheduler (its pass shape is the model's `maint` call); waiter-queue behaviour of the hybrid lock (writer preference, WRITER_PENDING) is C10's subject and is not in this model",
    "cacheconc: parking_lot mutexes (policies, timer wheel, LoadFuture) are not reported by the lock hook; their critical sections are separated by the named yield points only",
    "cacheconc: delivery of accepted notifications by the notifier thread (channel FIFO, exactly once) is the channel's contract (C01/C02), not modelled here; a full notification channel drops the notification (`sent = false`)",
    "cacheconc: current_cost is an unbounded integer in the model; the u64 the implementation reports is its value mod 2^64 (compared after every step)",
]


def theorems(prop=None):
    return THEOREMS if prop is None else THEOREMS_BY_PROP.get(prop, [])


def obligations(ctx, prop=None):
    """Lean obligations of the concurrent layer (all three lists unless `prop` narrows it)."""
    ctx.lean_obligations(MODULE, theorems(prop), extra_modules=EXTRA_MODULES)


def _filtered(prop, *argv):
    """harness command whose `!monitor` lines are restricted to the signatures that speak about `prop`
    (the other properties' monitors are evaluated by their own check); prop None keeps every monitor"""
    cmd = " ".join(shlex.quote(a) for a in argv)
    pre = SIG_PREFIXES.get(prop)
    if not pre:
        return ["sh", "-c", cmd]
    keep = "|".join("^!monitor " + p for p in pre)
    return ["sh", "-c", "%s | awk '!/^!monitor/ || /%s/'" % (cmd, keep)]


def tie(ctx, prop="ctx"):
    if prop == "ctx":
        prop = ctx.prop if ctx.prop in SIG_PREFIXES else None
    drv = ctx.lean_exe("fvdrv_cacheconc")
    h = ctx.cargo_build("cache", "conch")
    ctx.assumptions += [a for a in ASSUMPTIONS if a not in ctx.assumptions]
    ep = os.path.join(VERIF, "findings", "cacheconc.entries.json")
    if os.path.exists(ep):
        have = {f["signature"] for f in ctx.known}
        ctx.known += [f for f in json.load(open(ep)) if (prop is None or f["property"] == prop) and f["signature"] not in have]
    if ctx.replay:
        # only conch case files (header carries threads= and strategy=) are ours to replay
        head = [l for l in open(ctx.replay, errors="replace") if l.startswith("#case ")][:1]
        if head and "threads=" in head[0] and "strategy=" in head[0] and "shards=" in head[0]:
            ctx.tie("cacheconc-replay", _filtered(prop, h, "run", ctx.replay), [drv])
        return
    for w in WITNESSES:
        if os.path.exists(w):
            ctx.tie("cacheconc-known-" + os.path.basename(w)[:-5], _filtered(prop, h, "run", w), [drv])
    corpus = os.path.join(VERIF, "corpus", "cacheconc")
    if os.path.isdir(corpus):
        for f in sorted(os.listdir(corpus)):
            if f.endswith(".case"):
                ctx.tie("cacheconc-corpus-" + f[:-5], _filtered(prop, h, "run", os.path.join(corpus, f)), [drv])
    if ctx.quick:
        ctx.tie("cacheconc-schedules", _filtered(prop, h, "gen", "--seed", str(ctx.seed), "--cases", "1500", "--dfs", "1500"), [drv], timeout=600)
    else:
        ctx.tie("cacheconc-schedules", _filtered(prop, h, "gen", "--seed", str(ctx.seed), "--cases", "12000", "--dfs", "30000", "--tier", "thorough"), [drv], timeout=3000)


def run(ctx):
    """stand-alone use (`./check cacheconc` if registered): all obligations + the tie with every monitor"""
    obligations(ctx)
    tie(ctx, prop=None)
