"""C15 — loader single-flight. Model: lean/Fv/Cache/Loader.lean (CS-granularity small-step);
theorems: Fv.Props.C15; tie: T3 — the real fetch_with / loader-task code runs on real threads under a
baton scheduler installed through the cfg(excsn_fibre_verif) yield-point hook, every step is replayed
on the model (trace inclusion), monitors count loads per miss generation."""
import os
from vlib import VERIF

THEOREMS = [l.strip() for l in open(os.path.join(VERIF, "props", "C15.theorems")) if l.strip() and not l.startswith("#")]

def run(ctx):
    ctx.lean_obligations("Fv.Props.C15", THEOREMS)
    drv = ctx.lean_exe("fvdrv_loader")
    h = ctx.cargo_build("cache", "loaderh")
    ctx.assumptions += [
        "atomicity of each critical section (shard map lock, striped pending_loads mutex, LoadFuture mutex) is assumed: yield points are only between them",
        "async callers / async loader (handles/futures.rs) follow the same protocol but are not driven by this tie",
        "fairness: a runnable thread is eventually scheduled (liveness is proved in safety form: no quiescent state with an unreturned caller)",
    ]
    if ctx.replay:
        ctx.tie("replay", [h, "run", ctx.replay], [drv]); return
    ctx.tie("known-findings+corpus", [h, "run", os.path.join(VERIF, "findings", "C15_F10.case")], [drv])
    # async callers + async loader on real threads (no scheduler), slow Waker::clone, watchdog: monitors only
    ctx.tie("async-stress", [h, "gen", "--seed", str(ctx.seed), "--astress", "1500" if ctx.quick else "12000"], None, timeout=1800)
    if ctx.quick:
        t = ctx.tie("loader-schedules", [h, "gen", "--seed", str(ctx.seed), "--cases", "1500", "--dfs", "6000"], [drv])
        known = {f["signature"] for f in ctx.known}
        if t.mismatches and not any(sig not in known for _, sig, _ in t.monitor_fails):
            # the correspondence broke: search wider (monitors only) for a concrete failing history
            ctx.tie("search-after-correspondence-break", [h, "gen", "--seed", str(ctx.seed + 1000), "--cases", "12000", "--dfs", "60000"], None, timeout=900)
    else:
        # every case builds a cache whose janitor thread (tick 1 h) outlives it: a harness process leaks about one
        # OS thread per 5 cases, so the thorough run is split over several processes (one process with 20000 cases
        # ran into vm.max_map_count: "failed to set up alternative stack guard page")
        for k in range(8):
            ctx.tie("loader-schedules-%d" % k, [h, "gen", "--seed", str(ctx.seed + 1000 * k), "--cases", "2500", "--dfs", "0", "--tier", "thorough"], [drv], timeout=3000)
        for pi in range(4):
            ctx.tie("loader-schedules-dfs-%d" % pi, [h, "gen", "--seed", str(ctx.seed), "--cases", "0", "--dfs", "8000", "--dfs-only", str(pi), "--tier", "thorough"], [drv], timeout=3000)
