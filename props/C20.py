"""C20 — log encoders are total and lossless; file rolling never loses or tears records.
Models: lean/Fv/Log/{Text,Event,Json,Pattern,Roller}.lean; theorems: Fv.Props.C20;
tie: T2 differential of the real JsonLinesFormatter / PatternFormatter (public API) and the real
CustomRoller (hook fibre_logging::verif, injected clock, real files under /verif/.build/tmp) against the
Lean engine fvdrv_log, byte for byte / directory listing for directory listing."""
import os
from vlib import VERIF

THEOREMS = [l.strip() for l in open(os.path.join(VERIF, "props", "C20.theorems")) if l.strip() and not l.startswith("#")]

def run(ctx):
    ctx.lean_obligations("Fv.Props.C20", THEOREMS)
    drv = ctx.lean_exe("fvdrv_log")
    h = ctx.cargo_build("log", "logh")
    ctx.assumptions += [
        "chrono (timestamp rendering, strftime, parse_from_str), serde_json/ryu number formatting, Display for f64, regex and flate2 are trusted; "
        "their outputs enter the model as inputs (timestamp text, float renderings) or as the modelled contract (regex semantics, Unicode Nd table of regex-syntax 0.8.11, proleptic Gregorian calendar)",
        "file system: names -> record lists with atomic rename/remove/append (a record is appended in one piece: tearing is observable only by the Rust monitor, not in the model); I/O errors, partial writes, crashes, concurrent external modification and writes to an unlinked open file are not modelled",
        "time: seconds since the epoch, years 1970..=9999 (chrono prints +10000 for later years and the roller no longer recognises its own files); the injected clock never goes backwards",
        "u32 overflow of the roll sequence number (4 294 967 295 rolls within one period) is not modelled",
        "directory entries that compare equal under Ord for RolledFile (only reachable with foreign files / the F15 shared-prefix situation) are ordered by read_dir; the engine stops comparing listings of such a case after the tie",
    ]
    env = {"VERIF_TMP": os.path.join(VERIF, ".build", "tmp")}
    if ctx.replay:
        ctx.tie("replay", [h, "run", ctx.replay], [drv], env=env); return
    for f in ("C20_F13.case", "C20_F15.case", "C20_F17.case"):
        ctx.tie("known-findings:" + f, [h, "run", os.path.join(VERIF, "findings", f)], [drv], env=env)
    corpus = os.path.join(VERIF, "corpus", "log")
    if os.path.isdir(corpus):
        for f in sorted(os.listdir(corpus)):
            if f.endswith(".case"):
                ctx.tie("corpus:" + f, [h, "run", os.path.join(corpus, f)], [drv], env=env)
    n = 4500 if ctx.quick else 90000
    for kind in ("json", "pattern", "roller"):
        ctx.tie(kind + "-differential", [h, "gen", "--seed", str(ctx.seed), "--cases", str(n // 3), "--kind", kind], [drv], env=env)
