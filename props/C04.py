"""C04 — disconnect protocol: drain then Disconnected; Closed returns the value.
Point-to-point channels: model lean/Fv/Chan/*.lean, theorems Fv.Props.C04, ties through chanh/fvdrv_chan
(sequential differential over generated clone/close/drop/convert orders x all forms; linearizability of scheduled
concurrent histories; witnesses of the open findings F3 (conversions, mpmc/rendezvous async futures), F17).
Topic part: theorems Fv.Props.C04Topic on the topic model (props/C04_topic.theorems), witnesses replayed by topich."""
import json, os, sys
sys.path.insert(0, os.path.dirname(__file__))
import chanlib
from vlib import VERIF

THEOREMS = chanlib.names("C04")

def _topic(ctx):
    tf = os.path.join(VERIF, "props", "C04_topic.theorems")
    if not os.path.exists(tf) or not os.path.exists(os.path.join(VERIF, "lean", "Fv", "Props", "C04Topic.lean")):
        return
    names = [l.strip() for l in open(tf) if l.strip() and not l.startswith("#")]
    ctx.lean_obligations("Fv.Props.C04Topic", names)
    ef = os.path.join(VERIF, "findings", "C04_topic.entries.json")
    if os.path.exists(ef):
        have = {f["signature"] for f in ctx.known}
        for e in json.load(open(ef)):
            if e["property"] == "C04" and e["signature"] not in have:
                ctx.known.append(e)
    try:
        drv = ctx.lean_exe("fvdrv_topic")
        h = ctx.cargo_build("topic", "topich")
        ctx.tie("c04-topic-witnesses", [h, "run", os.path.join(VERIF, "findings", "C04_topic.case"), "--prop", "C04"], [drv])
    except Exception as e:  # the topic harness belongs to C08; its absence must not hide the channel verdict
        ctx.notes.append("topic part of C04 not run: %r" % (e,))

def run(ctx):
    chanlib.standard_run(ctx, "Fv.Props.C04", THEOREMS, [
        "C04_F3_conversion_resets_closed.case", "C04_F3_mpmc_async_futures_ignore_closed.case",
        "C04_F3_rdv_async_futures_ignore_closed.case", "C04_N1_mpmc_disconnected_before_drain.case",
        "C04_OBS_oneshot_recv_after_taken.case"])   # N6 (spsc close window) is fixed: corpus/chan/C04_N6_fixed_spsc_async_close_window.case
    if not ctx.replay:
        _topic(ctx)
    chanlib.layer_b(ctx, chanlib.LAYER_B_ALL)
