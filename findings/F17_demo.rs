//! F17 demonstration (public API only): bounded mpmc async receive left a dangling waiter record behind.
//!
//! A `RecvFuture` that is registered (polled to Pending, its record — a raw pointer to the future's inline
//! state byte — sits in `waiting_async_receivers`, state WAITING) and is polled again (spurious poll) while an
//! item meant for ANOTHER, woken future is queued took that item and returned Ready WITHOUT unlinking its
//! record; `Drop` did not unlink either (`is_registered` was cleared). The next send then CASes / wakes through
//! the freed future (use-after-free; SIGSEGV or a wake of the wrong task) and the other Pending receiver is not
//! woken although an item is queued.
//!
//! How to run (the file is kept outside the repo; copy it into the crate's integration tests for the run):
//!   cp F17_demo.rs <fibre>/channels/tests/f17_demo.rs
//!   (cd <fibre> && cargo test --offline -p fibre --test f17_demo -- --test-threads=1) ; rm <fibre>/channels/tests/f17_demo.rs
//! Before `fix: bounded mpmc async receive unlinks its own waiter record when a re-poll resolves it`:
//! `spurious_repoll_of_batch_future_does_not_swallow_the_next_wake` FAILS deterministically (the finished future is
//! woken through its stale record, left 1 right 0); `spurious_repoll_leaves_no_dangling_record` is the
//! use-after-free spelling: it fails or crashes only if the freed state byte still reads WAITING (allocator
//! dependent; it passed by luck on the reference machine). After the fix: both pass.
use fibre::mpmc;
use std::future::Future;
use std::sync::atomic::{AtomicUsize, Ordering};
use std::sync::Arc;
use std::task::{Context, Poll, Wake, Waker};

struct CountWaker(AtomicUsize);
impl Wake for CountWaker {
  fn wake(self: Arc<Self>) {
    self.0.fetch_add(1, Ordering::SeqCst);
  }
  fn wake_by_ref(self: &Arc<Self>) {
    self.0.fetch_add(1, Ordering::SeqCst);
  }
}
fn counting() -> (Arc<CountWaker>, Waker) {
  let c = Arc::new(CountWaker(AtomicUsize::new(0)));
  (c.clone(), Waker::from(c))
}

/// The witness program of findings/C06_F17 (now corpus/chan/C06_F17_fixed_mpmc2_spurious_repoll.case):
/// f0, f1 registered; `try_send 1` wakes f0; f1 (not woken) is polled spuriously and takes 1; f0 re-registers;
/// f1 is dropped (its memory is freed); `try_send 2` must wake f0. Before the fix the outcome depends on what the
/// freed state byte reads (use-after-free): WAITING -> the wake goes to the finished future and f0 stays asleep.
#[test]
fn spurious_repoll_leaves_no_dangling_record() {
  let (tx, rx) = mpmc::bounded_async::<u64>(2);
  let (c0, w0) = counting();
  let (c1, w1) = counting();
  let mut cx0 = Context::from_waker(&w0);
  let mut cx1 = Context::from_waker(&w1);

  let mut f0 = Box::pin(rx.recv());
  assert!(f0.as_mut().poll(&mut cx0).is_pending());
  let mut f1 = Box::pin(rx.recv());
  assert!(f1.as_mut().poll(&mut cx1).is_pending());

  tx.try_send(1).unwrap(); // wake-one: f0 (first registered)
  assert_eq!(c0.0.load(Ordering::SeqCst), 1, "f0 is the woken future");
  assert_eq!(c1.0.load(Ordering::SeqCst), 0);

  // spurious poll of f1 (still WAITING): it takes the item meant for f0 — admissible, but it must unlink itself
  assert_eq!(f1.as_mut().poll(&mut cx1), Poll::Ready(Ok(1)));
  drop(f1); // frees the future; before the fix its record stays queued, pointing into this freed box

  assert!(f0.as_mut().poll(&mut cx0).is_pending(), "item was stolen: f0 registers again");
  let before = c0.0.load(Ordering::SeqCst);
  tx.try_send(2).unwrap(); // before the fix: CAS + wake through f1's dangling record (UB)
  assert_eq!(
    c0.0.load(Ordering::SeqCst),
    before + 1,
    "the Pending receiver was not woken although an item is queued (stale record of the finished future consumed the wake)"
  );
  assert_eq!(c1.0.load(Ordering::SeqCst), 0, "the finished future must not be woken");
  assert_eq!(f0.as_mut().poll(&mut cx0), Poll::Ready(Ok(2)));
}

/// Same shape with the batch future (shares `poll_recv_batch_internal`), and a record kept alive long enough
/// to show the bookkeeping defect without relying on freed memory: f1 is NOT dropped, so its state byte still
/// reads WAITING and the stale record deterministically swallows the wake meant for f0.
#[test]
fn spurious_repoll_of_batch_future_does_not_swallow_the_next_wake() {
  let (tx, rx) = mpmc::bounded_async::<u64>(2);
  let (c0, w0) = counting();
  let (c1, w1) = counting();
  let mut cx0 = Context::from_waker(&w0);
  let mut cx1 = Context::from_waker(&w1);

  let mut f0 = Box::pin(rx.recv());
  assert!(f0.as_mut().poll(&mut cx0).is_pending());
  let mut f1 = Box::pin(rx.recv_batch(1));
  assert!(f1.as_mut().poll(&mut cx1).is_pending());

  tx.try_send(1).unwrap();
  assert_eq!(c0.0.load(Ordering::SeqCst), 1);
  assert_eq!(f1.as_mut().poll(&mut cx1), Poll::Ready(Ok(vec![1]))); // spurious poll steals
  assert!(f0.as_mut().poll(&mut cx0).is_pending());
  let before = c0.0.load(Ordering::SeqCst);
  tx.try_send(2).unwrap();
  assert_eq!(c1.0.load(Ordering::SeqCst), 0, "the finished batch future was woken through its stale record");
  assert_eq!(c0.0.load(Ordering::SeqCst), before + 1, "the Pending receiver was not woken");
  drop(f1);
  assert_eq!(f0.as_mut().poll(&mut cx0), Poll::Ready(Ok(2)));
}
