#!/usr/bin/env python3
"""Regenerates the machine-derived parts of DESIGN.md §12 (between the AUTOGEN markers):
claimed checks with theorem counts, known findings (open / fixed), seeded changes and which check
catches them. Run by the lead after merging findings / recording seeded results."""
import glob, json, os, re
H = os.path.dirname(os.path.abspath(__file__))
kf = json.load(open(os.path.join(H, "known_findings.json")))
man = json.load(open(os.path.join(H, "MANIFEST.json")))
out = []
out.append("### 12.3 Claimed checks (generated)\n")
out.append("| property | theorems audited | engine | what the tie runs |")
out.append("|---|---|---|---|")
for c in man["checks"]:
    p = c["property_id"]
    tf = os.path.join(H, "props", p + ".theorems")
    n = len([l for l in open(tf) if l.strip() and not l.startswith("#")]) if os.path.exists(tf) else 0
    out.append("| %s | %d (+ obligations pulled in from step-level models, see props/%s.py) | %s | %s |" % (p, n, p, c.get("engine", ""), c.get("technique", "")[:160]))
out.append("\nNot claimed: " + (", ".join("%s (%s)" % (x["property_id"], x["reason"]) for x in man.get("not_applicable", [])) or "none") + "\n")
out.append("### 12.4 Known findings on the unchanged tree (generated from known_findings.json)\n")
out.append("Open (each check prints `KNOWN-FINDING` for the ones its witnesses or generated runs reproduce; any other monitor signature is a VIOLATION):\n")
out.append("| property | signature | what fails | witness |")
out.append("|---|---|---|---|")
for f in sorted(kf["open"], key=lambda f: (f["property"], f["signature"])):
    out.append("| %s | `%s` | %s | %s |" % (f["property"], f["signature"], f.get("what", "").replace("|", "/").replace("\n", " ")[:420], f.get("witness", "")))
out.append("\nFixed by `fix:` commits in /repo (a fixed entry suppresses nothing; the witnesses stay in the corpus and must not fire):\n")
for f in kf["fixed"]:
    out.append("* " + f)
out.append("\n### 12.5 Seeded changes (generated from seeded/*/meta.json)\n")
out.append("Each was written by a sub-agent that saw only the property text and a scratch worktree, confirmed by the lead (suite passes, demo fails with / passes without), and run against the checks through `seeded/try.sh` (scratch worktree + `VERIF_REPO`, never /repo).\n")
out.append("| id | what it breaks / needs | result of the check |")
out.append("|---|---|---|")
for d in sorted(glob.glob(os.path.join(H, "seeded", "*", "meta.json"))):
    m = json.load(open(d))
    sid = os.path.basename(os.path.dirname(d))
    what = (str(m.get("what_breaks", "")) + " — needs: " + str(m.get("needs_to_manifest", "")))
    out.append("| %s | %s | %s |" % (sid, what.replace("|", "/").replace("\n", " ")[:520], (str(m.get("detected_by", "not yet run")) + (" — FINAL: " + m["final_run"] if m.get("final_run") else "")).replace("|", "/")[:640]))
text = "\n".join(out) + "\n"
p = os.path.join(H, "DESIGN.md")
s = open(p).read()
b, e = "<!-- AUTOGEN:BEGIN -->", "<!-- AUTOGEN:END -->"
if b in s:
    s = s[:s.index(b) + len(b)] + "\n" + text + s[s.index(e):]
else:
    s += "\n" + b + "\n" + text + e + "\n"
open(p, "w").write(s)
print("DESIGN.md status regenerated:", len(kf["open"]), "open findings,", len(kf["fixed"]), "fixed,", len(glob.glob(os.path.join(H, "seeded", "*", "meta.json"))), "seeded")
