//! T2 harness for C11/C12/C13/C16/C17: drives the real `fibre_cache::Cache` / `AsyncCache` through
//! the public API, one operation per transcript line, for the Lean engine `fvdrv_cache`, and
//! evaluates the properties themselves on the implementation's history (monitors, independent of
//! the Lean model).
//!
//! Determinism: identity `BuildHasher` (shard = key % shards), frozen virtual clock
//! (`fibre_cache::verif_clock`, process-global => cases run sequentially inside one process and
//! `gen` fans out to worker PROCESSES), janitor tick = 1 h (only explicit `run_maintenance`,
//! the opportunistic hook of sync `insert` when `mc=always`, and `maintenance_on_introspection`
//! run maintenance), recording wrapper around every shard's `CachePolicy` (public
//! `cache_policy_factory`), recording `EvictionListener` whose deliveries are awaited after each
//! call (the number of `try_send`s of a call is derived from metric deltas + the policy log).
//!
//! Waiting for expected notifications is bounded (`NOTIFY_WAIT`, then one unrelated probe removal: the
//! notification channel is FIFO with a single consumer, so a delivered probe proves that everything sent
//! earlier was delivered): a notification the metrics / policy log demand but that was never sent is reported
//! as `listener:removal-not-notified` and the case ends there.
//!
//! Contended async stream (C17): `stream_open b` / `stream_poll [n]` poll `AsyncCache::iter_stream_with_batch_size`
//! by hand with a counting waker, `hold_entry k` keeps a sync `cache.entry(k)` guard (Vacant or Occupied) alive so
//! that shard `k % shards` stays write-locked and the stream's refill future is parked at its `read_async().await`
//! (`pending`), `release_entry` drops the guard (`woke=` wake-ups the stream's waker received). While a guard is held
//! only these operations and `advance` are executed; any other operation drops the open stream.
use fibre_cache::error::ComputeResult;
use fibre_cache::policy::{AdmissionDecision, CachePolicy};
use fibre_cache::snapshot::CacheSnapshot;
use fibre_cache::{verif_clock, AsyncCache, Cache, CacheBuilder, Entry, EvictionListener, EvictionReason};
use std::collections::{BTreeMap, BTreeSet, HashMap, VecDeque};
use std::hash::{BuildHasher, Hasher};
use std::sync::atomic::{AtomicBool, AtomicU64, AtomicUsize, Ordering};
use std::sync::{Arc, Mutex};
use std::pin::Pin;
use std::task::{Context, Poll, Wake, Waker};
use std::time::{Duration, Instant};
use futures_core::Stream;
use vcommon::*;

/// how long a call's expected notifications are awaited before the notifier is probed with an
/// unrelated send (FIFO channel, one consumer: if the probe is delivered, everything sent before it was)
const NOTIFY_WAIT: Duration = Duration::from_millis(1200);
const NOTIFY_PROBE_WAIT: Duration = Duration::from_millis(800);

// ------------------------------------------------------------------ deterministic hasher
#[derive(Clone, Default)]
struct IdHash;
struct IdHasher(u64);
impl Hasher for IdHasher {
  fn write(&mut self, b: &[u8]) { for x in b { self.0 = (self.0 << 8) | *x as u64; } }
  fn write_u64(&mut self, x: u64) { self.0 = x; }
  fn write_usize(&mut self, x: usize) { self.0 = x as u64; }
  fn finish(&self) -> u64 { self.0 }
}
impl BuildHasher for IdHash {
  type Hasher = IdHasher;
  fn build_hasher(&self) -> IdHasher { IdHasher(0) }
}

type C = Cache<u64, u64, IdHash>;
type AC = AsyncCache<u64, u64, IdHash>;

// ------------------------------------------------------------------ recording policy wrapper
struct RecPolicy { inner: Box<dyn CachePolicy<u64, u64>>, shard: usize, log: Arc<Mutex<Vec<String>>> }
impl CachePolicy<u64, u64> for RecPolicy {
  fn on_access(&self, k: &u64, c: u64) { self.inner.on_access(k, c); self.log.lock().unwrap().push(format!("ac:{}:{}:{}", self.shard, k, c)); }
  fn uses_access_events(&self) -> bool { self.inner.uses_access_events() }
  fn on_admit(&self, k: &u64, c: u64) -> AdmissionDecision<u64> {
    let d = self.inner.on_admit(k, c);
    let s = match &d { AdmissionDecision::Admit => "admit".to_string(), AdmissionDecision::Reject => "reject".to_string(), AdmissionDecision::AdmitAndEvict(v) => format!("ev{}", list(v)) };
    self.log.lock().unwrap().push(format!("ad:{}:{}:{}:{}", self.shard, k, c, s));
    d
  }
  fn on_remove(&self, k: &u64) { self.inner.on_remove(k); self.log.lock().unwrap().push(format!("rm:{}:{}", self.shard, k)); }
  fn evict(&self, n: u64) -> (Vec<u64>, u64) {
    let (v, f) = self.inner.evict(n);
    self.log.lock().unwrap().push(format!("ev:{}:{}:{}:{}", self.shard, n, list(&v), f));
    (v, f)
  }
  fn clear(&self) { self.inner.clear(); self.log.lock().unwrap().push(format!("cl:{}", self.shard)); }
}

fn mk_policy(name: &str, cap: u64) -> Box<dyn CachePolicy<u64, u64>> {
  use fibre_cache::policy::*;
  match name {
    "lru" => Box::new(lru::LruPolicy::<u64>::new()),
    "fifo" => Box::new(fifo::Fifo::<u64>::new()),
    "sieve" => Box::new(sieve::SievePolicy::<u64>::new()),
    "clock" => Box::new(clock::ClockPolicy::<u64>::new()),
    "random" => Box::new(random::RandomPolicy::<u64>::new()),
    "slru" => Box::new(slru::SlruPolicy::<u64>::new(cap)),
    "arc" => Box::new(arc::ArcPolicy::<u64>::new(cap as usize)),
    "tinylfu" => Box::new(tinylfu::TinyLfuPolicy::<u64>::new(cap)),
    "null" => Box::new(null::NullPolicy),
    _ => panic!("unknown policy {name}"),
  }
}

// ------------------------------------------------------------------ recording listener
#[derive(Default)]
struct Lis { events: Mutex<Vec<(u64, u64, char)>>, cv: std::sync::Condvar, count: AtomicUsize, gate_closed: AtomicBool, in_flight: AtomicBool }
struct RecListener(Arc<Lis>);
impl EvictionListener<u64, u64> for RecListener {
  fn on_evict(&self, key: u64, value: Arc<u64>, reason: EvictionReason) {
    let vid = *value;
    drop(value);
    if self.0.gate_closed.load(Ordering::SeqCst) {
      self.0.in_flight.store(true, Ordering::SeqCst);
      while self.0.gate_closed.load(Ordering::SeqCst) { std::thread::sleep(Duration::from_micros(50)); }
      self.0.in_flight.store(false, Ordering::SeqCst);
    }
    let r = match reason { EvictionReason::Capacity => 'C', EvictionReason::Expired => 'E', EvictionReason::Invalidated => 'I' };
    let mut g = self.0.events.lock().unwrap();
    g.push((key, vid, r));
    self.0.count.fetch_add(1, Ordering::SeqCst);
    drop(g);
    self.0.cv.notify_all();
  }
}

// ------------------------------------------------------------------ hand-polled stream, kept entry guard
/// waker that only counts (the harness polls by hand)
struct CountWaker(AtomicUsize);
impl Wake for CountWaker {
  fn wake(self: Arc<Self>) { self.0.fetch_add(1, Ordering::SeqCst); }
  fn wake_by_ref(self: &Arc<Self>) { self.0.fetch_add(1, Ordering::SeqCst); }
}
/// `ac.iter_stream_with_batch_size(b)` polled one `poll_next` at a time
struct StreamH { st: Pin<Box<dyn Stream<Item = (u64, Arc<u64>)>>>, batch: usize, out: Vec<(u64, u64, u64)>, live0: BTreeMap<u64, u64>, advanced: bool, ended: bool, checked: usize,
  wk: Arc<CountWaker>, pendings: usize }
/// a sync `cache.entry(k)` (Vacant or Occupied) kept alive: the shard's write lock stays held.
/// `g` borrows the boxed handle `_c` (stable address); fields drop in declaration order, `g` first.
struct HeldGuard { g: Option<Entry<'static, u64, u64, IdHash>>, _c: Box<C> }

struct ThreadSpawner;
impl fibre_cache::TaskSpawner for ThreadSpawner {
  fn spawn(&self, future: std::pin::Pin<Box<dyn std::future::Future<Output = ()> + Send>>) { std::thread::spawn(move || futures_executor::block_on(future)); }
}

// ------------------------------------------------------------------ configuration
#[derive(Clone, Debug)]
struct Cfg { policy: String, pcap: u64, cap: Option<u64>, shards: usize, ttl: Option<u64>, tti: Option<u64>, swr: Option<u64>,
  wheel: usize, tick: u64, mc_always: bool, moi: bool, lis: bool, t0: u64, nkeys: u64, async_loader: bool }
fn opt(x: Option<u64>) -> String { x.map(|v| v.to_string()).unwrap_or_else(|| "-".into()) }
impl Cfg {
  fn header(&self) -> String {
    format!("policy={} pcap={} cap={} shards={} ttl={} tti={} swr={} wheel={} tick={} mc={} moi={} lis={} t0={} nkeys={} ld={}",
      self.policy, self.pcap, self.cap.map(|c| c.to_string()).unwrap_or_else(|| "inf".into()), self.shards, opt(self.ttl), opt(self.tti), opt(self.swr),
      self.wheel, self.tick, if self.mc_always { "always" } else { "never" }, self.moi as u8, self.lis as u8, self.t0, self.nkeys, if self.async_loader { "a" } else { "s" })
  }
  fn parse(h: &[String]) -> Cfg {
    let o = |k: &str| kv(h, k).and_then(|s| s.parse::<u64>().ok());
    let cap = match kv(h, "cap") { Some("inf") | None => None, Some(s) => s.parse().ok() };
    let shards = o("shards").unwrap_or(1) as usize;
    Cfg { policy: kv(h, "policy").unwrap_or("null").to_string(),
      pcap: o("pcap").unwrap_or_else(|| cap.map(|c| (c + shards as u64 - 1) / shards as u64).unwrap_or(0)),
      cap, shards, ttl: o("ttl"), tti: o("tti"), swr: o("swr"), wheel: o("wheel").unwrap_or(60) as usize, tick: o("tick").unwrap_or(1000),
      mc_always: kv(h, "mc") == Some("always"), moi: kv(h, "moi") == Some("1"), lis: kv(h, "lis") == Some("1"), t0: o("t0").unwrap_or(1_000_000), nkeys: o("nkeys").unwrap_or(12), async_loader: kv(h, "ld") == Some("a") }
  }
}

struct Env { plog: Mutex<Arc<Mutex<Vec<String>>>>, script: Arc<Mutex<HashMap<u64, (u64, u64)>>>, loads: Arc<AtomicU64> }

fn build(cfg: &Cfg, env: &Env, snap: Option<CacheSnapshot<u64, u64>>) -> (C, Arc<Lis>) {
  let ms = Duration::from_millis;
  let mut b = CacheBuilder::<u64, u64, IdHash>::new().hasher(IdHash).shards(cfg.shards)
    .janitor_tick_interval(Duration::from_secs(3600))
    .maintenance_chance(if cfg.mc_always { 1 } else { 1 << 31 })
    .maintenance_on_introspection(cfg.moi)
    .timer_wheel_size(cfg.wheel).timer_tick_duration(ms(cfg.tick));
  b = match cfg.cap { Some(c) => b.capacity(c), None => b.unbounded() };
  if let Some(t) = cfg.ttl { b = b.time_to_live(ms(t)); }
  if let Some(t) = cfg.tti { b = b.time_to_idle(ms(t)); }
  let (script, loads) = (env.script.clone(), env.loads.clone());
  if cfg.async_loader {
    // Loader::Async + a TaskSpawner that runs each spawned future to completion on its own thread
    b = b.async_loader(move |k: u64| { let (script, loads) = (script.clone(), loads.clone());
      async move { loads.fetch_add(1, Ordering::SeqCst); script.lock().unwrap().get(&k).copied().unwrap_or((u64::MAX - k, 1)) } }).spawner(Arc::new(ThreadSpawner));
  } else {
    b = b.loader(move |k: u64| { loads.fetch_add(1, Ordering::SeqCst); script.lock().unwrap().get(&k).copied().unwrap_or((u64::MAX - k, 1)) });
  }
  if let Some(t) = cfg.swr { b = b.stale_while_revalidate(ms(t)); }
  let lis = Arc::new(Lis::default());
  if cfg.lis { b = b.eviction_listener(RecListener(lis.clone())); }
  // a fresh log per built cache: the janitor thread of a dropped cache runs one last cleanup on its own policies
  let fresh_log: Arc<Mutex<Vec<String>>> = Arc::new(Mutex::new(vec![]));
  *env.plog.lock().unwrap() = fresh_log.clone();
  let (name, pcap, log, ctr) = (cfg.policy.clone(), cfg.pcap, fresh_log, Arc::new(AtomicUsize::new(0)));
  b = b.cache_policy_factory(move || {
    let shard = ctr.fetch_add(1, Ordering::SeqCst);
    Box::new(RecPolicy { inner: mk_policy(&name, pcap), shard, log: log.clone() })
  });
  let c = match snap { Some(s) => b.build_from_snapshot(s), None => b.build() }.expect("build");
  (c, lis)
}

// ------------------------------------------------------------------ shadow (reference bookkeeping for the monitors)
#[derive(Clone, Debug)]
struct Binding { vid: u64, cost: u64, exp: Option<u64>, last_access: u64, origin: &'static str,
  /// (advance index at which the TTL timer scheduled for this binding fires)
  timer_due: Option<u64>,
  /// write event reached the shard policy / was dropped by the full buffer / never sent
  admitted: bool, dropped_event: bool }
#[derive(Clone, Debug)]
struct Removal { k: u64, vid: u64, class: char, unexpired: bool, own: bool }
#[derive(Clone, Copy, PartialEq, Debug)]
enum End { Overwritten, Removed, Cleared }
struct Shadow {
  latest: BTreeMap<u64, Binding>,
  /// every value id ever written: key, how its binding ended
  vids: HashMap<u64, (u64, Option<End>)>,
  /// per key: how earlier bindings that had a live timer ended without the timer being cancelled
  stale_timers: BTreeMap<u64, Vec<(u64, &'static str)>>,
  pending: Vec<VecDeque<(u64, u64)>>, overflowed: bool, adv: Vec<u64>, notified: BTreeSet<u64>,
  cap_pass_mismatch: bool, restored: bool,
}

struct Runner { cfg: Cfg, env: Env, c: C, ac: AC, lis: Arc<Lis>, lis_seen: usize, gate_sends: usize, sh: Shadow, tr: Tr, now: u64,
  held: Vec<Arc<u64>>, snap_bytes: Option<Vec<u8>>, fails: Vec<(String, String)>, nkeys: u64, spurious: bool, case_id: String,
  occupied_before: BTreeMap<u64, bool>, expected_loads: u64, gate_pending: Vec<Removal>, abandoned: Option<&'static str>,
  /// the open hand-polled stream / the kept entry guard (declared after `c`/`ac`: both own their cache handle)
  stream: Option<StreamH>, guard: Option<HeldGuard>,
  /// a monitor failure after which the rest of the case cannot be run meaningfully (the transcript ends here)
  stop: bool, last_attempt: bool }

fn bo<F: std::future::Future>(f: F) -> F::Output { futures_executor::block_on(f) }
fn show_opt(v: Option<u64>) -> String { v.map(|x| format!("some:{x}")).unwrap_or_else(|| "none".into()) }
fn show_pairs(mut v: Vec<(u64, u64)>) -> String { v.sort(); format!("[{}]", v.iter().map(|(k, x)| format!("{k}:{x}")).collect::<Vec<_>>().join(",")) }
fn nats(s: &str) -> Vec<u64> { s.trim_matches(|c| c == '[' || c == ']').split(',').filter_map(|x| x.parse().ok()).collect() }

impl Runner {
  fn new(id: &str, cfg: Cfg) -> Runner {
    let nkeys = cfg.nkeys;
    verif_clock::freeze_at(cfg.t0 * 1_000_000);
    let env = Env { plog: Mutex::new(Arc::new(Mutex::new(vec![]))), script: Arc::new(Mutex::new(HashMap::new())), loads: Arc::new(AtomicU64::new(0)) };
    let (c, lis) = build(&cfg, &env, None);
    let ac = c.to_async();
    let sh = Shadow { latest: BTreeMap::new(), vids: HashMap::new(), stale_timers: BTreeMap::new(), pending: vec![VecDeque::new(); cfg.shards], overflowed: false,
      adv: vec![0; cfg.shards], notified: BTreeSet::new(), cap_pass_mismatch: false, restored: false };
    let tr = Tr::new(id, &cfg.header());
    Runner { now: cfg.t0, cfg, env, c, ac, lis, lis_seen: 0, gate_sends: 0, sh, tr, held: vec![], snap_bytes: None, fails: vec![], nkeys, spurious: false, case_id: id.to_string(), occupied_before: BTreeMap::new(), expected_loads: 0, gate_pending: vec![], abandoned: None, stream: None, guard: None, stop: false, last_attempt: false }
  }
  fn fail(&mut self, sig: &str, msg: String) { if !self.fails.iter().any(|f| f.0 == sig) { self.fails.push((sig.to_string(), msg)); } }
  fn shard(&self, k: u64) -> usize { (k % self.cfg.shards as u64) as usize }
  fn occupied(&self, k: u64) -> bool { matches!(self.c.entry(k), Entry::Occupied(_)) }
  fn has_wheel(&self) -> bool { self.cfg.ttl.is_some() || self.cfg.tti.is_some() }
  fn ticks(&self, dur: u64) -> u64 { (2 * dur + self.cfg.tick) / (2 * self.cfg.tick) }
  fn expired_ref(&self, b: &Binding) -> Option<&'static str> {
    if let Some(e) = b.exp { if self.now >= e { return Some("ttl"); } }
    if let Some(t) = self.cfg.tti { if self.now >= b.last_access + t { return Some("tti"); } }
    None
  }

  // ---- shadow updates
  fn end_binding(&mut self, k: u64, how: End, cancels_timer: bool, why: &'static str) {
    if let Some(b) = self.sh.latest.remove(&k) {
      self.sh.vids.insert(b.vid, (k, Some(how)));
      if let (Some(due), false) = (b.timer_due, cancels_timer) { self.sh.stale_timers.entry(k).or_default().push((due, why)); }
    }
  }
  /// a write of `k`: `timer` = Some(duration) when this path schedules a TTL timer; `cancels` = the path cancels the replaced entry's timer
  fn write(&mut self, k: u64, vid: u64, cost: u64, ttl: Option<u64>, origin: &'static str, timer: Option<u64>, cancels: bool, event: bool) {
    let resident = self.occupied_before.get(&k).copied().unwrap_or(false);
    if self.sh.latest.contains_key(&k) {
      // the timer of the replaced binding is cancelled only if that binding was still in the map
      self.end_binding(k, End::Overwritten, cancels && resident, origin);
    }
    let sh = self.shard(k);
    let timer_due = if self.has_wheel() { timer.map(|d| self.sh.adv[sh] + self.ticks(d)) } else { None };
    let mut b = Binding { vid, cost, exp: ttl.map(|t| self.now + t), last_access: self.now, origin, timer_due, admitted: false, dropped_event: false };
    if event {
      if self.sh.pending[sh].len() < 512 { self.sh.pending[sh].push_back((k, vid)); } else { b.dropped_event = true; self.sh.overflowed = true; }
    }
    self.sh.vids.insert(vid, (k, None));
    self.sh.latest.insert(k, b);
  }
  /// C11 + C12 on a value handed to the caller
  fn read(&mut self, api: &str, k: u64, got: Option<u64>, refreshes: bool, stale_ok: bool) {
    match got {
      Some(v) => {
        let cur = self.sh.latest.get(&k).cloned();
        match cur {
          Some(b) if b.vid == v => {
            if let Some(why) = self.expired_ref(&b) {
              let in_grace = why == "ttl" && stale_ok && self.cfg.swr.map_or(false, |g| self.now < b.exp.unwrap() + g)
                && self.cfg.tti.map_or(true, |t| self.now < b.last_access + t);
              if !in_grace {
                let sig = match api { "or_insert" => "entry:or_insert-returns-expired-value".to_string(),
                  "compute" | "try_compute" => "compute:try_compute_val-operates-on-expired-entry".to_string(),
                  "fetch_with" if why == "tti" || (stale_ok && self.cfg.swr.map_or(false, |g| self.now < b.exp.unwrap_or(0) + g)) => "fetch_with:stale-branch-serves-idle-expired-value".to_string(),
                  a => format!("{a}:returns-expired-value-{why}") };
                self.fail(&sig, format!("{api}({k}) at t={} returned value {v} whose {why} deadline passed (expires {:?}, last refreshing access {})", self.now, b.exp, b.last_access));
              }
            } else if refreshes && self.cfg.tti.is_some() { self.sh.latest.get_mut(&k).unwrap().last_access = self.now; }
          }
          _ => {
            let (sig, msg) = match self.sh.vids.get(&v) {
              None => (format!("{api}:returns-value-never-written"), format!("{api}({k}) returned {v} which no write produced")),
              Some((k2, _)) if *k2 != k => (format!("{api}:returns-another-keys-value"), format!("{api}({k}) returned {v}, a value of key {k2}")),
              Some((_, Some(End::Overwritten))) => (format!("{api}:returns-overwritten-value"), format!("{api}({k}) returned {v} after a later write of {k} completed")),
              Some((_, Some(_))) => (format!("{api}:returns-removed-value"), format!("{api}({k}) returned {v} after remove/invalidate/clear of {k} completed")),
              Some((_, None)) => (format!("{api}:returns-stale-binding"), format!("{api}({k}) returned {v}, not the latest write")),
            };
            self.fail(&sig, msg);
          }
        }
      }
      None => {}
    }
  }

  // ---- the operation loop
  fn exec(&mut self, op: &str) {
    let t: Vec<&str> = op.split_whitespace().collect();
    if t.is_empty() { return; }
    let (name, asy) = match t[0].strip_prefix("a.") { Some(n) => (n, true), None => (t[0], false) };
    let n = |i: usize| -> u64 { t.get(i).and_then(|s| s.parse().ok()).unwrap_or(0) };
    // ---- hand-polled stream / kept entry guard: nothing here may touch a shard lock (no passive observation)
    if matches!(name, "hold_entry" | "release_entry" | "stream_poll") || (name == "advance" && self.guard.is_some()) { self.exec_stream(op, name, &t); return; }
    // every other call would block on the held shard lock (or, with several shards, might): not executed
    if self.guard.is_some() { self.tr.raw(&format!("# skipped, an entry guard is held: {op}")); return; }
    // every call other than a clock advance drops the open stream
    if name != "advance" { self.close_stream(); } else if let Some(s) = self.stream.as_mut() { s.advanced = true; }
    // passive observations before the call
    self.occupied_before = (0..self.nkeys).map(|k| (k, self.occupied(k))).collect();
    let passive = !self.cfg.moi;
    let m0 = if passive { Some(self.c.metrics()) } else { None };
    self.env.plog.lock().unwrap().lock().unwrap().clear();
    let mut order_probe: Option<String> = None;
    let mut own_removed: Vec<(u64, u64)> = vec![]; // bindings removed by this call on request (Invalidated expected)
    let mut silent: Vec<(u64, Binding)> = vec![]; // remove/invalidate found "nothing" although the key was resident
    let mut enumerated: Option<(&'static str, Vec<(u64, u64, u64)>, BTreeMap<u64, u64>, bool)> = None;
    let mut cleared = false;
    let res: String = match name {
      "get" | "fetch" => {
        let k = n(1);
        let r = match (name, asy) { ("get", false) => self.c.get(&k, |v| *v), ("get", true) => bo(self.ac.get(&k, |v| *v)),
          (_, false) => self.c.fetch(&k).map(|a| *a), (_, true) => bo(self.ac.fetch(&k)).map(|a| *a) };
        self.read(name, k, r, true, false);
        show_opt(r)
      }
      "peek" => { let k = n(1); let r = if asy { bo(self.ac.peek(&k)).map(|a| *a) } else { self.c.peek(&k).map(|a| *a) }; self.read("peek", k, r, false, false); show_opt(r) }
      "occ" => { (self.occupied(n(1)) as u8).to_string() }
      "insert" => {
        let (k, v, c) = (n(1), n(2), n(3));
        if asy { bo(self.ac.insert(k, v, c)) } else { self.c.insert(k, v, c) }
        self.write(k, v, c, self.cfg.ttl, "insert", self.cfg.ttl, true, true);
        "-".into()
      }
      "insert_ttl" => {
        let (k, v, c, ttl) = (n(1), n(2), n(3), n(4));
        if asy { bo(self.ac.insert_with_ttl(k, v, c, Duration::from_millis(ttl))) } else { self.c.insert_with_ttl(k, v, c, Duration::from_millis(ttl)) }
        self.write(k, v, c, Some(ttl), "insert_ttl", Some(ttl), true, true);
        "-".into()
      }
      "remove" => {
        let k = n(1);
        let r = if asy { bo(self.ac.remove(&k)).map(|a| *a) } else { self.c.remove(&k).map(|a| *a) };
        // remove hands the stored value to the caller, expired or not: only the register clause applies
        if let Some(v) = r { if self.sh.latest.get(&k).map(|b| b.vid) != Some(v) { self.read("remove", k, r, false, true); } own_removed.push((k, v)); }
        else if self.occupied_before.get(&k).copied().unwrap_or(false) { if let Some(b) = self.sh.latest.get(&k).cloned() { silent.push((k, b)); } }
        self.end_binding(k, End::Removed, true, "remove");
        show_opt(r)
      }
      "invalidate" => {
        let k = n(1);
        let r = if asy { bo(self.ac.invalidate(&k)) } else { self.c.invalidate(&k) };
        if r { if let Some(b) = self.sh.latest.get(&k) { own_removed.push((k, b.vid)); } else { self.fail("invalidate:reports-removal-of-absent-binding", format!("invalidate({k}) returned true, no live write of {k}")); } }
        else if self.occupied_before.get(&k).copied().unwrap_or(false) { if let Some(b) = self.sh.latest.get(&k).cloned() { silent.push((k, b)); } }
        self.end_binding(k, End::Removed, true, "invalidate");
        (r as u8).to_string()
      }
      "clear" => {
        if asy { bo(self.ac.clear()) } else { self.c.clear() }
        cleared = true;
        let keys: Vec<u64> = self.sh.latest.keys().copied().collect();
        for k in keys { self.end_binding(k, End::Cleared, false, "clear"); }
        "-".into()
      }
      "advance" => { let d = n(1); verif_clock::advance(d * 1_000_000); self.now += d; "-".into() }
      "maint" => { if asy { bo(self.ac.run_maintenance()) } else { self.c.run_maintenance() } "-".into() }
      "metrics" | "cost" => {
        let m = if asy { self.ac.metrics() } else { self.c.metrics() };
        if name == "cost" { m.current_cost.to_string() } else {
          format!("{},{},{},{},{},{},{},{},{},{},{}", m.hits, m.misses, m.inserts, m.updates, m.invalidations, m.evicted_by_capacity, m.evicted_by_ttl, m.evicted_by_tti, m.keys_admitted, m.current_cost, m.total_cost_added) }
      }
      "or_insert" => {
        let (k, v, c) = (n(1), n(2), n(3));
        let r = if asy { *bo(self.ac.entry(k)).or_insert(v, c) } else if v % 2 == 0 { *self.c.entry(k).or_insert(v, c) } else { *self.c.entry(k).or_insert_with(|| v, c) };
        if r == v { self.write(k, v, c, self.cfg.ttl, "entry", None, false, true); } else { self.read("or_insert", k, Some(r), false, false); }
        show_opt(Some(r))
      }
      "compute" | "try_compute" => {
        let (k, v) = (n(1), n(2));
        let f = |x: &mut u64| { let old = *x; *x = v; old };
        let r = if name == "compute" && self.held.is_empty() { if asy { bo(self.ac.compute_val(&k, f)) } else { self.c.compute_val(&k, f) } }
          else if asy { bo(self.ac.try_compute_val(&k, f)) } else { self.c.try_compute_val(&k, f) };
        match r {
          ComputeResult::Ok(old) => {
            self.read(name, k, Some(old), false, false);
            if let Some(b) = self.sh.latest.get_mut(&k) { if b.vid == old { self.sh.vids.insert(old, (k, Some(End::Overwritten))); b.vid = v; self.sh.vids.insert(v, (k, None)); } }
            format!("ok:{old}")
          }
          ComputeResult::Fail => "fail".into(),
          ComputeResult::NotFound => "notfound".into(),
        }
      }
      "fetch_with" => {
        let (k, v, c) = (n(1), n(2), n(3));
        self.env.script.lock().unwrap().insert(k, (v, c));
        let l0 = self.env.loads.load(Ordering::SeqCst);
        if l0 != self.expected_loads { self.fail("fetch_with:loader-invoked-without-a-miss-or-stale-hit", format!("loader ran {l0} times, the history explains {}", self.expected_loads)); self.expected_loads = l0; }
        let ins0 = if passive { self.c.metrics().inserts } else { 0 };
        let r = if asy { *bo(self.ac.fetch_with(&k)) } else { *self.c.fetch_with(&k) };
        // a stale hit spawns the refresh in the background: wait until it has run to completion
        let stale_expected = r != v && self.sh.latest.get(&k).map_or(false, |b| b.vid == r && b.exp.map_or(false, |e| self.now >= e));
        if stale_expected {
          let t0 = Instant::now();
          while self.env.loads.load(Ordering::SeqCst) == l0 && t0.elapsed() < Duration::from_secs(20) { std::thread::sleep(Duration::from_micros(20)); }
          // the refreshed entry is fresh, so `peek` (no side effect) shows it as soon as it is in the map
          while self.c.peek(&k).map(|a| *a) != Some(v) && t0.elapsed() < Duration::from_secs(20) { std::thread::sleep(Duration::from_micros(20)); }
          let _ = ins0;
        }
        // the loader thread keeps an `Arc` to the loaded value (inside its LoadFuture) until it exits:
        // wait until the map's and ours are the only ones (peek has no side effect)
        if self.env.loads.load(Ordering::SeqCst) > l0 {
          let t0 = Instant::now();
          loop { match self.c.peek(&k) { Some(a) if Arc::strong_count(&a) > 2 + self.held.iter().filter(|h| Arc::ptr_eq(h, &a)).count() && t0.elapsed() < Duration::from_secs(20) => std::thread::sleep(Duration::from_micros(20)), _ => break } }
        }
        let loads = self.env.loads.load(Ordering::SeqCst) - l0;
        self.expected_loads = l0 + loads;
        if loads > 1 { self.fail("fetch_with:loader-invoked-more-than-once-for-one-call", format!("fetch_with({k}) ran the loader {loads} times")); }
        let loader = loads > 0;
        let stale = loader && r != v;
        if stale_expected && !loader { self.fail("fetch_with:stale-hit-without-refresh", format!("fetch_with({k}) served stale {r} and no refresh ran")); }
        if r == v { self.write(k, v, c, self.cfg.ttl, "loader", None, false, true); }
        else { self.read("fetch_with", k, Some(r), !stale, true);
          if stale { self.write(k, v, c, self.cfg.ttl, "loader", None, false, true); } }
        format!("{r} stale={} loader={}", stale as u8, loader as u8)
      }
      "multiget" => {
        let ks = nats(t.get(1).unwrap_or(&""));
        let m: Vec<(u64, u64)> = if asy { bo(self.ac.multiget::<_, u64>(ks.clone())).into_iter().map(|(k, v)| (k, *v)).collect() }
          else { self.c.multiget::<_, u64>(ks.clone()).into_iter().map(|(k, v)| (k, *v)).collect() };
        for (k, v) in &m { self.read("multiget", *k, Some(*v), true, false); }
        show_pairs(m)
      }
      "multi_insert" => {
        let items: Vec<(u64, u64, u64)> = t.get(1).unwrap_or(&"").split(',').filter_map(|x| { let p: Vec<u64> = x.split(':').filter_map(|y| y.parse().ok()).collect(); if p.len() == 3 { Some((p[0], p[1], p[2])) } else { None } }).collect();
        if asy { bo(self.ac.multi_insert(items.clone())) } else { self.c.multi_insert(items.clone()) }
        for (k, v, c) in items { self.write(k, v, c, self.cfg.ttl, "multi_insert", self.cfg.ttl, true, true); self.occupied_before.insert(k, true); }
        "-".into()
      }
      "multi_remove" | "multi_invalidate" => {
        let ks = nats(t.get(1).unwrap_or(&""));
        let r: Vec<(u64, u64)> = if name == "multi_invalidate" { if asy { bo(self.ac.multi_invalidate(ks.clone())) } else { self.c.multi_invalidate(ks.clone()) } vec![] }
          else if asy { bo(self.ac.multi_remove(ks.clone())).into_iter().map(|(k, v)| (k, *v)).collect() } else { self.c.multi_remove(ks.clone()).into_iter().map(|(k, v)| (k, *v)).collect() };
        for k in &ks { if self.occupied_before.get(k).copied().unwrap_or(false) { if let Some(b) = self.sh.latest.get(k) { own_removed.push((*k, b.vid)); } } self.end_binding(*k, End::Removed, true, "multi_remove"); }
        for (k, v) in &r { if !own_removed.iter().any(|x| x == &(*k, *v)) { self.fail("multi_remove:returns-binding-that-was-not-live", format!("multi_remove returned {k}:{v}")); } }
        if name == "multi_invalidate" { "-".into() } else { show_pairs(r) }
      }
      "iter" | "iter_snapshot" => {
        let inter: Option<(usize, u64)> = t.get(if name == "iter" { 2 } else { 1 }).and_then(|s| { let p: Vec<u64> = s.split(':').filter_map(|x| x.parse().ok()).collect(); if p.len() == 2 { Some((p[0] as usize, p[1])) } else { None } });
        if inter.is_some() { order_probe = Some(self.probe_order()); }
        let batch = n(1) as usize;
        let mut out: Vec<(u64, u64, u64)> = vec![]; // key, value, time of the next() call that yielded it
        let mut fired = false;
        let mut tick = |me: &mut Runner, len: usize| { if let Some((after, d)) = inter { if !fired && len == after { fired = true; verif_clock::advance(d * 1_000_000); me.now += d; } } };
        // the live set the property speaks about, at the start of the call
        let live0: BTreeMap<u64, u64> = self.live_set();
        let snapshot_iter = name == "iter_snapshot";
        let mut yielded = |me: &mut Runner, out: &mut Vec<(u64, u64, u64)>, k: u64, v: u64| {
          out.push((k, v, me.now));
          // SnapshotIter looks every key up with `fetch`: a hit refreshes the idle clock
          if snapshot_iter && me.cfg.tti.is_some() { if let Some(b) = me.sh.latest.get_mut(&k) { if b.vid == v { b.last_access = me.now; } } } };
        if name == "iter" {
          if asy {
            let st = if batch == 64 { self.ac.iter_stream() } else { self.ac.iter_stream_with_batch_size(batch) };
            let mut it = futures_executor::block_on_stream(st);
            loop { tick(self, out.len()); match it.next() { Some((k, v)) => yielded(self, &mut out, k, *v), None => break } }
          } else {
            let c = self.c.clone();
            let mut it = if batch == 64 { c.iter() } else { c.iter_with_batch_size(batch) };
            loop { tick(self, out.len()); match it.next() { Some((k, v)) => yielded(self, &mut out, k, *v), None => break } }
          }
        } else if asy {
          let ac = self.ac.clone();
          let mut it = ac.iter_snapshot_async();
          loop { tick(self, out.len()); match bo(it.next()) { Some((k, v)) => yielded(self, &mut out, k, *v), None => break } }
        } else {
          let c = self.c.clone();
          let mut it = c.iter_snapshot();
          loop { tick(self, out.len()); match it.next() { Some((k, v)) => yielded(self, &mut out, k, *v), None => break } }
        }
        let shown = show_pairs(out.iter().map(|x| (x.0, x.1)).collect());
        enumerated = Some((if name == "iter" { "iter" } else { "iter_snapshot" }, out, live0, inter.is_some()));
        shown
      }
      "snapshot" => {
        let live0 = self.live_set();
        let snap = if asy { bo(self.ac.to_snapshot()) } else { self.c.to_snapshot() };
        // the real serialisation round trip (bincode: compact, not self-describing), judged without any
        // knowledge of the byte layout: the Debug rendering of the snapshot before and after must agree
        let dbg0 = format!("{snap:?}");
        let (n_entries, n_no_ttl) = (dbg0.matches("ttl_remaining:").count(), dbg0.matches("ttl_remaining: None").count());
        let what = format!("to_snapshot() with {n_entries} entries ({n_no_ttl} without a ttl, cache ttl={})", opt(self.cfg.ttl));
        let bytes = match bincode::serialize(&snap) { Ok(b) => b,
          Err(e) => { self.fail("snapshot:serialization-round-trip-failed", format!("{what}: bincode::serialize failed: {e}")); self.stop = true; vec![] } };
        if !self.stop { match bincode::deserialize::<CacheSnapshot<u64, u64>>(&bytes) {
          Err(e) => { self.fail("snapshot:serialization-round-trip-failed", format!("{what}: the {} serialized bytes do not deserialize: {e}", bytes.len())); self.stop = true; }
          Ok(back) => { let dbg1 = format!("{back:?}"); if dbg1 != dbg0 {
            self.fail("snapshot:round-trip-changed-entries", format!("{what}: deserialize(serialize(snapshot)) differs from the snapshot: {} -> {}", clip(&dbg0), clip(&dbg1))); self.stop = true; } } } }
        let Some((entries, cap, shards)) = decode_snapshot(&bytes) else {
          if !self.stop { self.fail("snapshot:serialization-round-trip-failed", format!("{what}: the serialized bytes do not have the bincode layout of CacheSnapshot<u64,u64>")); self.stop = true; }
          self.tr.line(op, "[undecodable]"); return; };
        if self.stop { self.tr.line(op, "[undecodable]"); return; }
        enumerated = Some(("to_snapshot", entries.iter().map(|e| (e.0, e.1, self.now)).collect(), live0, false));
        for (k, v, c, ttl) in &entries {
          if let Some(b) = self.sh.latest.get(k).cloned() { if b.vid == *v {
            if b.cost != *c { self.fail("snapshot:entry-cost-differs", format!("snapshot has cost {c} for key {k}, inserted with {}", b.cost)); }
            match (b.exp, ttl) { (Some(e), Some(r)) if self.now + r > e => self.fail("snapshot:remaining-ttl-longer-than-original", format!("key {k}: remaining {r} > {}", e.saturating_sub(self.now))),
              (Some(_), None) => self.fail("snapshot:ttl-lost", format!("key {k} had a deadline, snapshot has none")), _ => {} }
          } }
        }
        self.snap_bytes = Some(bytes);
        let mut es = entries.clone(); es.sort();
        format!("[{}] cap={} shards={}", es.iter().map(|(k, v, c, t)| format!("{k}:{v}:{c}:{}", opt(*t))).collect::<Vec<_>>().join(","), if cap == u64::MAX { "inf".to_string() } else { cap.to_string() }, shards)
      }
      "restore" => {
        if let Some(bytes) = self.snap_bytes.clone() {
          let (snap, entries) = match (bincode::deserialize::<CacheSnapshot<u64, u64>>(&bytes), decode_snapshot(&bytes)) {
            (Ok(s), Some((e, _, _))) => (s, e),
            _ => { self.fail("snapshot:serialization-round-trip-failed", "the serialized snapshot does not deserialize at restore time".to_string()); self.stop = true; self.tr.line(op, "[undecodable]"); return; } };
          self.held.clear();
          let (c, lis) = build(&self.cfg, &self.env, Some(snap));
          self.ac = c.to_async(); self.c = c; self.lis = lis; self.lis_seen = 0; self.gate_sends = 0;
          // the restored cache is a new cache: its contract starts from the snapshot's content
          let old: Vec<u64> = self.sh.latest.keys().copied().collect();
          for k in old { self.end_binding(k, End::Cleared, true, "restore"); }
          self.sh.stale_timers.clear(); self.sh.notified.clear(); self.sh.pending = vec![VecDeque::new(); self.cfg.shards]; self.sh.adv = vec![0; self.cfg.shards]; self.sh.overflowed = false; self.sh.cap_pass_mismatch = false;
          self.sh.restored = true;
          for (k, v, c, ttl) in entries {
            self.sh.vids.insert(v, (k, None));
            self.sh.latest.insert(k, Binding { vid: v, cost: c, exp: ttl.map(|t| self.now + t), last_access: self.now, origin: "restore", timer_due: None, admitted: false, dropped_event: false });
          }
        }
        "-".into()
      }
      "stream_open" => {
        // hash order first (the probe performs the introspection flush the real call starts with)
        order_probe = Some(self.probe_order());
        let batch = n(1) as usize;
        let st = self.ac.iter_stream_with_batch_size(batch);
        self.stream = Some(StreamH { st: Box::pin(st), batch, out: vec![], live0: BTreeMap::new(), advanced: false, ended: false, checked: 0, wk: Arc::new(CountWaker(AtomicUsize::new(0))), pendings: 0 });
        "-".into()
      }
      "hold" => {
        let k = n(1);
        let r = if asy { bo(self.ac.fetch(&k)) } else { self.c.fetch(&k) };
        let v = r.as_ref().map(|a| **a);
        self.read("fetch", k, v, true, false);
        if let Some(a) = r { self.held.push(a); }
        show_opt(v)
      }
      "release" => { self.held.clear(); "-".into() }
      "gate" => {
        if t.get(1) == Some(&"close") { self.lis.gate_closed.store(true, Ordering::SeqCst); } else { self.lis.gate_closed.store(false, Ordering::SeqCst); }
        "-".into()
      }
      _ => { self.tr.raw(&format!("# unknown op {op}")); return; }
    };
    // ---- policy-call log of this call
    let mut plog: Vec<String> = if name == "restore" { vec![] } else { self.env.plog.lock().unwrap().lock().unwrap().clone() };
    if name == "multi_remove" || name == "multi_invalidate" { plog.sort_by_key(|p| p.split(':').nth(1).and_then(|s| s.parse::<u64>().ok()).unwrap_or(0)); }
    // spurious opportunistic maintenance in mc=never mode (probability 2^-31 per insert): re-run the case
    if !self.cfg.mc_always && matches!(name, "insert" | "insert_ttl") && !asy && !plog.is_empty() { self.spurious = true; }
    // ---- reconstruct, from the policy log alone, which keys this call took out of the map and why:
    // every removal path except the capacity pass calls on_remove right where it removes (`rm`), the
    // capacity pass removes the victims of its `ev` call that are still resident in that shard.
    let mut gone: BTreeSet<u64> = BTreeSet::new();
    let mut cap_class: BTreeSet<u64> = BTreeSet::new();
    let mut cap_pass_removed: Vec<u64> = vec![];
    let mut admit_victims: BTreeSet<u64> = BTreeSet::new();
    let mut cap_passes: Vec<(Vec<u64>, u64)> = vec![]; // (victims really removed, cost the policy reported)
    for p in &plog { let f: Vec<&str> = p.split(':').collect();
      match f[0] {
        "ad" => { let sh: usize = f[1].parse().unwrap_or(0);
          if let Some((k, v)) = self.sh.pending[sh].pop_front() { if let Some(b) = self.sh.latest.get_mut(&k) { if b.vid == v { b.admitted = true; } } }
          if let Some(vs) = f[4].strip_prefix("ev") { for v in nats(vs) { admit_victims.insert(v); } } }
        "rm" => { let k: u64 = f[2].parse().unwrap_or(0); gone.insert(k); if admit_victims.remove(&k) { cap_class.insert(k); } }
        "ev" => { let sh: u64 = f[1].parse().unwrap_or(0); let freed: u64 = f[4].parse().unwrap_or(0); let mut real = vec![];
          for v in nats(f[3]) { if v % self.cfg.shards as u64 == sh && self.occupied_before.get(&v).copied().unwrap_or(false) && gone.insert(v) { real.push(v); cap_class.insert(v); cap_pass_removed.push(v); } }
          cap_passes.push((real, freed)); }
        _ => {} } }
    if name == "maint" { for i in 0..self.cfg.shards { if self.has_wheel() { self.sh.adv[i] += 1; } } }
    // ---- notifications of this call
    let mut nsec = String::new();
    let mut notifs: Vec<(u64, u64, char)> = vec![];
    // Some(..): expected notifications of this call were provably never sent
    let mut lost: Option<String> = None;
    let gate_was_closed = self.lis.gate_closed.load(Ordering::SeqCst) || (name == "gate" && t.get(1) == Some(&"open"));
    if self.cfg.lis {
      let m1 = self.c.metrics();
      let m0 = m0.as_ref().unwrap();
      let ev_victims: u64 = plog.iter().filter(|p| p.starts_with("ev:")).map(|p| nats(p.split(':').nth(3).unwrap_or("")).len() as u64).sum();
      let mut sends = if name == "restore" { 0 } else { (m1.invalidations - m0.invalidations) + (m1.evicted_by_ttl - m0.evicted_by_ttl) + (m1.evicted_by_tti - m0.evicted_by_tti)
        + (m1.evicted_by_capacity - m0.evicted_by_capacity).saturating_sub(ev_victims) + cap_pass_removed.len() as u64 };
      if name == "gate" && t.get(1) == Some(&"open") { sends = self.gate_sends.min(129) as u64; self.gate_sends = 0; }
      let mut want_extra = 0usize;
      if self.lis.gate_closed.load(Ordering::SeqCst) {
        let mut reached = true;
        if self.gate_sends == 0 && sends > 0 { let t0 = Instant::now(); while !self.lis.in_flight.load(Ordering::SeqCst) && t0.elapsed() < NOTIFY_WAIT { std::thread::sleep(Duration::from_micros(50)); }
          reached = self.lis.in_flight.load(Ordering::SeqCst); }
        if reached { self.gate_sends += sends as usize; }
        else {
          // the first notification behind the closed gate never reached the listener: open the gate and find out
          // below whether it was sent at all (the case ends here in either outcome)
          self.lis.gate_closed.store(false, Ordering::SeqCst); want_extra = self.gate_sends; self.gate_sends = 0; self.stop = true;
        }
      }
      if !self.lis.gate_closed.load(Ordering::SeqCst) {
        let want = self.lis_seen + sends as usize + want_extra;
        let t0 = Instant::now();
        let mut ev = self.lis.events.lock().unwrap();
        while ev.len() < want && t0.elapsed() < NOTIFY_WAIT { ev = self.lis.cv.wait_timeout(ev, Duration::from_millis(50)).unwrap().0; }
        if ev.len() < want {
          // Not delivered within NOTIFY_WAIT: never sent, or stuck in the queue behind a notifier thread that was not
          // woken (F20)? The channel is FIFO with one consumer, so an unrelated removal sent NOW settles it: once its
          // notification is delivered, everything that was sent before it has been delivered too.
          drop(ev);
          bo(self.ac.insert(999_999, 1, 1)); let _ = bo(self.ac.remove(&999_999));
          let t1 = Instant::now();
          ev = self.lis.events.lock().unwrap();
          while !ev.iter().any(|e| e.0 == 999_999) && t1.elapsed() < NOTIFY_PROBE_WAIT { ev = self.lis.cv.wait_timeout(ev, Duration::from_millis(20)).unwrap().0; }
          let probe_delivered = ev.iter().any(|e| e.0 == 999_999);
          ev.retain(|e| e.0 != 999_999);
          if ev.len() >= want { self.abandoned = Some("listener:notification-stuck-in-queue-until-next-send"); }   // re-run from scratch, signature attached
          else if probe_delivered || self.last_attempt { lost = Some(format!("{op}: the metrics / policy log of the call imply {} notification(s), {} arrived within {:?}{}", sends as usize + want_extra, ev.len() - self.lis_seen.min(ev.len()), t0.elapsed(),
            if probe_delivered { "; a later, unrelated removal WAS notified, so the missing ones were never sent" } else { "; a later, unrelated removal was not notified either" })); self.stop = true; }
          else { self.abandoned = Some("listener:notifier-thread-stalled"); }   // neither arrived: re-run from scratch
        } else if self.stop { self.abandoned = Some("listener:notifier-thread-stalled"); }   // gate forced open but everything arrived after all: re-run
        notifs = ev[self.lis_seen.min(ev.len())..].to_vec();
        drop(ev);
        if lost.is_none() && notifs.len() != sends as usize + want_extra { self.fail("listener:delivered-count-differs-from-removals-counted-by-metrics", format!("{op}: metrics/policy log imply {sends} notifications, listener got {}", notifs.len())); }
        self.lis_seen += notifs.len();
      }
      notifs.sort();
      nsec = notifs.iter().map(|(k, v, r)| format!("{k}:{v}:{r}")).collect::<Vec<_>>().join(" ");
    }
    // ---- post-call observations and monitors
    let occ_after: BTreeMap<u64, bool> = (0..self.nkeys).map(|k| (k, self.occupied(k))).collect();
    if let Some((api, out, live0, interleaved)) = enumerated.take() { self.check_enumeration(api, &out, &live0, interleaved, &occ_after); }
    let maint_ran = name == "maint" || plog.iter().any(|p| p.starts_with("ad:") || p.starts_with("ev:"));
    // removals this call performed: on request (own) and on the cache's own initiative (vanished)
    let mut removals: Vec<Removal> = own_removed.iter().map(|(k, v)| Removal { k: *k, vid: *v, class: 'I', unexpired: false, own: true }).collect();
    let before = self.occupied_before.clone();
    let mut vanished: Vec<(u64, Binding)> = vec![];
    if !cleared && name != "restore" {
      for (k, was) in &before { if *was && !occ_after.get(k).copied().unwrap_or(false) && !own_removed.iter().any(|x| x.0 == *k) {
        if let Some(b) = self.sh.latest.get(k).cloned() { vanished.push((*k, b)); } } }
      if matches!(name, "insert" | "insert_ttl") { let k: u64 = n(1);
        if !before.get(&k).copied().unwrap_or(false) && !occ_after.get(&k).copied().unwrap_or(false) { if let Some(b) = self.sh.latest.get(&k).cloned() { vanished.push((k, b)); } } }
    }
    // a remove/invalidate that reported a miss but took a resident entry out of the map is a removal all the same
    for (k, b) in &silent { if !occ_after.get(k).copied().unwrap_or(false) {
      removals.push(Removal { k: *k, vid: b.vid, class: if self.expired_ref(b).is_some() { 'E' } else { 'I' }, unexpired: self.expired_ref(b).is_none(), own: false }); } }
    for (k, b) in &vanished {
      let mut stale_why = "";
      let unexpired = self.expired_ref(b).is_none();
      removals.push(Removal { k: *k, vid: b.vid, class: if cap_class.contains(k) { 'C' } else { 'E' }, unexpired, own: false });
      if self.cfg.cap.is_none() && unexpired {
        // C12: an unexpired entry of an unbounded cache is reported missing from now on
        let tick_processed = self.sh.adv[self.shard(*k)].saturating_sub(1);
        let sig = if name == "maint" && b.timer_due == Some(tick_processed) { "maintenance:timer-wheel-advances-per-call-evicts-unexpired".to_string() }
          else if name == "maint" { match self.sh.stale_timers.get(k).and_then(|v| v.iter().find(|x| x.0 == tick_processed)) {
              Some((_, why)) => { stale_why = *why; "maintenance:stale-timer-evicts-unexpired-entry".to_string() } None => "maintenance:evicts-unexpired-entry-of-unbounded-cache".to_string() } }
          else { format!("{name}:unexpired-entry-of-unbounded-cache-disappears") };
        self.fail(&sig, format!("{op} at t={}: key {k} value {} (deadline {:?}, last access {}) left an unbounded cache{}", self.now, b.vid, b.exp, b.last_access,
          if stale_why.is_empty() { String::new() } else { format!(" (a TTL timer of an earlier binding of the key, dropped by {stale_why} without cancelling it, fired)") }));
      }
    }
    // ---- C16
    if self.cfg.lis {
      if self.lis.gate_closed.load(Ordering::SeqCst) { self.gate_pending.extend(removals.iter().cloned()); }
      else {
        let pool: Vec<Removal> = if gate_was_closed { let mut p = std::mem::take(&mut self.gate_pending); p.extend(removals.iter().cloned()); p } else { removals.clone() };
        for (k, v, r) in &notifs {
          if !self.sh.notified.insert(*v) { self.fail("listener:duplicate-notification", format!("{op}: value {v} of key {k} notified twice")); }
          match self.sh.vids.get(v) {
            None => self.fail("listener:notification-for-value-never-written", format!("{op}: notified {k}:{v}")),
            Some((k2, _)) if k2 != k => self.fail("listener:notification-pairs-value-with-wrong-key", format!("{op}: notified {k}:{v}, {v} belongs to key {k2}")),
            _ => {} }
          match pool.iter().find(|x| x.k == *k && x.vid == *v) {
            None => self.fail("listener:notification-without-removal", format!("{op}: notified {k}:{v}:{r}, but no removal of that binding happened")),
            Some(x) => {
              if !gate_was_closed && !x.own && occ_after.get(k).copied().unwrap_or(false) && self.sh.latest.get(k).map_or(false, |b| b.vid == *v) { self.fail("listener:notified-entry-still-resident", format!("{op}: notified {k}:{v}:{r}, binding still resident")); }
              match (*r, x.own) {
                ('I', true) => {}
                ('I', false) => self.fail("listener:invalidated-reason-without-invalidation", format!("{op}: {k}:{v} notified Invalidated")),
                (_, true) => self.fail("listener:wrong-reason-for-invalidation", format!("{op}: {k}:{v} notified {r}")),
                ('E', false) => if x.unexpired { self.fail("listener:expired-notification-for-unexpired-entry", format!("{op} at t={}: {k}:{v} notified Expired before any of its deadlines", self.now)); },
                (_, false) => { if self.cfg.cap.is_none() { self.fail("listener:capacity-reason-in-unbounded-cache", format!("{op}: {k}:{v}")); }
                  if x.class != 'C' { self.fail("listener:capacity-reason-for-expiry-cleanup", format!("{op}: {k}:{v}")); } }
              }
            }
          }
        }
        let _ = maint_ran;
        // completeness (the queue never filled: at most 129 notifications were outstanding)
        if pool.len() <= 129 { for x in &pool { if !notifs.iter().any(|y| y.0 == x.k && y.1 == x.vid) {
          let why = match (x.class, x.own) { ('I', _) => "removed on request: Invalidated expected", ('C', _) => "evicted for capacity / rejected by the admission policy: Capacity expected", _ => if x.unexpired { "removed by a maintenance pass" } else { "removed after its deadline: Expired (or Invalidated, if on request) expected" } };
          self.fail("listener:removal-not-notified", format!("{op}: key {} value {} left the cache ({why}) and the listener was never told{}", x.k, x.vid, lost.as_ref().map(|l| format!(" [{l}]")).unwrap_or_default())); } } }
      }
      // expected sends that provably never happened, whichever binding they were about
      if let Some(l) = &lost { if !self.fails.iter().any(|f| f.0 == "listener:removal-not-notified") { let l = l.clone(); self.fail("listener:removal-not-notified", l); } }
    }
    // bindings that left the map are forgotten by the implementation (the register may forget)
    for (k, _) in &vanished { let why: &'static str = if cap_class.contains(k) { "capacity-eviction" } else { "expiry-cleanup" }; self.end_binding(*k, End::Removed, false, why); }
    // the live set the hand-polled stream must enumerate: resident and unexpired after `stream_open`'s flush
    if name == "stream_open" {
      let live: BTreeMap<u64, u64> = self.sh.latest.iter().filter(|(k, b)| occ_after.get(*k).copied().unwrap_or(false) && self.expired_ref(b).is_none()).map(|(k, b)| (*k, b.vid)).collect();
      if let Some(s) = self.stream.as_mut() { s.live0 = live; }
    }
    // ---- C13
    for (real, freed) in &cap_passes { let r: u64 = real.iter().map(|v| vanished.iter().find(|x| x.0 == *v).map_or(0, |x| x.1.cost)).sum(); if r != *freed { self.sh.cap_pass_mismatch = true; } }
    let resident_cost: u64 = occ_after.iter().filter(|(_, o)| **o).map(|(k, _)| self.sh.latest.get(k).map_or(0, |b| b.cost)).sum();
    if let Some((k, _)) = occ_after.iter().find(|(k, o)| **o && !self.sh.latest.contains_key(k)) { self.fail("residency:key-resident-after-remove-or-clear", format!("{op}: key {k} is resident although its last write was removed/cleared")); }
    let mut cc = None;
    if passive {
      let c = self.c.metrics().current_cost; cc = Some(c);
      if c != resident_cost {
        let sig = if self.sh.cap_pass_mismatch { "accounting:capacity-pass-subtracts-stale-policy-cost" } else { "accounting:current_cost-differs-from-resident-cost" };
        self.fail(sig, format!("{op}: current_cost={c}, resident entries cost {resident_cost}"));
      }
    }
    if name == "maint" { if let Some(cap) = self.cfg.cap { if resident_cost > cap {
      let backlog = self.sh.pending.iter().map(|q| q.len()).max().unwrap_or(0);
      let res = |f: &dyn Fn(&Binding) -> bool| occ_after.iter().any(|(k, o)| *o && self.sh.latest.get(k).map_or(false, |b| f(b)));
      let sig = if res(&|b| b.origin == "restore") { "snapshot:restored-entries-never-admitted-to-policy".to_string() }
        else if res(&|b| b.dropped_event) { "capacity:event-buffer-overflow-untracked-residents".to_string() }
        else if backlog > 0 { "capacity:single-run_maintenance-drain-limit-16".to_string() }
        else if self.sh.cap_pass_mismatch || cc.map_or(false, |c| c != resident_cost) { "capacity:corrupted-current_cost-misguides-capacity-pass".to_string() }
        else { format!("capacity:{}-cannot-free-enough-with-empty-backlog", self.cfg.policy) };
      self.fail(&sig, format!("{op}: resident cost {resident_cost} > capacity {cap} after run_maintenance (write-event backlog {backlog}, current_cost {:?})", cc));
    } } }
    let mut line = res;
    if !plog.is_empty() { line.push_str(" ; P "); line.push_str(&plog.join(" ")); }
    if !nsec.is_empty() { line.push_str(" ; N "); line.push_str(&nsec); }
    if let Some(o) = order_probe { line.push_str(" ; O "); line.push_str(&o); }
    self.tr.line(op, &line);
  }

  /// `hold_entry k` | `release_entry` | `stream_poll [n]` | `advance d` while a guard is held
  fn exec_stream(&mut self, op: &str, name: &str, t: &[&str]) {
    let n = |i: usize| -> u64 { t.get(i).and_then(|s| s.parse().ok()).unwrap_or(0) };
    match name {
      "hold_entry" => {
        if self.guard.is_some() { self.tr.raw(&format!("# skipped, an entry guard is already held: {op}")); return; }
        let k = n(1);
        let c: Box<C> = Box::new(self.c.clone());
        // SAFETY: the boxed handle is never moved out of / dropped before the guard that borrows it (HeldGuard)
        let r: &'static C = unsafe { &*(&*c as *const C) };
        let e = r.entry(k);
        let res = if matches!(e, Entry::Occupied(_)) { "occupied" } else { "vacant" };
        self.guard = Some(HeldGuard { g: Some(e), _c: c });
        self.tr.line(op, res);
      }
      "release_entry" => {
        let Some(mut g) = self.guard.take() else { self.tr.raw(&format!("# skipped, no entry guard is held: {op}")); return; };
        let w0 = self.stream.as_ref().map_or(0, |s| s.wk.0.load(Ordering::SeqCst));
        drop(g.g.take()); drop(g);
        let woke = self.stream.as_ref().map_or(0, |s| s.wk.0.load(Ordering::SeqCst)) - w0;
        self.tr.line(op, &format!("- woke={woke}"));
      }
      "stream_poll" => {
        if self.stream.is_none() { self.tr.raw(&format!("# skipped, no stream is open: {op}")); return; }
        let times = if t.len() > 1 { n(1).max(1) } else { 1 };
        let now = self.now;
        let mut res: Vec<String> = vec![];
        let mut ended = false;
        { let s = self.stream.as_mut().unwrap();
          let waker = Waker::from(s.wk.clone());
          let mut cx = Context::from_waker(&waker);
          for _ in 0..times {
            match s.st.as_mut().poll_next(&mut cx) {
              Poll::Pending => { s.pendings += 1; res.push("pending".into()); break; }
              Poll::Ready(Some((k, v))) => { s.out.push((k, *v, now)); res.push(format!("item:{k}:{}", *v)); }
              Poll::Ready(None) => { res.push("end".into()); ended = true; break; }
            }
          } }
        self.check_stream(ended);
        self.tr.line(op, &res.join(" "));
      }
      _ => { // advance under a held guard
        let d = n(1); verif_clock::advance(d * 1_000_000); self.now += d;
        if let Some(s) = self.stream.as_mut() { s.advanced = true; }
        self.tr.line(op, "-");
      }
    }
  }
  fn close_stream(&mut self) { if self.stream.is_some() { self.check_stream(false); self.stream = None; } }
  /// C17 on the hand-polled stream: no entry twice (checked as items arrive), and once the end has been
  /// reported every entry that was live when the stream was opened (and, if the clock moved meanwhile, is still
  /// live) has been yielded. The cache content cannot change while the stream is open (only `advance` runs).
  fn check_stream(&mut self, ended: bool) {
    let Some(mut s) = self.stream.take() else { return; };
    let now = self.now;
    let fresh: Vec<(u64, u64, u64)> = s.out[s.checked..].to_vec();
    for (i, (k, v, at)) in fresh.iter().enumerate() {
      if s.out[..s.checked + i].iter().any(|x| x.0 == *k) {
        self.fail("iter:stream-entry-yielded-twice", format!("iter_stream_with_batch_size({}) polled by hand yielded key {k} (value {v}) twice; {} poll(s) returned Pending because the shard lock was held by an entry guard", s.batch, s.pendings)); }
      if s.advanced { if self.sh.latest.get(k).map(|b| b.vid) != Some(*v) { self.read("iter_stream", *k, Some(*v), false, false); } }
      else { self.now = *at; self.read("iter_stream", *k, Some(*v), false, false); self.now = now; }
    }
    s.checked = s.out.len();
    if ended && !s.ended {
      s.ended = true;
      for (k, v) in &s.live0 { if !s.out.iter().any(|x| x.0 == *k) && self.sh.latest.get(k).map_or(false, |b| b.vid == *v && self.expired_ref(b).is_none()) {
        self.fail("iter:stream-entry-missed", format!("iter_stream_with_batch_size({}) polled by hand reported its end without yielding live entry {k}:{v}; {} poll(s) returned Pending", s.batch, s.pendings)); } }
    }
    self.stream = Some(s);
  }

  /// HashMap iteration order of every resident key (expired or not): rewind the clock so that
  /// nothing is expired and iterate (`Iter` has no side effect besides the introspection flush,
  /// which the real call would perform first anyway).
  fn probe_order(&mut self) -> String {
    let now = verif_clock::now_nanos();
    verif_clock::freeze_at(1);
    let keys: Vec<u64> = self.c.iter_with_batch_size(1 << 20).map(|(k, _)| k).collect();
    verif_clock::freeze_at(now);
    list(&keys)
  }
  /// resident bindings that have not reached any deadline (per the reference rules)
  fn live_set(&self) -> BTreeMap<u64, u64> {
    let mut m = BTreeMap::new();
    for (k, b) in &self.sh.latest { if self.occupied_before.get(k).copied().unwrap_or(false) && self.expired_ref(b).is_none() { m.insert(*k, b.vid); } }
    m
  }
  /// C17: exactly the live entries, each once, with the current value
  fn check_enumeration(&mut self, api: &str, out: &[(u64, u64, u64)], live0: &BTreeMap<u64, u64>, interleaved: bool, occ_after: &BTreeMap<u64, bool>) {
    let mut seen = BTreeSet::new();
    let now = self.now;
    for (k, v, at) in out {
      if !seen.insert(*k) { self.fail(&format!("{api}:yields-key-twice"), format!("{api} yielded key {k} twice")); }
      // an item is read when its batch is fetched; with a scripted advance in the middle only the register clause is checked
      self.now = if interleaved { self.cfg.t0.min(*at) } else { *at };
      if interleaved { if self.sh.latest.get(k).map(|b| b.vid) != Some(*v) { self.read(api, *k, Some(*v), false, false); } }
      else { self.read(api, *k, Some(*v), false, false); }
      self.now = now;
    }
    // omitted although live at the start and still resident at the end (maintenance inside the call may evict)
    if !interleaved { for (k, v) in live0 { if !seen.contains(k) && occ_after.get(k).copied().unwrap_or(false) && self.sh.latest.get(k).map_or(false, |b| b.vid == *v) {
      self.fail(&format!("{api}:omits-live-entry"), format!("{api} did not yield live entry {k}:{v}")); } } }
  }

  fn finish(mut self) -> (String, bool) {
    self.close_stream(); self.guard = None;
    self.lis.gate_closed.store(false, Ordering::SeqCst);
    let fails = std::mem::take(&mut self.fails);
    let only = std::env::var("VERIF_PROP").ok();
    for (s, m) in &fails { if only.as_deref().map_or(true, |p| p == prop_of(s)) { self.tr.monitor(s, &format!("[{}] {m}", prop_of(s))); } }
    (self.tr.finish(), self.spurious)
  }
}

/// the property a monitor signature is a violation of
fn prop_of(sig: &str) -> &'static str {
  let sig = sig.strip_prefix("stress:").unwrap_or(sig);
  if sig.starts_with("listener:") { "C16" }
  else if sig.starts_with("accounting:") || sig.starts_with("capacity:") { "C13" }
  else if sig.starts_with("snapshot:") || sig.starts_with("iter:stream-") || sig.contains(":yields-") || sig.contains(":omits-") { "C17" }
  else if sig.contains("expired") || sig.contains("unbounded") || sig.starts_with("fetch_with:") || sig.starts_with("maintenance:") { "C12" }
  else { "C11" }
}

/// bincode (fixint, little endian) layout of `CacheSnapshot<u64,u64>`; `None` if the bytes do not have it
fn decode_snapshot(b: &[u8]) -> Option<(Vec<(u64, u64, u64, Option<u64>)>, u64, u64)> {
  let mut p = 0usize;
  let u64_ = |p: &mut usize| -> Option<u64> { let v = u64::from_le_bytes(b.get(*p..*p + 8)?.try_into().ok()?); *p += 8; Some(v) };
  let n = u64_(&mut p)?;
  if n > b.len() as u64 { return None; }
  let mut es = vec![];
  for _ in 0..n {
    let (k, v, c) = (u64_(&mut p)?, u64_(&mut p)?, u64_(&mut p)?);
    let tag = *b.get(p)?; p += 1;
    let ttl = match tag { 1 => { let s = u64_(&mut p)?; let ns = u32::from_le_bytes(b.get(p..p + 4)?.try_into().ok()?); p += 4; Some(s.checked_mul(1000)?.checked_add(ns as u64 / 1_000_000)?) } 0 => None, _ => return None };
    es.push((k, v, c, ttl));
  }
  let cap = u64_(&mut p)?; let sh = u64_(&mut p)?;
  if p != b.len() { return None; }
  Some((es, cap, sh))
}
fn clip(s: &str) -> String { if s.len() > 300 { format!("{}…", &s[..300]) } else { s.to_string() } }


fn run_case(id: &str, cfg: &Cfg, ops: &[String]) -> String {
  let mut carried: Vec<&'static str> = vec![];
  const ATTEMPTS: usize = 4;
  for attempt in 0..ATTEMPTS {
    let mut r = Runner::new(id, cfg.clone());
    r.last_attempt = attempt + 1 == ATTEMPTS;
    for op in ops { r.exec(op); if r.abandoned.is_some() || r.stop { break; } }
    if let Some(sig) = r.abandoned {
      // a stalled notifier thread (nothing at all delivered) is a machinery hiccup, retried silently; on the last attempt it is reported
      if sig != "listener:notifier-thread-stalled" && !carried.contains(&sig) { carried.push(sig); }
      eprintln!("cacheh: case {id} attempt {attempt}: {sig}, re-running");
      r.lis.gate_closed.store(false, Ordering::SeqCst); continue; }
    if r.stop { r.tr.raw("# the case ends here: the failure reported below makes the rest of the history meaningless"); }
    for sig in &carried { r.fail(sig, format!("in an earlier execution of this case a notification was not delivered within {NOTIFY_WAIT:?}; it arrived only after a later, unrelated send woke the notifier thread (the case was then re-run from scratch)")); }
    let (out, spurious) = r.finish();
    if !spurious { return out; }
  }
  format!("#case {id} {}\n# gave up: opportunistic maintenance kept firing in mc=never mode / notifier kept stalling\n#end\n", cfg.header())
}

// ------------------------------------------------------------------ generator
const POLICIES: [&str; 8] = ["lru", "fifo", "sieve", "clock", "random", "slru", "arc", "tinylfu"];

/// One hand-polled `iter_stream` with one or two contended refills: `pre` items first (0 = the very FIRST refill is
/// contended), then an entry guard on the first / last / some shard (Occupied or Vacant: keys >= nkeys are never
/// inserted), polls until Pending (or the end, if the cursor is already past that shard), release, drain.
fn stream_script(rng: &mut Rng, cfg: &Cfg, nkeys: u64, batches: &[u64], ops: &mut Vec<String>) {
  let shards = cfg.shards as u64;
  ops.push(format!("stream_open {}", *rng.pick(batches)));
  let rounds = if rng.chance(1, 3) { 2 } else { 1 };
  for round in 0..rounds {
    let pre = if round == 0 { *rng.pick(&[0u64, 0, 0, 1, 2, 3, 5]) } else { *rng.pick(&[0u64, 1, 2, 4]) };
    if pre > 0 { ops.push(format!("stream_poll {pre}")); }
    let sh = match rng.below(5) { 0 => 0, 1 => shards - 1, _ => rng.below(shards) };
    let k = sh + shards * rng.below(nkeys / shards + 2);
    ops.push(format!("hold_entry {k}"));
    ops.push(format!("stream_poll {}", nkeys + 2));
    if rng.chance(1, 3) { ops.push("stream_poll".into()); }
    if (cfg.ttl.is_some() || cfg.tti.is_some()) && rng.chance(1, 4) { ops.push(format!("advance {}", *rng.pick(&[1u64, 500, 1000, 2000]))); }
    ops.push("release_entry".into());
  }
  ops.push(format!("stream_poll {}", nkeys + 2));
}

struct Gen { rng: Rng, vid: u64, nkeys: u64, now: u64, deadlines: Vec<u64>, cfg: Cfg, ops: Vec<String>, held: bool, gate: bool, snap: bool }
impl Gen {
  fn key(&mut self) -> u64 { self.rng.below(self.nkeys) }
  fn fresh(&mut self) -> u64 { self.vid += 1; self.vid }
  fn cost(&mut self) -> u64 {
    let cap = self.cfg.cap.unwrap_or(10);
    *self.rng.weighted(&[(50u32, 1u64), (20, 2), (10, 3), (6, 0), (6, cap), (4, cap + 1), (4, 5)])
  }
  fn a(&mut self) -> &'static str { if !self.cfg.mc_always && self.rng.chance(1, 4) { "a." } else { "" } }
  fn advance(&mut self) {
    // land before / exactly at / after a deadline, or a plain step
    let d = if !self.deadlines.is_empty() && self.rng.chance(3, 4) {
      let t = *self.rng.pick(&self.deadlines);
      let target = match self.rng.below(4) { 0 => t.saturating_sub(1), 1 | 2 => t, _ => t + 1 };
      if target > self.now { target - self.now } else { *self.rng.pick(&[1u64, 500, 1000]) }
    } else { *self.rng.pick(&[1u64, 100, 500, 999, 1000, 1001, 1500, 2000, 3000, 7000]) };
    self.now += d;
    self.ops.push(format!("advance {d}"));
  }
  fn note_deadline(&mut self, ttl: Option<u64>) {
    if let Some(t) = ttl { self.deadlines.push(self.now + t); if let Some(g) = self.cfg.swr { self.deadlines.push(self.now + t + g); } }
    if let Some(t) = self.cfg.tti { self.deadlines.push(self.now + t); }
    if self.deadlines.len() > 24 { self.deadlines.remove(0); }
  }
  fn keys(&mut self, max: u64) -> String { let n = self.rng.range(1, max); let v: Vec<u64> = (0..n).map(|_| self.key()).collect(); v.iter().map(|x| x.to_string()).collect::<Vec<_>>().join(",") }
  fn step(&mut self, focus: &str) {
    let w: Vec<(u32, &str)> = match focus {
      "ttl" => vec![(22, "insert"), (8, "insert_ttl"), (14, "get"), (8, "fetch"), (8, "peek"), (4, "remove"), (3, "invalidate"), (1, "clear"), (18, "advance"), (8, "maint"), (3, "cost"), (6, "or_insert"), (4, "compute"), (6, "fetch_with"), (3, "multiget"), (2, "multi_insert"), (2, "iter"), (2, "iter_snapshot"), (1, "metrics"), (1, "hold"), (1, "release")],
      "capacity" => vec![(40, "insert"), (3, "insert_ttl"), (10, "get"), (5, "fetch"), (2, "peek"), (4, "remove"), (2, "invalidate"), (1, "clear"), (3, "advance"), (12, "maint"), (5, "cost"), (3, "or_insert"), (2, "compute"), (3, "fetch_with"), (3, "multiget"), (4, "multi_insert"), (2, "multi_remove"), (1, "multi_invalidate"), (1, "iter"), (2, "metrics")],
      "listener" => vec![(34, "insert"), (4, "insert_ttl"), (8, "get"), (3, "fetch"), (8, "remove"), (6, "invalidate"), (2, "clear"), (8, "advance"), (12, "maint"), (2, "cost"), (3, "or_insert"), (2, "fetch_with"), (3, "multi_insert"), (3, "multi_remove"), (2, "multi_invalidate"), (1, "gate")],
      "iter" | "snapshot" => vec![(30, "insert"), (5, "insert_ttl"), (6, "get"), (3, "peek"), (4, "remove"), (1, "clear"), (10, "advance"), (5, "maint"), (2, "cost"), (3, "or_insert"), (2, "compute"), (2, "fetch_with"), (4, "multi_insert"), (8, "iter"), (6, "iter_snapshot"), (6, "snapshot"), (3, "restore"), (1, "metrics"), (if focus == "iter" { 4 } else { 1 }, "stream")],
      _ => vec![(30, "insert"), (4, "insert_ttl"), (14, "get"), (8, "fetch"), (6, "peek"), (6, "remove"), (4, "invalidate"), (2, "clear"), (5, "advance"), (6, "maint"), (2, "cost"), (8, "or_insert"), (8, "compute"), (3, "try_compute"), (6, "fetch_with"), (4, "multiget"), (3, "multi_insert"), (2, "multi_remove"), (1, "multi_invalidate"), (2, "iter"), (2, "iter_snapshot"), (1, "metrics"), (2, "hold"), (2, "release"), (1, "occ")],
    };
    let op = *self.rng.weighted(&w);
    let a = self.a();
    match op {
      "insert" => { let (k, v, c) = (self.key(), self.fresh(), self.cost()); self.note_deadline(self.cfg.ttl); self.ops.push(format!("{a}insert {k} {v} {c}")); }
      "insert_ttl" => { let (k, v, c) = (self.key(), self.fresh(), self.cost()); let ttl = *self.rng.pick(&[0u64, 1, 400, 500, 1000, 1500, 2000, 2500, 3000, 5000]); self.note_deadline(Some(ttl)); self.ops.push(format!("{a}insert_ttl {k} {v} {c} {ttl}")); }
      "get" | "fetch" | "peek" | "remove" | "invalidate" => { let k = self.key(); self.ops.push(format!("{a}{op} {k}")); }
      "occ" => { let k = self.key(); self.ops.push(format!("occ {k}")); }
      "clear" | "maint" | "cost" | "metrics" => self.ops.push(format!("{a}{op}")),
      "advance" => self.advance(),
      "or_insert" => { let (k, v, c) = (self.key(), self.fresh(), self.cost()); self.note_deadline(self.cfg.ttl); self.ops.push(format!("{a}or_insert {k} {v} {c}")); }
      "compute" | "try_compute" => { let (k, v) = (self.key(), self.fresh()); let a = if op == "compute" && self.held { "" } else { a }; self.ops.push(format!("{a}{op} {k} {v}")); }
      "fetch_with" => { let (k, v, c) = (self.key(), self.fresh(), self.cost()); self.note_deadline(self.cfg.ttl); self.ops.push(format!("{a}fetch_with {k} {v} {c}")); }
      "multiget" => { let ks = self.keys(5); self.ops.push(format!("{a}multiget {ks}")); }
      "multi_remove" | "multi_invalidate" => { let ks = self.keys(4); self.ops.push(format!("{a}{op} {ks}")); }
      "multi_insert" => { let n = self.rng.range(1, 5); let items: Vec<String> = (0..n).map(|_| { let (k, v, c) = (self.key(), self.fresh(), self.cost()); format!("{k}:{v}:{c}") }).collect(); self.note_deadline(self.cfg.ttl); self.ops.push(format!("{a}multi_insert {}", items.join(","))); }
      "iter" => { let b = *self.rng.pick(&[1u64, 2, 3, 4, 5, 64, 64]); let inter = if self.rng.chance(1, 3) { format!(" {}:{}", self.rng.below(6), *self.rng.pick(&[1u64, 500, 1000, 2000, 3000])) } else { String::new() };
        if !inter.is_empty() { let d: u64 = inter.split(':').nth(1).unwrap().parse().unwrap(); let _ = d; }
        self.ops.push(format!("{a}iter {b}{inter}")); self.resync_clock(); }
      "iter_snapshot" => { let inter = if self.rng.chance(1, 3) { format!(" {}:{}", self.rng.below(6), *self.rng.pick(&[1u64, 500, 1000, 2000, 3000])) } else { String::new() }; self.ops.push(format!("{a}iter_snapshot{inter}")); self.resync_clock(); }
      "stream" => { let (cfg, nkeys) = (self.cfg.clone(), self.nkeys); stream_script(&mut self.rng, &cfg, nkeys, &[1, 1, 2, 2, 3, 4, 5, 64], &mut self.ops); }
      "snapshot" => { self.snap = true; self.ops.push(format!("{a}snapshot")); }
      "restore" => if self.snap { self.ops.push("restore".to_string()); self.held = false; },
      "hold" => { let k = self.key(); self.held = true; self.ops.push(format!("{a}hold {k}")); }
      "release" => { self.held = false; self.ops.push("release".into()); }
      "gate" => { if self.cfg.lis { self.gate = !self.gate; self.ops.push(format!("gate {}", if self.gate { "close" } else { "open" })); } }
      _ => {}
    }
  }
  /// the generator's own clock is only used to aim `advance`; interleaved iterator advances may or may not fire
  fn resync_clock(&mut self) {}
}

fn gen_case(seed: u64, i: usize, tier: &str, focus: &str) -> (Cfg, Vec<String>) {
  let mut rng = Rng::new(seed.wrapping_mul(1_000_003).wrapping_add(i as u64).wrapping_add(match focus { "ttl" => 11, "capacity" => 22, "listener" => 33, "iter" => 44, "snapshot" => 55, "register" => 66, _ => 0 } << 40));
  let unbounded = match focus { "ttl" => rng.chance(2, 3), "capacity" => false, "listener" => rng.chance(1, 5), _ => rng.chance(1, 3) };
  let shards = *rng.pick(&[1usize, 1, 2, 2, 8]);
  let cap = if unbounded { None } else { Some(*rng.pick(&[1u64, 2, 3, 4, 5, 6, 8, 10, 16])) };
  let policy = if unbounded { "null".to_string() } else { POLICIES[i % POLICIES.len()].to_string() };
  let timed = match focus { "ttl" => true, "capacity" => rng.chance(1, 4), _ => rng.chance(1, 2) };
  let ttl = if timed && rng.chance(3, 4) { Some(*rng.pick(&[500u64, 1000, 1500, 2000, 3000, 4500])) } else { None };
  let tti = if timed && rng.chance(2, 5) { Some(*rng.pick(&[500u64, 1000, 2000, 2500])) } else { None };
  let swr = if ttl.is_some() && rng.chance(1, 3) { Some(*rng.pick(&[500u64, 1000, 2000])) } else { None };
  let lis = match focus { "listener" => true, "iter" | "snapshot" => rng.chance(1, 5), _ => rng.chance(1, 3) };
  let moi = !lis && rng.chance(1, 6);
  let cfg = Cfg { policy, pcap: cap.map(|c| (c + shards as u64 - 1) / shards as u64).unwrap_or(0), cap, shards, ttl, tti, swr,
    wheel: *rng.pick(&[2usize, 3, 4, 8, 60]), tick: *rng.pick(&[1000u64, 1000, 1000, 2000]), mc_always: rng.chance(1, 2), moi, lis, t0: 1_000_000, async_loader: rng.chance(1, 4),
    nkeys: if tti.is_some() { *rng.pick(&[3u64, 5, 8, 10]) } else { *rng.pick(&[3u64, 5, 8, 12]) } };
  let nkeys = cfg.nkeys;
  if (focus == "iter" || focus == "snapshot") && rng.chance(1, 8) {
    // sizes around the default batch size (64·k ± 1), several shards, some entries expiring: few, large operations
    let mut cfg = cfg.clone();
    cfg.nkeys = *rng.pick(&[63u64, 64, 65, 127, 128, 129, 130]);
    if let Some(c) = cfg.cap { if rng.chance(2, 3) { cfg.cap = Some(c + 200); cfg.pcap = (c + 200 + cfg.shards as u64 - 1) / cfg.shards as u64; } }
    if cfg.tti.is_some() { cfg.tti = None; }
    let mut ops: Vec<String> = vec![];
    let mut vid = 1000u64;
    let all: Vec<String> = (0..cfg.nkeys).map(|k| { vid += 1; format!("{k}:{vid}:1") }).collect();
    let split = rng.range(1, cfg.nkeys - 1) as usize;
    ops.push(format!("multi_insert {}", all[..split].join(",")));
    if cfg.ttl.is_some() { ops.push(format!("advance {}", *rng.pick(&[1u64, 500, 1000]))); }
    ops.push(format!("{}multi_insert {}", if !cfg.mc_always && rng.chance(1, 2) { "a." } else { "" }, all[split..].join(",")));
    for _ in 0..rng.below(4) { ops.push(format!("remove {}", rng.below(cfg.nkeys))); }
    if rng.chance(1, 2) { ops.push("maint".into()); }
    if let Some(t) = cfg.ttl { if rng.chance(1, 2) { ops.push(format!("advance {}", t - *rng.pick(&[0u64, 1, 500]))); } }
    let a = |r: &mut Rng| if !cfg.mc_always && r.chance(1, 2) { "a." } else { "" };
    ops.push(format!("{}iter 64", a(&mut rng)));
    ops.push(format!("{}iter {}", a(&mut rng), *rng.pick(&[1u64, 7, 32, 63, 64, 65, 128])));
    ops.push(format!("{}iter 64 {}:{}", a(&mut rng), *rng.pick(&[0u64, 1, 63, 64, 65]), *rng.pick(&[1u64, 500, 1000, 3000])));
    if focus == "iter" || rng.chance(1, 3) { let nk = cfg.nkeys; stream_script(&mut rng, &cfg, nk, &[64, 64, 63, 32, 7, 128], &mut ops); }
    ops.push(format!("{}iter_snapshot", a(&mut rng)));
    ops.push(format!("{}snapshot", a(&mut rng)));
    if rng.chance(1, 2) { ops.push("advance 500".into()); }
    ops.push("restore".into());
    ops.push("iter 64".into()); ops.push("cost".into()); ops.push("maint".into()); ops.push("iter_snapshot".into()); ops.push("cost".into());
    return (cfg, ops);
  }
  if focus == "iter" && rng.chance(1, 5) {
    // the async stream with contended refills: a populated cache (several shards, a few entries with their own, possibly
    // already passed, deadline), then several hand-polled streams with different batch sizes and lock positions
    let mut cfg = cfg.clone();
    cfg.shards = *rng.pick(&[1usize, 2, 4, 8, 8]);
    if let Some(c) = cfg.cap { cfg.cap = Some(c + 20); cfg.pcap = (c + 20 + cfg.shards as u64 - 1) / cfg.shards as u64; }
    cfg.nkeys = *rng.pick(&[4u64, 6, 9, 12, 20]);
    let nk = cfg.nkeys;
    let mut ops: Vec<String> = vec![];
    let mut vid = 500u64;
    for k in 0..nk { if rng.chance(4, 5) { vid += 1;
      if rng.chance(1, 5) { ops.push(format!("insert_ttl {k} {vid} 1 {}", *rng.pick(&[400u64, 1000, 3000]))); } else { ops.push(format!("{}insert {k} {vid} 1", if !cfg.mc_always && rng.chance(1, 3) { "a." } else { "" })); } } }
    if rng.chance(1, 2) { ops.push("maint".into()); }
    if rng.chance(1, 2) { ops.push(format!("advance {}", *rng.pick(&[1u64, 400, 500, 1000]))); }
    for _ in 0..rng.range(1, 3) {
      stream_script(&mut rng, &cfg, nk, &[1, 1, 2, 2, 3, 4, 5, 64], &mut ops);
      if rng.chance(1, 3) { ops.push(format!("remove {}", rng.below(nk))); }
      if rng.chance(1, 4) { ops.push(format!("advance {}", *rng.pick(&[500u64, 1000]))); }
    }
    ops.push("iter 64".into()); ops.push("cost".into());
    return (cfg, ops);
  }
  if focus == "snapshot" && rng.chance(1, 5) {
    // serialisation round trip of a snapshot whose entries have NO deadline / a mix: no cache-wide ttl, plain inserts
    // next to a few `insert_with_ttl`
    let mut cfg = cfg.clone();
    cfg.ttl = None; cfg.swr = None; if rng.chance(2, 3) { cfg.tti = None; }
    if let Some(c) = cfg.cap { cfg.cap = Some(c + 12); cfg.pcap = (c + 12 + cfg.shards as u64 - 1) / cfg.shards as u64; }
    let nk = cfg.nkeys;
    let mut ops: Vec<String> = vec![];
    let mut vid = 700u64;
    let with_ttl = rng.below(3);   // 0: no entry has a deadline, otherwise about every third has its own
    for k in 0..nk { if k == 0 || rng.chance(3, 4) { vid += 1; let c = rng.range(1, 3);
      if with_ttl > 0 && rng.chance(1, 3) { ops.push(format!("insert_ttl {k} {vid} {c} {}", *rng.pick(&[500u64, 1500, 3000, 5000]))); } else { ops.push(format!("insert {k} {vid} {c}")); } } }
    if rng.chance(1, 2) { ops.push("maint".into()); }
    if rng.chance(1, 3) { ops.push(format!("advance {}", *rng.pick(&[1u64, 400, 1000]))); }
    ops.push(format!("{}snapshot", if !cfg.mc_always && rng.chance(1, 3) { "a." } else { "" }));
    if rng.chance(1, 2) { ops.push("advance 500".into()); }
    ops.push("restore".into()); ops.push("iter 64".into()); ops.push("snapshot".into()); ops.push("cost".into());
    for k in 0..nk { ops.push(format!("peek {k}")); }
    return (cfg, ops);
  }
  let len = if tier == "thorough" { rng.range(6, 90) } else { rng.range(5, 45) } as usize;
  let mut g = Gen { rng, vid: 100, nkeys, now: cfg.t0, deadlines: vec![], cfg: cfg.clone(), ops: vec![], held: false, gate: false, snap: false };
  for _ in 0..len { g.step(focus); }
  if g.gate { g.ops.push("gate open".into()); }
  // closing observations: final maintenance, accounting, enumeration, raw reads of every key
  g.ops.push("maint".into()); g.ops.push("cost".into()); g.ops.push("iter 64".into());
  for k in 0..nkeys { g.ops.push(format!("peek {k}")); }
  (cfg, g.ops)
}


// ------------------------------------------------------------------ real-thread stress (C11/C13/C16, best effort)
/// Several threads hammer one cache (no TTL, janitor at 1 ms, opportunistic maintenance on) with
/// uniquely tagged writes; every call is bracketed by two ticks of a global logical clock and the
/// recorded history is checked against the per-key register semantics with real-time order:
/// a read may return nothing, or a value written to THAT key that was not definitely overwritten
/// or removed before the read began; a value is consumed by at most one successful compute (no
/// lost read-modify-write); in an unbounded cache `or_insert` inserts at most once between
/// removals, `current_cost` equals the resident cost at quiescence, and notifications are
/// distinct, name real bindings and (Invalidated) match the successful removals.
#[derive(Clone, Debug)]
struct Ev { inv: u64, res: u64, kind: u8, key: u64, wrote: Option<u64>, got: Option<u64>, ok: bool }
const K_READ: u8 = 0; const K_WRITE: u8 = 1; const K_REMOVE: u8 = 2; const K_COMPUTE: u8 = 3; const K_ORINS: u8 = 4; const K_CLEAR: u8 = 5;

fn stress_case(id: &str, seed: u64) -> String {
  let mut rng = Rng::new(seed);
  let unbounded = rng.chance(1, 2);
  let shards = *rng.pick(&[1usize, 2, 8]);
  let cap = if unbounded { None } else { Some(*rng.pick(&[3u64, 5, 8])) };
  let policy = if unbounded { "null".to_string() } else { rng.pick(&POLICIES).to_string() };
  let cfg = Cfg { policy, pcap: cap.map(|c| (c + shards as u64 - 1) / shards as u64).unwrap_or(0), cap, shards, ttl: None, tti: None, swr: None, wheel: 60, tick: 1000,
    mc_always: true, moi: false, lis: true, t0: 1_000_000, nkeys: *rng.pick(&[2u64, 4, 6]), async_loader: false };
  let mut tr = Tr::new(id, &format!("stress {}", cfg.header()));
  verif_clock::freeze_at(cfg.t0 * 1_000_000);
  // like `build`, but with a live janitor (1 ms) and a probabilistic opportunistic hook
  let ms = Duration::from_millis;
  let lis = Arc::new(Lis::default());
  let mut b = CacheBuilder::<u64, u64, IdHash>::new().hasher(IdHash).shards(cfg.shards).janitor_tick_interval(ms(1))
    .maintenance_chance(*rng.pick(&[1u32, 2, 16])).eviction_listener(RecListener(lis.clone())).loader(|k: u64| (u64::MAX - k, 1));
  b = match cfg.cap { Some(c) => b.capacity(c), None => b.unbounded() };
  let (name, pcap) = (cfg.policy.clone(), cfg.pcap);
  b = b.cache_policy_factory(move || mk_policy(&name, pcap));
  let cache: C = b.build().expect("build");
  let clock = Arc::new(AtomicU64::new(1));
  let nthreads = *rng.pick(&[2usize, 3, 4]);
  let nops = *rng.pick(&[60usize, 200, 400]);
  let nkeys = cfg.nkeys;
  let mut handles = vec![];
  for tid in 0..nthreads {
    let (c, clock, mut r) = (cache.clone(), clock.clone(), rng.fork());
    handles.push(std::thread::spawn(move || {
      let ac = c.to_async();
      let mut evs: Vec<Ev> = Vec::with_capacity(nops);
      let mut ctr = 0u64;
      for _ in 0..nops {
        let k = r.below(nkeys);
        ctr += 1; let vid = (tid as u64 + 1) * 1_000_000 + ctr;
        let op = *r.weighted(&[(30u32, 0u8), (8, 1), (25, 2), (8, 3), (10, 4), (10, 5), (1, 6), (2, 7), (4, 8), (2, 9)]);
        let inv = clock.fetch_add(1, Ordering::SeqCst);
        let mut e = Ev { inv, res: 0, kind: K_READ, key: k, wrote: None, got: None, ok: true };
        let asy = r.chance(1, 4);
        match op {
          0 => e.got = if asy { bo(ac.fetch(&k)).map(|a| *a) } else { c.get(&k, |v| *v) },
          1 => e.got = c.peek(&k).map(|a| *a),
          2 => { let cost = r.range(0, 3); if asy { bo(ac.insert(k, vid, cost)) } else { c.insert(k, vid, cost) } e.kind = K_WRITE; e.wrote = Some(vid); e.got = Some(cost); }
          3 => { e.kind = K_REMOVE; e.got = if asy { bo(ac.remove(&k)).map(|a| *a) } else { c.remove(&k).map(|a| *a) }; }
          4 => { e.kind = K_COMPUTE; match c.compute_val(&k, |x| { let old = *x; *x = vid; old }) { ComputeResult::Ok(old) => { e.got = Some(old); e.wrote = Some(vid); } _ => e.ok = false } }
          5 => { e.kind = K_ORINS; let g = *c.entry(k).or_insert(vid, 1); e.got = Some(g); if g == vid { e.wrote = Some(vid); } }
          6 => { e.kind = K_CLEAR; c.clear(); }
          7 => { c.run_maintenance(); e.ok = false; }
          8 => { e.ok = false; for (kk, v) in c.iter_with_batch_size(2) { let t = clock.load(Ordering::SeqCst); evs.push(Ev { inv, res: t, kind: K_READ, key: kk, wrote: None, got: Some(*v), ok: true }); } }
          _ => { e.kind = K_REMOVE; let ok = c.invalidate(&k); e.ok = ok; e.got = None; if !ok { e.kind = K_REMOVE; } }
        }
        e.res = clock.fetch_add(1, Ordering::SeqCst);
        if e.ok || e.kind == K_REMOVE || e.kind == K_CLEAR { evs.push(e); }
      }
      evs
    }));
  }
  let mut evs: Vec<Ev> = vec![];
  for h in handles { evs.extend(h.join().expect("stress thread")); }
  // quiesce: let the janitor and a few explicit passes run, then observe
  for _ in 0..40 { cache.run_maintenance(); }
  std::thread::sleep(ms(5));
  let mut fails: Vec<(String, String)> = vec![];
  let mut fail = |s: &str, m: String| { if !fails.iter().any(|f| f.0 == s) { fails.push((s.to_string(), m)); } };
  // index writes
  let mut wr: HashMap<u64, &Ev> = HashMap::new(); // vid -> the call that wrote it
  let mut cost_of: HashMap<u64, u64> = HashMap::new();
  for e in &evs { if let Some(v) = e.wrote { wr.insert(v, e); cost_of.insert(v, if e.kind == K_WRITE { e.got.unwrap_or(1) } else { 1 }); } }
  // a compute keeps the entry's cost: the cost of a computed value is the cost of the value it replaced
  let mut changed = true; while changed { changed = false; for e in &evs { if e.kind == K_COMPUTE { if let (Some(n), Some(o)) = (e.wrote, e.got) { let c = cost_of.get(&o).copied().unwrap_or(1); if cost_of.get(&n) != Some(&c) { cost_of.insert(n, c); changed = true; } } } } }
  let mutators: Vec<&Ev> = evs.iter().filter(|e| e.kind != K_READ).collect();
  let check_read = |key: u64, v: u64, r_inv: u64, r_res: u64, what: &str, fail: &mut dyn FnMut(&str, String)| {
    match wr.get(&v) {
      None => { if v != u64::MAX - key { fail("stress:read-returns-value-never-written", format!("{what}({key}) returned {v}")); } }
      Some(w) if w.key != key => fail("stress:read-returns-another-keys-value", format!("{what}({key}) returned {v}, written to key {}", w.key)),
      Some(w) => {
        if w.inv > r_res { fail("stress:read-returns-value-from-the-future", format!("{what}({key}) returned {v}")); }
        if let Some(x) = mutators.iter().find(|x| (x.key == key || x.kind == K_CLEAR) && x.inv > w.res && x.res < r_inv && x.wrote != Some(v)
            && (x.wrote.is_some() || x.kind == K_CLEAR || x.kind == K_REMOVE)) {
          fail("stress:read-returns-overwritten-or-removed-value", format!("{what}({key}) [{r_inv},{r_res}] returned {v} written in [{},{}], but a later mutation of the key (kind {}) completed in [{},{}] before the read began", w.inv, w.res, x.kind, x.inv, x.res));
        }
      }
    }
  };
  let mut consumed: HashMap<u64, u64> = HashMap::new();
  for e in &evs {
    match e.kind {
      K_READ => if let Some(v) = e.got { check_read(e.key, v, e.inv, e.res, "read", &mut fail); },
      K_REMOVE => if let Some(v) = e.got { check_read(e.key, v, e.inv, e.res, "remove", &mut fail); },
      K_COMPUTE => if let Some(old) = e.got { check_read(e.key, old, e.inv, e.res, "compute", &mut fail);
        if let Some(prev) = consumed.insert(old, e.wrote.unwrap_or(0)) { fail("stress:compute-lost-update", format!("value {old} of key {} was replaced by two computes ({prev} and {:?})", e.key, e.wrote)); } },
      K_ORINS => if let (Some(g), None) = (e.got, e.wrote) { check_read(e.key, g, e.inv, e.res, "or_insert", &mut fail); },
      _ => {}
    }
  }
  if unbounded {
    // or_insert inserts at most once between removals
    let ins: Vec<&Ev> = evs.iter().filter(|e| e.kind == K_ORINS && e.wrote.is_some()).collect();
    for a in &ins { for b in &ins { if a.key == b.key && a.res < b.inv {
      let between = mutators.iter().any(|x| (x.key == a.key || x.kind == K_CLEAR) && (x.kind == K_REMOVE || x.kind == K_CLEAR) && x.res > a.inv && x.inv < b.res);
      if !between { fail("stress:or_insert-inserted-twice-without-removal", format!("key {}: or_insert inserted {:?} and later {:?} with no remove/clear in between", a.key, a.wrote, b.wrote)); } } } }
    // accounting at quiescence
    let resident: Vec<(u64, u64)> = cache.iter().map(|(k, v)| (k, *v)).collect();
    let sum: u64 = resident.iter().map(|(_, v)| cost_of.get(v).copied().unwrap_or(1)).sum();
    let cc = cache.metrics().current_cost;
    if cc != sum { fail("stress:accounting:current_cost-differs-from-resident-cost-at-quiescence", format!("current_cost {cc}, resident {:?} cost {sum}", resident)); }
  }
  // listener
  let t0 = Instant::now();
  let removed: Vec<(u64, u64)> = evs.iter().filter(|e| e.kind == K_REMOVE).filter_map(|e| e.got.map(|v| (e.key, v))).collect();
  while unbounded && removed.len() <= 100 && lis.count.load(Ordering::SeqCst) < removed.len() && t0.elapsed() < Duration::from_secs(3) { std::thread::sleep(ms(1)); }
  let notifs = lis.events.lock().unwrap().clone();
  let mut seen = BTreeSet::new();
  for (k, v, r) in &notifs {
    if !seen.insert(*v) { fail("stress:listener:duplicate-notification", format!("{k}:{v}:{r} delivered twice")); }
    match wr.get(v) { None => fail("stress:listener:notification-for-value-never-written", format!("{k}:{v}:{r}")),
      Some(w) if w.key != *k => fail("stress:listener:notification-pairs-value-with-wrong-key", format!("{k}:{v}:{r}, {v} was written to {}", w.key)), _ => {} }
    if *r == 'I' && !removed.contains(&(*k, *v)) && !evs.iter().any(|e| e.kind == K_REMOVE && e.key == *k && e.ok && e.got.is_none()) { fail("stress:listener:invalidated-without-a-remove-returning-it", format!("{k}:{v}")); }
    if *r == 'E' { fail("stress:listener:expired-reason-without-any-ttl", format!("{k}:{v}")); }
    if *r == 'C' && unbounded { fail("stress:listener:capacity-reason-in-unbounded-cache", format!("{k}:{v}")); }
  }
  if unbounded && removed.len() <= 100 {
    let missing: Vec<(u64, u64)> = removed.iter().filter(|(k, v)| !notifs.iter().any(|n| n.0 == *k && n.1 == *v && n.2 == 'I')).copied().collect();
    if !missing.is_empty() {
      // is it lost, or sitting in the queue because the parked notifier thread was not woken? poke the channel once more
      cache.insert(999_999, 1, 1); cache.remove(&999_999);
      let t1 = Instant::now();
      let arrived = |l: &Lis| { let ev = l.events.lock().unwrap(); missing.iter().all(|(k, v)| ev.iter().any(|n| n.0 == *k && n.1 == *v && n.2 == 'I')) };
      while !arrived(&lis) && t1.elapsed() < Duration::from_secs(2) { std::thread::sleep(ms(1)); }
      if arrived(&lis) { fail("stress:listener:notification-stuck-in-queue-until-next-send", format!("remove returned {:?}; their notifications were delivered only after a later, unrelated send woke the notifier thread (waited {:?} before)", missing, t0.elapsed())); }
      else { fail("stress:listener:remove-not-notified", format!("remove returned {:?}, no Invalidated notification even after a later send", missing)); }
    }
  }
  tr.raw(&format!("# threads={nthreads} ops/thread={nops} events={} notifications={}", evs.len(), notifs.len()));
  let only = std::env::var("VERIF_PROP").ok();
  for (s, m) in &fails { if only.as_deref().map_or(true, |p| p == prop_of(s)) { tr.monitor(s, &format!("[{}] {m}", prop_of(s))); } }
  tr.finish()
}

fn main() {
  let args: Vec<String> = std::env::args().collect();
  if args.get(1).map(|s| s.as_str()) == Some("genworker") {
    // genworker <seed> <tier> <focus> <lo> <hi>
    let seed: u64 = args[2].parse().unwrap(); let (tier, focus) = (args[3].clone(), args[4].clone());
    let (lo, hi): (usize, usize) = (args[5].parse().unwrap(), args[6].parse().unwrap());
    let mut out = String::new();
    for i in lo..hi { let (cfg, ops) = gen_case(seed, i, &tier, &focus); out.push_str(&run_case(&format!("{focus}.{seed}.{i}"), &cfg, &ops)); }
    print!("{out}");
    return;
  }
  if args.get(1).map(|s| s.as_str()) == Some("stress") {
    // stress <seed> <cases>
    let seed: u64 = args.get(2).and_then(|s| s.parse().ok()).unwrap_or(1); let n: usize = args.get(3).and_then(|s| s.parse().ok()).unwrap_or(50);
    for i in 0..n { print!("{}", stress_case(&format!("stress.{seed}.{i}"), seed.wrapping_mul(7919).wrapping_add(i as u64))); }
    return;
  }
  match parse_args() {
    Mode::Gen { seed, cases, tier, extra } => {
      let focus = extra.iter().find(|e| e.0 == "focus").map(|e| e.1.clone()).unwrap_or_else(|| "register".into());
      let workers: usize = extra.iter().find(|e| e.0 == "workers").and_then(|e| e.1.parse().ok()).unwrap_or(12).max(1);
      let exe = std::env::current_exe().expect("exe");
      // every dropped cache leaks its janitor/notifier threads until their process exits, so a worker
      // process handles at most 300 cases; at most `workers` processes run at a time, output stays in case order
      let chunk = ((cases + workers - 1) / workers).clamp(1, 300);
      let ranges: Vec<(usize, usize)> = (0..cases).step_by(chunk).map(|lo| (lo, (lo + chunk).min(cases))).collect();
      // workers write to files (a pipe would stall every worker but the one being read)
      let dir = exe.ancestors().nth(4).map(|p| p.join("cacheh-tmp")).unwrap_or_else(std::env::temp_dir).join(format!("{}", std::process::id()));
      std::fs::create_dir_all(&dir).expect("tmp dir");
      let spawn = |i: usize, r: &(usize, usize)| { let f = std::fs::File::create(dir.join(format!("{i}.tr"))).expect("tmp file");
        std::process::Command::new(&exe).args(["genworker", &seed.to_string(), &tier, &focus, &r.0.to_string(), &r.1.to_string()]).stdout(f).spawn().expect("spawn worker") };
      let mut bad = false;
      let mut running: VecDeque<(usize, std::process::Child)> = VecDeque::new();
      let mut next = 0usize;
      while next < ranges.len() || !running.is_empty() {
        while running.len() < workers && next < ranges.len() { running.push_back((next, spawn(next, &ranges[next]))); next += 1; }
        if let Some((i, mut k)) = running.pop_front() { if !k.wait().expect("worker").success() { bad = true; }
          let p = dir.join(format!("{i}.tr")); print!("{}", std::fs::read_to_string(&p).unwrap_or_default()); let _ = std::fs::remove_file(&p); }
      }
      let _ = std::fs::remove_dir(&dir);
      if bad { eprintln!("a worker process failed"); std::process::exit(3); }
    }
    Mode::Run { file } => {
      for c in read_cases(&file) {
        let cfg = Cfg::parse(&c.header);
        print!("{}", run_case(&c.id, &cfg, &c.ops));
      }
    }
  }
}
