//! T3 harness for C15 (loader single-flight): runs the REAL `Cache::fetch_with` of fibre_cache on real
//! threads under a baton-passing scheduler installed through the `verif_sched` hook (yield points
//! between the critical sections of the loader protocol), under chosen interleavings, and prints the
//! step sequence for the Lean loader engine (`fvdrv_loader`), plus property monitors.
//!
//! Transcript: `#case <id> callers=<n> grace=<0|1> ttl=<0|1> strategy=<..>`, then `P <tid> <ops;...>`
//! (programs), `S <decisions>` (schedule actually taken), then one line per protocol step
//! `<tid> <label> [arg] => <outcome>`, `X <status>`.
use fibre_cache::verif_sched::{self, SchedHook};
use fibre_cache::{verif_clock, CacheBuilder};
use std::collections::{BTreeMap, HashMap};
use std::sync::atomic::{AtomicU64, Ordering};
use std::sync::{Arc, Condvar, Mutex};
use std::thread::ThreadId;
use std::time::Duration;
use vcommon::*;

const TTL_NS: u64 = 1_000;
const GRACE_NS: u64 = 1_000;

#[derive(Clone, Debug, PartialEq)]
enum Status { Running, AtPoint, Parked { woken: bool }, Finished }

struct Th { status: Status, last: &'static str, token: bool, spawned_in_step: bool }

struct Inner {
  tids: HashMap<ThreadId, usize>,
  th: Vec<Th>,
  baton: Option<usize>,
  expected_threads: usize,
  log: Vec<String>,
  decisions: Vec<usize>,
  active: bool,
}

struct Sched { m: Mutex<Inner>, cv: Condvar }

impl Sched {
  fn me(&self, g: &Inner) -> Option<usize> { g.tids.get(&std::thread::current().id()).copied() }

  /// Called by a thread arriving at a yield point: log the step it just finished, hand the baton back,
  /// wait until scheduled again.
  fn arrive(&self, label: &'static str, step: Option<String>) {
    let mut g = self.m.lock().unwrap();
    if !g.active { return; }
    let me = match self.me(&g) { Some(t) => t, None => return };
    if let Some(s) = step { g.log.push(format!("{me} {s}")); }
    g.th[me].last = label;
    g.th[me].status = Status::AtPoint;
    g.th[me].spawned_in_step = false;
    if g.baton == Some(me) { g.baton = None; }
    self.cv.notify_all();
    while g.active && g.baton != Some(me) { g = self.cv.wait(g).unwrap(); }
    g.th[me].status = Status::Running;
  }
}

/// The protocol step that lies between two consecutive points of one thread.
fn step_between(prev: &str, now: &str) -> Option<String> {
  Some(match (prev, now) {
    ("fetch_with:before_map_read", "load:before_pending_lock") => "mapRead => miss".into(),
    ("load:before_pending_lock", "load:leader_before_spawn") => "pendingCS => leader".into(),
    ("load:before_pending_lock", "load:joined_before_future_lock") => "pendingCS => join".into(),
    ("load:leader_before_spawn", "load:leader_before_future_lock") => "spawn => -".into(),
    ("loader:before_map_insert", "loader:before_pending_remove") => "mapInsert => -".into(),
    ("loader:before_pending_remove", "loader:before_complete") => "pendRemove => -".into(),
    ("loader:before_complete", "loader:done") => "complete => -".into(),
    _ => return None,
  })
}

struct Hook { s: Arc<Sched>, loads: Arc<AtomicU64> }

impl SchedHook for Hook {
  fn point(&self, label: &'static str) {
    let s = &self.s;
    if label == "loader:before_load" {
      // a freshly spawned loader thread registers itself; ids follow spawn order because the
      // scheduler lets nobody run until every expected thread has arrived
      let mut g = s.m.lock().unwrap();
      if !g.active { return; }
      let tid = g.th.len();
      g.tids.insert(std::thread::current().id(), tid);
      g.th.push(Th { status: Status::Running, last: "", token: false, spawned_in_step: false });
      drop(g);
      s.arrive(label, None);
      return;
    }
    let prev = { let g = s.m.lock().unwrap(); match s.me(&g) { Some(t) => g.th[t].last, None => return } };
    let step = if label == "loader:before_map_insert" {
      Some(format!("load => {}", self.loads.load(Ordering::SeqCst)))
    } else { step_between(prev, label) };
    s.arrive(label, step);
    if label == "loader:done" {
      let mut g = s.m.lock().unwrap();
      if let Some(me) = s.me(&g) { g.th[me].status = Status::Finished; if g.baton == Some(me) { g.baton = None; } }
      s.cv.notify_all();
    }
  }
  fn on_spawn(&self) {
    let mut g = self.s.m.lock().unwrap();
    if !g.active { return; }
    g.expected_threads += 1;
    if let Some(me) = self.s.me(&g) { g.th[me].spawned_in_step = true; }
  }
  fn before_park(&self) {
    let s = &self.s;
    let mut g = s.m.lock().unwrap();
    if !g.active { return; }
    let me = match s.me(&g) { Some(t) => t, None => return };
    g.log.push(format!("{me} futCS => wait"));
    g.th[me].last = "park";
    let woken = g.th[me].token;
    g.th[me].status = Status::Parked { woken };
    if g.baton == Some(me) { g.baton = None; }
    s.cv.notify_all();
  }
  fn after_park(&self) {
    let s = &self.s;
    let step = {
      let mut g = s.m.lock().unwrap();
      if !g.active { return; }
      let me = match s.me(&g) { Some(t) => t, None => return };
      let had = g.th[me].token;
      g.th[me].token = false;
      if had { "park => -" } else { "spurious => -" }
    };
    // the woken thread runs concurrently with its waker until here; its `park` step is logged only
    // once it is scheduled again, so the log stays in step order
    s.arrive("after_park", None);
    let mut g = s.m.lock().unwrap();
    if let Some(me) = s.me(&g) { g.log.push(format!("{me} {step}")); }
  }
  fn on_unpark(&self, target: ThreadId) {
    let mut g = self.s.m.lock().unwrap();
    if !g.active { return; }
    if let Some(&t) = g.tids.get(&target) {
      g.th[t].token = true;
      if let Status::Parked { .. } = g.th[t].status { g.th[t].status = Status::Parked { woken: true }; }
    }
  }
}

#[derive(Clone)]
enum Strategy { Random(u64), Explicit(Vec<usize>), Prefix(Vec<usize>) }

struct Outcome { transcript: String, choice_points: Vec<(usize, Vec<usize>)>, monitor_sigs: Vec<String> }

/// ops: `fetch k`, `invalidate k`, `advance d`
fn run_case(id: &str, programs: &[Vec<String>], grace: bool, ttl: bool, strat: Strategy, strat_name: &str) -> Outcome {
  verif_clock::freeze_at(1);
  let loads = Arc::new(AtomicU64::new(0));
  let loads_by_key: Arc<Mutex<Vec<u64>>> = Arc::new(Mutex::new(vec![]));
  let lk = loads_by_key.clone();
  let lc = loads.clone();
  let mut b = CacheBuilder::<u64, u64>::default().shards(2).janitor_tick_interval(Duration::from_secs(3600));
  if ttl { b = b.time_to_live(Duration::from_nanos(TTL_NS)); }
  if ttl && grace { b = b.stale_while_revalidate(Duration::from_nanos(GRACE_NS)); }
  let cache = Arc::new(
    b.loader(move |k: u64| { let v = lc.fetch_add(1, Ordering::SeqCst) + 1; lk.lock().unwrap().push(k); (v, 1) })
      .build()
      .expect("build cache"),
  );
  let n = programs.len();
  let sched = Arc::new(Sched {
    m: Mutex::new(Inner {
      tids: HashMap::new(),
      th: (0..n).map(|_| Th { status: Status::Running, last: "", token: false, spawned_in_step: false }).collect(),
      baton: None, expected_threads: n, log: vec![], decisions: vec![], active: true,
    }),
    cv: Condvar::new(),
  });
  verif_sched::install(Arc::new(Hook { s: sched.clone(), loads: loads.clone() }));

  let mut handles = vec![];
  for (t, prog) in programs.iter().enumerate() {
    let (cache, sched, prog) = (cache.clone(), sched.clone(), prog.clone());
    handles.push(std::thread::spawn(move || {
      { let mut g = sched.m.lock().unwrap(); g.tids.insert(std::thread::current().id(), t); }
      sched.arrive("start", None);
      for op in &prog {
        let w: Vec<&str> = op.split_whitespace().collect();
        let k: u64 = w.get(1).and_then(|x| x.parse().ok()).unwrap_or(0);
        match w[0] {
          "fetch" => {
            // `call` is logged when the thread is first scheduled inside fetch_with
            { let mut g = sched.m.lock().unwrap(); g.log.push(format!("{t} call {k} => -")); }
            let v = cache.fetch_with(&k);
            let mut g = sched.m.lock().unwrap();
            let last = g.th[t].last;
            let spawned = g.th[t].spawned_in_step;
            let line = if last == "fetch_with:before_map_read" {
              format!("{t} mapRead => hit {}{}", *v, if spawned { " refresh" } else { "" })
            } else { format!("{t} futCS => done {}", *v) };
            g.log.push(line);
            g.th[t].last = "returned";
            drop(g);
            sched.arrive("op", None);
          }
          "invalidate" => {
            cache.invalidate(&k);
            { let mut g = sched.m.lock().unwrap(); g.log.push(format!("{t} invalidate {k} => -")); }
            sched.arrive("op", None);
          }
          "advance" => {
            verif_clock::advance(k);
            { let mut g = sched.m.lock().unwrap(); g.log.push(format!("{t} advance {k} => -")); }
            sched.arrive("op", None);
          }
          _ => {}
        }
      }
      let mut g = sched.m.lock().unwrap();
      g.th[t].status = Status::Finished;
      if g.baton == Some(t) { g.baton = None; }
      sched.cv.notify_all();
    }));
  }

  // ---- scheduler loop (this thread)
  let mut rng = match &strat { Strategy::Random(s) => Rng::new(*s), _ => Rng::new(0) };
  let mut choice_points = vec![];
  let mut status = "ok".to_string();
  let mut step_no = 0usize;
  loop {
    let mut g = sched.m.lock().unwrap();
    // wait until nobody is running: baton free, all expected threads registered, every thread settled
    let deadline = std::time::Instant::now() + Duration::from_secs(5);
    loop {
      let settled = g.baton.is_none()
        && g.th.len() == g.expected_threads
        && g.tids.len() >= g.th.len()
        && g.th.iter().all(|t| matches!(t.status, Status::AtPoint | Status::Finished | Status::Parked { woken: false }));
      if settled { break; }
      let (g2, to) = sched.cv.wait_timeout(g, Duration::from_millis(50)).unwrap();
      g = g2;
      if to.timed_out() && std::time::Instant::now() > deadline { status = "stuck".into(); break; }
    }
    if status == "stuck" { g.active = false; sched.cv.notify_all(); break; }
    let runnable: Vec<usize> = g.th.iter().enumerate().filter(|(_, t)| t.status == Status::AtPoint).map(|(i, _)| i).collect();
    if runnable.is_empty() {
      let parked: Vec<usize> = g.th.iter().enumerate().filter(|(_, t)| matches!(t.status, Status::Parked { .. })).map(|(i, _)| i).collect();
      if !parked.is_empty() { status = format!("deadlock:{}", parked.iter().map(|x| x.to_string()).collect::<Vec<_>>().join(",")); g.active = false; sched.cv.notify_all(); }
      break;
    }
    let pick = match &strat {
      Strategy::Random(_) => *rng.pick(&runnable),
      Strategy::Explicit(v) => match v.get(step_no) { Some(t) if runnable.contains(t) => *t, _ => runnable[0] },
      Strategy::Prefix(v) => match v.get(step_no) { Some(t) if runnable.contains(t) => *t, _ => runnable[0] },
    };
    if runnable.len() > 1 { choice_points.push((step_no, runnable.clone())); }
    g.decisions.push(pick);
    g.baton = Some(pick);
    g.th[pick].status = Status::Running;
    step_no += 1;
    sched.cv.notify_all();
    if step_no > 2000 { status = "budget".into(); g.active = false; sched.cv.notify_all(); break; }
  }
  let finished_ok = status == "ok";
  if finished_ok { for h in handles { let _ = h.join(); } }
  // loader threads exit on their own after "loader:done"
  verif_sched::uninstall();
  let g = sched.m.lock().unwrap();

  // ---- transcript + monitors
  let mut tr = Tr::new(id, &format!("callers={n} grace={} ttl={} strategy={strat_name}", grace as u8, ttl as u8));
  for (t, p) in programs.iter().enumerate() { tr.raw(&format!("P {t} {}", p.join(" ; "))); }
  tr.raw(&format!("S {}", g.decisions.iter().map(|d| d.to_string()).collect::<Vec<_>>().join(",")));
  let mut sigs = vec![];
  // monitor state: per key: resident generation open?  loads in the current miss generation
  let mut gen_loads: BTreeMap<u64, u32> = BTreeMap::new();
  let mut loaded_vals: BTreeMap<u64, Vec<u64>> = BTreeMap::new(); // key -> values produced by loads
  let mut resident: BTreeMap<u64, (u64, u64)> = BTreeMap::new(); // key -> (value, expires_at)
  let mut now = 1u64;
  let mut cur_key: HashMap<usize, u64> = HashMap::new(); // thread -> key of its current fetch / load
  let keys_loaded = loads_by_key.lock().unwrap().clone();
  let mut load_idx = 0usize;
  let mut out_lines: Vec<String> = vec![];
  for l in &g.log {
    let w: Vec<&str> = l.split_whitespace().collect();
    let t: usize = w[0].parse().unwrap_or(0);
    match w[1] {
      "call" => { cur_key.insert(t, w[2].parse().unwrap_or(0)); }
      "load" => {
        let k = keys_loaded.get(load_idx).copied().unwrap_or(0); load_idx += 1;
        cur_key.insert(t, k);
        let v: u64 = w[3].parse().unwrap_or(0);
        loaded_vals.entry(k).or_default().push(v);
        let c = gen_loads.entry(k).or_insert(0); *c += 1;
        if *c > 1 { sigs.push(("loader:second-load-in-one-miss-generation".to_string(), format!("key {k}: load #{} started although no invalidation/expiry happened since the previous load of this miss", *c))); }
      }
      "mapInsert" => { let k = cur_key[&t]; let v = *loaded_vals[&k].last().unwrap(); resident.insert(k, (v, if ttl { now + TTL_NS } else { u64::MAX })); }
      "invalidate" => { let k: u64 = w[2].parse().unwrap_or(0); resident.remove(&k); gen_loads.insert(k, 0); }
      "advance" => {
        let d: u64 = w[2].parse().unwrap_or(0);
        let new_now = now + d;
        let mut extra = vec![];
        for (k, (_, exp)) in resident.clone() {
          if exp == u64::MAX { continue; }
          let dead_at = if grace { exp + GRACE_NS } else { exp };
          if now < dead_at && dead_at <= new_now { extra.push(format!("{t} envInvalidate {k} => -")); resident.remove(&k); gen_loads.insert(k, 0); }
          else if now < exp && exp <= new_now { extra.push(format!("{t} envExpire {k} => -")); gen_loads.insert(k, 0); }
        }
        now = new_now;
        out_lines.push(l.clone());
        out_lines.extend(extra);
        continue;
      }
      "mapRead" | "futCS" if w.get(3) == Some(&"hit") || w.get(3) == Some(&"done") => {
        let k = cur_key.get(&t).copied().unwrap_or(0);
        let v: u64 = w[4].parse().unwrap_or(0);
        if !loaded_vals.get(&k).map_or(false, |vs| vs.contains(&v)) {
          sigs.push(("loader:fetch-returned-value-never-loaded-for-key".to_string(), format!("thread {t} fetch({k}) returned {v}")));
        }
      }
      _ => {}
    }
    out_lines.push(l.clone());
  }
  for l in &out_lines { tr.raw(l); }
  tr.raw(&format!("X {status}"));
  if status.starts_with("deadlock") || status == "stuck" {
    sigs.push(("loader:caller-never-returns".to_string(), format!("status {status}")));
  }
  sigs.sort(); sigs.dedup_by(|a, b| a.0 == b.0);
  for (s, m) in &sigs { tr.monitor(s, m); }
  Outcome { transcript: tr.finish(), choice_points, monitor_sigs: sigs.into_iter().map(|x| x.0).collect() }
}

fn gen_programs(rng: &mut Rng) -> (Vec<Vec<String>>, bool, bool) {
  let n = *rng.weighted(&[(5u32, 2usize), (4, 3), (1, 1)]);
  let ttl = rng.chance(1, 3);
  let grace = ttl && rng.chance(2, 3);
  let keys: Vec<u64> = if rng.chance(3, 4) { vec![7] } else { vec![7, 8] };
  let mut ps = vec![];
  for _ in 0..n {
    let len = rng.range(1, 3);
    let mut p = vec![];
    for _ in 0..len {
      let k = *rng.pick(&keys);
      let op = *rng.weighted(&[(12u32, "fetch"), (2, "invalidate"), (if ttl { 3 } else { 0 }, "advance")]);
      p.push(match op {
        "fetch" => format!("fetch {k}"),
        "invalidate" => format!("invalidate {k}"),
        _ => format!("advance {}", *rng.pick(&[TTL_NS / 2, TTL_NS, TTL_NS + GRACE_NS / 2, TTL_NS + GRACE_NS])),
      });
    }
    ps.push(p);
  }
  (ps, grace, ttl)
}

fn main() {
  match parse_args() {
    Mode::Gen { seed, cases, tier, extra } => {
      let dfs_budget: usize = extra.iter().find(|e| e.0 == "dfs").and_then(|e| e.1.parse().ok()).unwrap_or(if tier == "thorough" { 20000 } else { 1500 });
      let mut out = String::new();
      // 1. random programs x random schedules
      for i in 0..cases {
        let mut rng = Rng::new(seed.wrapping_mul(7919).wrapping_add(i as u64));
        let (ps, grace, ttl) = gen_programs(&mut rng);
        let s = rng.next();
        out.push_str(&run_case(&format!("r{seed}.{i}"), &ps, grace, ttl, Strategy::Random(s), "random").transcript);
      }
      // 2. exhaustive schedules (stateless DFS) for fixed tiny programs
      let fixed: Vec<(Vec<Vec<String>>, bool, bool)> = vec![
        (vec![vec!["fetch 7".into()], vec!["fetch 7".into()]], false, false),
        (vec![vec!["fetch 7".into()], vec!["fetch 7".into()], vec!["fetch 7".into()]], false, false),
        (vec![vec!["fetch 7".into(), "invalidate 7".into()], vec!["fetch 7".into()]], false, false),
        (vec![vec!["fetch 7".into(), "advance 1000".into(), "fetch 7".into()], vec!["fetch 7".into()]], true, true),
      ];
      for (pi, (ps, grace, ttl)) in fixed.iter().enumerate() {
        let mut total = 0usize;
        let mut stack: Vec<Vec<usize>> = vec![vec![]];
        let mut runs = 0usize;
        let mut complete = true;
        while let Some(prefix) = stack.pop() {
          if total >= dfs_budget / fixed.len() { complete = false; break; }
          let o = run_case(&format!("d{pi}.{runs}"), ps, *grace, *ttl, Strategy::Prefix(prefix.clone()), "dfs");
          runs += 1; total += 1;
          // the decisions actually taken: recover from the transcript's S line
          let taken: Vec<usize> = o.transcript.lines().find(|l| l.starts_with("S ")).map(|l| l[2..].split(',').filter_map(|x| x.parse().ok()).collect()).unwrap_or_default();
          for (pos, alts) in &o.choice_points {
            if *pos < prefix.len() { continue; }
            for a in alts { if Some(a) != taken.get(*pos) { let mut p: Vec<usize> = taken[..*pos].to_vec(); p.push(*a); stack.push(p); } }
          }
          out.push_str(&o.transcript);
          let _ = &o.monitor_sigs;
        }
        out.push_str(&format!("# dfs program {pi}: {runs} schedules, complete={complete}\n"));
      }
      print!("{out}");
    }
    Mode::Run { file } => {
      let text = std::fs::read_to_string(&file).expect("read");
      let mut cur: Option<(String, Vec<String>, BTreeMap<usize, Vec<String>>, Vec<usize>)> = None;
      let mut flush = |c: Option<(String, Vec<String>, BTreeMap<usize, Vec<String>>, Vec<usize>)>| {
        if let Some((id, header, progs, sched)) = c {
          let grace = kv(&header, "grace") == Some("1");
          let ttl = kv(&header, "ttl") == Some("1");
          let ps: Vec<Vec<String>> = progs.into_values().collect();
          print!("{}", run_case(&id, &ps, grace, ttl, Strategy::Explicit(sched), "replay").transcript);
        }
      };
      for l in text.lines() {
        let l = l.trim();
        if let Some(rest) = l.strip_prefix("#case ") {
          flush(cur.take());
          let mut t = rest.split_whitespace().map(|s| s.to_string());
          let id = t.next().unwrap_or_default();
          cur = Some((id, t.collect(), BTreeMap::new(), vec![]));
        } else if let Some(rest) = l.strip_prefix("P ") {
          if let Some(c) = cur.as_mut() {
            let (tid, ops) = rest.split_once(' ').unwrap_or((rest, ""));
            c.2.insert(tid.parse().unwrap_or(0), ops.split(" ; ").map(|s| s.trim().to_string()).filter(|s| !s.is_empty()).collect());
          }
        } else if let Some(rest) = l.strip_prefix("S ") {
          if let Some(c) = cur.as_mut() { c.3 = rest.split(',').filter_map(|x| x.trim().parse().ok()).collect(); }
        } else if l.starts_with("#end") { flush(cur.take()); }
      }
      flush(cur.take());
    }
  }
}
