//! T3 harness for C15 (loader single-flight): runs the REAL `Cache::fetch_with` of fibre_cache on real
//! threads under a baton-passing scheduler installed through the `verif_sched` hook (yield points
//! between the critical sections of the loader protocol), under chosen interleavings, and prints the
//! step sequence for the Lean loader engine (`fvdrv_loader`), plus property monitors.
//!
//! Transcript: `#case <id> callers=<n> grace=<0|1> ttl=<0|1> strategy=<..>`, then `P <tid> <ops;...>`
//! (programs), `S <decisions>` (schedule actually taken), then one line per protocol step
//! `<tid> <label> [arg] => <outcome>`, `X <status>`.
use fibre_cache::verif_sched::{self, SchedHook};
use fibre_cache::{verif_clock, CacheBuilder};
use std::collections::{BTreeMap, HashMap};
use std::sync::atomic::{AtomicU64, Ordering};
use std::sync::{Arc, Condvar, Mutex};
use std::thread::ThreadId;
use std::time::Duration;
use vcommon::*;

const TTL_NS: u64 = 1_000;
const GRACE_NS: u64 = 1_000;

#[derive(Clone, Debug, PartialEq)]
enum Status { Running, AtPoint, Parked { woken: bool }, Finished }

struct Th { status: Status, last: &'static str, token: bool, spawned_in_step: bool }

struct Inner {
  tids: HashMap<ThreadId, usize>,
  th: Vec<Th>,
  baton: Option<usize>,
  expected_threads: usize,
  log: Vec<String>,
  decisions: Vec<usize>,
  active: bool,
}

struct Sched { m: Mutex<Inner>, cv: Condvar }

impl Sched {
  fn me(&self, g: &Inner) -> Option<usize> { g.tids.get(&std::thread::current().id()).copied() }

  /// Called by a thread arriving at a yield point: log the step it just finished, hand the baton back,
  /// wait until scheduled again.
  fn arrive(&self, label: &'static str, step: Option<String>) {
    let mut g = self.m.lock().unwrap();
    if !g.active { return; }
    let me = match self.me(&g) { Some(t) => t, None => return };
    if let Some(s) = step { g.log.push(format!("{me} {s}")); }
    g.th[me].last = label;
    g.th[me].status = Status::AtPoint;
    g.th[me].spawned_in_step = false;
    if g.baton == Some(me) { g.baton = None; }
    self.cv.notify_all();
    while g.active && g.baton != Some(me) { g = self.cv.wait(g).unwrap(); }
    g.th[me].status = Status::Running;
  }
}

/// The protocol step that lies between two consecutive points of one thread.
fn step_between(prev: &str, now: &str) -> Option<String> {
  Some(match (prev, now) {
    ("fetch_with:before_map_read", "load:before_pending_lock") => "mapRead => miss".into(),
    ("load:before_pending_lock", "load:leader_before_spawn") => "pendingCS => leader".into(),
    ("load:before_pending_lock", "load:joined_before_future_lock") => "pendingCS => join".into(),
    ("load:leader_before_spawn", "load:leader_before_future_lock") => "spawn => -".into(),
    ("loader:before_map_insert", "loader:before_pending_remove") => "mapInsert => -".into(),
    ("loader:before_pending_remove", "loader:before_complete") => "pendRemove => -".into(),
    ("loader:before_complete", "loader:done") => "complete => -".into(),
    _ => return None,
  })
}

struct Hook { s: Arc<Sched>, loads: Arc<AtomicU64> }

impl SchedHook for Hook {
  fn point(&self, label: &'static str) {
    let s = &self.s;
    // yield points of other paths (insert / remove / compute / entry / maintenance: the cacheconc tie's
    // labels) are not scheduling points of the loader protocol: those calls stay atomic here
    if !(label.starts_with("fetch_with:") || label.starts_with("load:") || label.starts_with("loader:")) { return; }
    if label == "loader:before_load" {
      // a freshly spawned loader thread registers itself; ids follow spawn order because the
      // scheduler lets nobody run until every expected thread has arrived
      let mut g = s.m.lock().unwrap();
      if !g.active { return; }
      let tid = g.th.len();
      g.tids.insert(std::thread::current().id(), tid);
      g.th.push(Th { status: Status::Running, last: "", token: false, spawned_in_step: false });
      drop(g);
      s.arrive(label, None);
      return;
    }
    let prev = { let g = s.m.lock().unwrap(); match s.me(&g) { Some(t) => g.th[t].last, None => return } };
    let step = if label == "loader:before_map_insert" {
      Some(format!("load => {}", self.loads.load(Ordering::SeqCst)))
    } else { step_between(prev, label) };
    s.arrive(label, step);
    if label == "loader:done" {
      let mut g = s.m.lock().unwrap();
      if let Some(me) = s.me(&g) { g.th[me].status = Status::Finished; if g.baton == Some(me) { g.baton = None; } }
      s.cv.notify_all();
    }
  }
  fn on_spawn(&self) {
    let mut g = self.s.m.lock().unwrap();
    if !g.active { return; }
    g.expected_threads += 1;
    if let Some(me) = self.s.me(&g) { g.th[me].spawned_in_step = true; }
  }
  fn before_park(&self) {
    let s = &self.s;
    let mut g = s.m.lock().unwrap();
    if !g.active { return; }
    let me = match s.me(&g) { Some(t) => t, None => return };
    g.log.push(format!("{me} futCS => wait"));
    g.th[me].last = "park";
    let woken = g.th[me].token;
    g.th[me].status = Status::Parked { woken };
    if g.baton == Some(me) { g.baton = None; }
    s.cv.notify_all();
  }
  fn after_park(&self) {
    let s = &self.s;
    let step = {
      let mut g = s.m.lock().unwrap();
      if !g.active { return; }
      let me = match s.me(&g) { Some(t) => t, None => return };
      let had = g.th[me].token;
      g.th[me].token = false;
      if had { "park => -" } else { "spurious => -" }
    };
    // the woken thread runs concurrently with its waker until here; its `park` step is logged only
    // once it is scheduled again, so the log stays in step order
    s.arrive("after_park", None);
    let mut g = s.m.lock().unwrap();
    if let Some(me) = s.me(&g) { g.log.push(format!("{me} {step}")); }
  }
  fn on_unpark(&self, target: ThreadId) {
    let mut g = self.s.m.lock().unwrap();
    if !g.active { return; }
    if let Some(&t) = g.tids.get(&target) {
      g.th[t].token = true;
      if let Status::Parked { .. } = g.th[t].status { g.th[t].status = Status::Parked { woken: true }; }
    }
  }
}

#[derive(Clone)]
enum Strategy { Random(u64), Explicit(Vec<usize>), Prefix(Vec<usize>) }

struct Outcome { transcript: String, choice_points: Vec<(usize, Vec<usize>)>, monitor_sigs: Vec<String> }

/// ops: `fetch k`, `invalidate k`, `advance d`
fn run_case(id: &str, programs: &[Vec<String>], grace: bool, ttl: bool, strat: Strategy, strat_name: &str) -> Outcome {
  verif_clock::freeze_at(1);
  let loads = Arc::new(AtomicU64::new(0));
  let loads_by_key: Arc<Mutex<Vec<u64>>> = Arc::new(Mutex::new(vec![]));
  let lk = loads_by_key.clone();
  let lc = loads.clone();
  let mut b = CacheBuilder::<u64, u64>::default().shards(2).janitor_tick_interval(Duration::from_secs(3600));
  if ttl { b = b.time_to_live(Duration::from_nanos(TTL_NS)); }
  if ttl && grace { b = b.stale_while_revalidate(Duration::from_nanos(GRACE_NS)); }
  let cache = Arc::new(
    b.loader(move |k: u64| { let v = lc.fetch_add(1, Ordering::SeqCst) + 1; lk.lock().unwrap().push(k); (v, 1) })
      .build()
      .expect("build cache"),
  );
  let n = programs.len();
  let sched = Arc::new(Sched {
    m: Mutex::new(Inner {
      tids: HashMap::new(),
      th: (0..n).map(|_| Th { status: Status::Running, last: "", token: false, spawned_in_step: false }).collect(),
      baton: None, expected_threads: n, log: vec![], decisions: vec![], active: true,
    }),
    cv: Condvar::new(),
  });
  verif_sched::install(Arc::new(Hook { s: sched.clone(), loads: loads.clone() }));

  let mut handles = vec![];
  for (t, prog) in programs.iter().enumerate() {
    let (cache, sched, prog) = (cache.clone(), sched.clone(), prog.clone());
    handles.push(std::thread::spawn(move || {
      { let mut g = sched.m.lock().unwrap(); g.tids.insert(std::thread::current().id(), t); }
      sched.arrive("start", None);
      for op in &prog {
        let w: Vec<&str> = op.split_whitespace().collect();
        let k: u64 = w.get(1).and_then(|x| x.parse().ok()).unwrap_or(0);
        match w[0] {
          "fetch" => {
            // `call` is logged when the thread is first scheduled inside fetch_with
            { let mut g = sched.m.lock().unwrap(); g.log.push(format!("{t} call {k} => -")); }
            let v = cache.fetch_with(&k);
            let mut g = sched.m.lock().unwrap();
            let last = g.th[t].last;
            let spawned = g.th[t].spawned_in_step;
            let line = if last == "fetch_with:before_map_read" {
              format!("{t} mapRead => hit {}{}", *v, if spawned { " refresh" } else { "" })
            } else { format!("{t} futCS => done {}", *v) };
            g.log.push(line);
            g.th[t].last = "returned";
            drop(g);
            sched.arrive("op", None);
          }
          "invalidate" => {
            cache.invalidate(&k);
            { let mut g = sched.m.lock().unwrap(); g.log.push(format!("{t} invalidate {k} => -")); }
            sched.arrive("op", None);
          }
          "advance" => {
            verif_clock::advance(k);
            { let mut g = sched.m.lock().unwrap(); g.log.push(format!("{t} advance {k} => -")); }
            sched.arrive("op", None);
          }
          _ => {}
        }
      }
      let mut g = sched.m.lock().unwrap();
      g.th[t].status = Status::Finished;
      if g.baton == Some(t) { g.baton = None; }
      sched.cv.notify_all();
    }));
  }

  // ---- scheduler loop (this thread)
  let mut rng = match &strat { Strategy::Random(s) => Rng::new(*s), _ => Rng::new(0) };
  let mut choice_points = vec![];
  let mut status = "ok".to_string();
  let mut step_no = 0usize;
  loop {
    let mut g = sched.m.lock().unwrap();
    // wait until nobody is running: baton free, all expected threads registered, every thread settled
    let deadline = std::time::Instant::now() + Duration::from_secs(90);
    loop {
      let settled = g.baton.is_none()
        && g.th.len() == g.expected_threads
        && g.tids.len() >= g.th.len()
        && g.th.iter().all(|t| matches!(t.status, Status::AtPoint | Status::Finished | Status::Parked { woken: false }));
      if settled { break; }
      let (g2, to) = sched.cv.wait_timeout(g, Duration::from_millis(50)).unwrap();
      g = g2;
      if to.timed_out() && std::time::Instant::now() > deadline { status = "stuck".into(); break; }
    }
    if status == "stuck" { g.active = false; sched.cv.notify_all(); break; }
    let runnable: Vec<usize> = g.th.iter().enumerate().filter(|(_, t)| t.status == Status::AtPoint).map(|(i, _)| i).collect();
    if runnable.is_empty() {
      let parked: Vec<usize> = g.th.iter().enumerate().filter(|(_, t)| matches!(t.status, Status::Parked { .. })).map(|(i, _)| i).collect();
      if !parked.is_empty() { status = format!("deadlock:{}", parked.iter().map(|x| x.to_string()).collect::<Vec<_>>().join(",")); g.active = false; sched.cv.notify_all(); }
      break;
    }
    let pick = match &strat {
      Strategy::Random(_) => *rng.pick(&runnable),
      Strategy::Explicit(v) => match v.get(step_no) { Some(t) if runnable.contains(t) => *t, _ => runnable[0] },
      Strategy::Prefix(v) => match v.get(step_no) { Some(t) if runnable.contains(t) => *t, _ => runnable[0] },
    };
    if runnable.len() > 1 { choice_points.push((step_no, runnable.clone())); }
    g.decisions.push(pick);
    g.baton = Some(pick);
    g.th[pick].status = Status::Running;
    step_no += 1;
    sched.cv.notify_all();
    if step_no > 2000 { status = "budget".into(); g.active = false; sched.cv.notify_all(); break; }
  }
  let finished_ok = status == "ok";
  if finished_ok { for h in handles { let _ = h.join(); } }
  // loader threads exit on their own after "loader:done"
  verif_sched::uninstall();
  let g = sched.m.lock().unwrap();

  // ---- transcript + monitors
  let mut tr = Tr::new(id, &format!("callers={n} grace={} ttl={} strategy={strat_name}", grace as u8, ttl as u8));
  for (t, p) in programs.iter().enumerate() { tr.raw(&format!("P {t} {}", p.join(" ; "))); }
  tr.raw(&format!("S {}", g.decisions.iter().map(|d| d.to_string()).collect::<Vec<_>>().join(",")));
  let mut sigs = vec![];
  // monitor state: per key: resident generation open?  loads in the current miss generation
  let mut gen_loads: BTreeMap<u64, u32> = BTreeMap::new();
  let mut in_flight: BTreeMap<u64, u32> = BTreeMap::new(); // key -> loads between `load` and `pendRemove`
  let mut invalidated_at: BTreeMap<u64, usize> = BTreeMap::new(); // key -> log index of the last invalidation
  let mut loaded_at: BTreeMap<u64, usize> = BTreeMap::new(); // value -> log index of its `load` step
  let mut call_at: HashMap<usize, usize> = HashMap::new(); // thread -> log index of its current `call`
  let mut li = 0usize;
  let mut completed_with_marker: std::collections::BTreeSet<u64> = Default::default(); // loader tids that completed before removing their marker
  let mut marker_removed: std::collections::BTreeSet<usize> = Default::default();
  let mut loaded_vals: BTreeMap<u64, Vec<u64>> = BTreeMap::new(); // key -> values produced by loads
  let mut resident: BTreeMap<u64, (u64, u64)> = BTreeMap::new(); // key -> (value, expires_at)
  let mut now = 1u64;
  let mut cur_key: HashMap<usize, u64> = HashMap::new(); // thread -> key of its current fetch / load
  let keys_loaded = loads_by_key.lock().unwrap().clone();
  let mut load_idx = 0usize;
  let mut out_lines: Vec<String> = vec![];
  for l in &g.log {
    li += 1;
    let w: Vec<&str> = l.split_whitespace().collect();
    let t: usize = w[0].parse().unwrap_or(0);
    match w[1] {
      "call" => { cur_key.insert(t, w[2].parse().unwrap_or(0)); call_at.insert(t, li); }
      // the single-flight window of a load ends when its loader task removes the pending marker
      "pendRemove" => { marker_removed.insert(t); if let Some(k) = cur_key.get(&t) { if let Some(c) = in_flight.get_mut(k) { *c = c.saturating_sub(1); } } completed_with_marker.remove(&(t as u64)); }
      // the code removes the marker BEFORE completing the future, so nobody can join a completed future
      "complete" => { if !marker_removed.contains(&t) { completed_with_marker.insert(t as u64); } }
      "pendingCS" if w.get(3) == Some(&"join") => {
        let k = cur_key.get(&t).copied().unwrap_or(0);
        if completed_with_marker.iter().any(|lt| cur_key.get(&(*lt as usize)) == Some(&k)) {
          sigs.push(("loader:caller-joined-an-already-completed-future".to_string(), format!("thread {t} fetch({k}) joined a load whose future had already been completed (marker still present)")));
        }
      }
      "load" => {
        let k = keys_loaded.get(load_idx).copied().unwrap_or(0); load_idx += 1;
        cur_key.insert(t, k);
        let v: u64 = w[3].parse().unwrap_or(0);
        loaded_vals.entry(k).or_default().push(v);
        loaded_at.insert(v, li);
        let fl = in_flight.entry(k).or_insert(0); *fl += 1;
        if *fl > 1 {
          sigs.push(("loader:load-started-while-another-load-of-the-key-is-in-flight".to_string(), format!("key {k}: {} loader invocations overlap", *fl)));
        }
        let c = gen_loads.entry(k).or_insert(0); *c += 1;
        if *c > 1 && *fl <= 1 { sigs.push(("loader:second-load-in-one-miss-generation".to_string(), format!("key {k}: load #{} started after the previous load of this miss had completed, although no invalidation/expiry happened in between (late leader)", *c))); }
      }
      "mapInsert" => { let k = cur_key[&t]; let v = *loaded_vals[&k].last().unwrap(); resident.insert(k, (v, if ttl { now + TTL_NS } else { u64::MAX })); }
      "invalidate" => { let k: u64 = w[2].parse().unwrap_or(0); resident.remove(&k); gen_loads.insert(k, 0); invalidated_at.insert(k, li); }
      "advance" => {
        let d: u64 = w[2].parse().unwrap_or(0);
        let new_now = now + d;
        let mut extra = vec![];
        for (k, (_, exp)) in resident.clone() {
          if exp == u64::MAX { continue; }
          let dead_at = if grace { exp + GRACE_NS } else { exp };
          if now < dead_at && dead_at <= new_now { extra.push(format!("{t} envInvalidate {k} => -")); resident.remove(&k); gen_loads.insert(k, 0); }
          else if now < exp && exp <= new_now { extra.push(format!("{t} envExpire {k} => -")); gen_loads.insert(k, 0); }
        }
        now = new_now;
        out_lines.push(l.clone());
        out_lines.extend(extra);
        continue;
      }
      "mapRead" | "futCS" if w.get(3) == Some(&"hit") || w.get(3) == Some(&"done") => {
        let k = cur_key.get(&t).copied().unwrap_or(0);
        let v: u64 = w[4].parse().unwrap_or(0);
        if !loaded_vals.get(&k).map_or(false, |vs| vs.contains(&v)) {
          sigs.push(("loader:fetch-returned-value-never-loaded-for-key".to_string(), format!("thread {t} fetch({k}) returned {v}")));
        }
        // a fetch that STARTED after an invalidation of its key completed must not return a value whose
        // load started before that invalidation
        if let (Some(inv), Some(call), Some(ld)) = (invalidated_at.get(&k), call_at.get(&t), loaded_at.get(&v)) {
          if inv < call && ld < inv {
            sigs.push(("loader:fetch-after-invalidate-returned-pre-invalidation-value".to_string(), format!("thread {t} fetch({k}) started after invalidate({k}) completed but returned {v}, loaded before it")));
          }
        }
      }
      _ => {}
    }
    out_lines.push(l.clone());
  }
  for l in &out_lines { tr.raw(l); }
  tr.raw(&format!("X {status}"));
  if status.starts_with("deadlock") || status == "stuck" {
    sigs.push(("loader:caller-never-returns".to_string(), format!("status {status}")));
  }
  sigs.sort(); sigs.dedup_by(|a, b| a.0 == b.0);
  for (s, m) in &sigs { tr.monitor(s, m); }
  Outcome { transcript: tr.finish(), choice_points, monitor_sigs: sigs.into_iter().map(|x| x.0).collect() }
}

// ---------------------------------------------------------------------------------------------
// Async stress (no scheduler): real tasks on real threads, a waker whose `clone` is slow (widening any
// window between "check state" and "register waiter" in a poll), watchdog for callers that are never
// woken. Histories are judged by monitors only.
mod astress {
  use super::*;
  use std::future::Future;
  use std::pin::Pin;
  use std::sync::atomic::AtomicUsize;
  use std::task::{Context, Poll, RawWaker, RawWakerVTable, Waker};

  struct Th { thread: std::thread::Thread, woken: std::sync::atomic::AtomicBool, slow: u32 }

  unsafe fn w_clone(p: *const ()) -> RawWaker {
    let a = Arc::from_raw(p as *const Th);
    for _ in 0..a.slow { std::thread::yield_now(); std::hint::spin_loop(); }
    if a.slow > 0 { std::thread::sleep(Duration::from_micros(a.slow as u64)); }
    let b = a.clone();
    std::mem::forget(a);
    RawWaker::new(Arc::into_raw(b) as *const (), &VT)
  }
  unsafe fn w_wake(p: *const ()) { let a = Arc::from_raw(p as *const Th); a.woken.store(true, Ordering::SeqCst); a.thread.unpark(); }
  unsafe fn w_wake_ref(p: *const ()) { let a = Arc::from_raw(p as *const Th); a.woken.store(true, Ordering::SeqCst); a.thread.unpark(); std::mem::forget(a); }
  unsafe fn w_drop(p: *const ()) { drop(Arc::from_raw(p as *const Th)); }
  static VT: RawWakerVTable = RawWakerVTable::new(w_clone, w_wake, w_wake_ref, w_drop);

  /// block_on that only re-polls after a wake (or gives up at the deadline → None).
  pub fn block_on<F: Future + ?Sized>(mut f: Pin<Box<F>>, slow: u32, deadline: std::time::Instant) -> Option<F::Output> {
    let th = Arc::new(Th { thread: std::thread::current(), woken: std::sync::atomic::AtomicBool::new(true), slow });
    let waker = unsafe { Waker::from_raw(RawWaker::new(Arc::into_raw(th.clone()) as *const (), &VT)) };
    let mut cx = Context::from_waker(&waker);
    loop {
      if th.woken.swap(false, Ordering::SeqCst) {
        if let Poll::Ready(v) = f.as_mut().poll(&mut cx) { return Some(v); }
      } else {
        if std::time::Instant::now() > deadline { return None; }
        std::thread::park_timeout(Duration::from_millis(20));
      }
    }
  }

  struct Spawner;
  impl fibre_cache::TaskSpawner for Spawner {
    fn spawn(&self, future: Pin<Box<dyn Future<Output = ()> + Send>>) {
      std::thread::spawn(move || { let _ = block_on(future, 0, std::time::Instant::now() + Duration::from_secs(10)); });
    }
  }

  /// A loader future that returns Pending `n` times (self-waking) before producing the value.
  struct Slow { n: u32, v: u64 }
  impl Future for Slow {
    type Output = (u64, u64);
    fn poll(mut self: Pin<&mut Self>, cx: &mut Context<'_>) -> Poll<Self::Output> {
      if self.n == 0 { Poll::Ready((self.v, 1)) } else { self.n -= 1; cx.waker().wake_by_ref(); std::thread::yield_now(); Poll::Pending }
    }
  }

  /// stuck cases so far in this process: each costs its whole 30 s deadline, so after a few of them the
  /// verdict is clear and the rest of the run is skipped (the monitor lines already printed decide)
  static STUCK: AtomicUsize = AtomicUsize::new(0);

  pub fn run_case(id: &str, rng: &mut Rng) -> String {
    if STUCK.load(Ordering::SeqCst) >= 3 { return String::new(); }
    verif_clock::unfreeze();
    let callers = rng.range(2, 4) as usize;
    let slow = *rng.pick(&[0u32, 5, 20, 60]);
    let delay = rng.range(0, 6) as u32;
    let loads = Arc::new(AtomicUsize::new(0));
    let lc = loads.clone();
    let cache = Arc::new(
      CacheBuilder::<u64, u64>::default().shards(2).janitor_tick_interval(Duration::from_secs(3600))
        .async_loader(move |_k: u64| { let v = lc.fetch_add(1, Ordering::SeqCst) as u64 + 1; Slow { n: delay, v } })
        .spawner(Arc::new(Spawner))
        .build_async().expect("build async cache"),
    );
    let barrier = Arc::new(std::sync::Barrier::new(callers));
    let deadline = std::time::Instant::now() + Duration::from_secs(30);
    let mut hs = vec![];
    for i in 0..callers {
      let (cache, barrier) = (cache.clone(), barrier.clone());
      let stagger = rng.range(0, 40);
      hs.push(std::thread::spawn(move || {
        barrier.wait();
        if i > 0 { for _ in 0..stagger { std::hint::spin_loop(); std::thread::yield_now(); } }
        let c2 = cache.clone();
        block_on(Box::pin(async move { *c2.fetch_with(&7u64).await }), slow, deadline)
      }));
    }
    let res: Vec<Option<u64>> = hs.into_iter().map(|h| h.join().unwrap_or(None)).collect();
    let mut tr = Tr::new(id, &format!("kind=async-stress callers={callers} waker_clone_delay={slow} loader_pending_polls={delay}"));
    let n_loads = loads.load(Ordering::SeqCst);
    tr.line(&format!("fetch_all 7"), &format!("{} loads={n_loads}", res.iter().map(|r| r.map_or("stuck".to_string(), |v| v.to_string())).collect::<Vec<_>>().join(",")));
    if res.iter().any(|r| r.is_none()) {
      STUCK.fetch_add(1, Ordering::SeqCst);
      tr.monitor("loader:async-caller-pending-never-woken-after-load-completed", &format!("{} of {callers} async callers were still Pending 30 s after start although the loader ran {n_loads} time(s)", res.iter().filter(|r| r.is_none()).count()));
    }
    if let Some(bad) = res.iter().flatten().find(|v| **v == 0 || **v as usize > n_loads) {
      tr.monitor("loader:fetch-returned-value-never-loaded-for-key", &format!("async fetch returned {bad}"));
    }
    tr.finish()
  }
}

fn gen_programs(rng: &mut Rng) -> (Vec<Vec<String>>, bool, bool) {
  let n = *rng.weighted(&[(5u32, 2usize), (4, 3), (1, 1)]);
  let ttl = rng.chance(1, 3);
  let grace = ttl && rng.chance(2, 3);
  let keys: Vec<u64> = if rng.chance(3, 4) { vec![7] } else { vec![7, 8] };
  let mut ps = vec![];
  for _ in 0..n {
    let len = rng.range(1, 3);
    let mut p = vec![];
    for _ in 0..len {
      let k = *rng.pick(&keys);
      let op = *rng.weighted(&[(12u32, "fetch"), (2, "invalidate"), (if ttl { 3 } else { 0 }, "advance")]);
      p.push(match op {
        "fetch" => format!("fetch {k}"),
        "invalidate" => format!("invalidate {k}"),
        _ => format!("advance {}", *rng.pick(&[TTL_NS / 2, TTL_NS, TTL_NS + GRACE_NS / 2, TTL_NS + GRACE_NS])),
      });
    }
    ps.push(p);
  }
  (ps, grace, ttl)
}

fn main() {
  match parse_args() {
    Mode::Gen { seed, cases, tier, extra } => {
      if let Some(n) = extra.iter().find(|e| e.0 == "astress").and_then(|e| e.1.parse::<usize>().ok()) {
        // independent cases: run 8 at a time
        let outs = par_map(n, 8, |i| { let mut rng = Rng::new(seed.wrapping_mul(31337).wrapping_add(i as u64)); astress::run_case(&format!("a{seed}.{i}"), &mut rng) });
        for o in outs { print!("{o}"); }
        return;
      }
      let dfs_budget: usize = extra.iter().find(|e| e.0 == "dfs").and_then(|e| e.1.parse().ok()).unwrap_or(if tier == "thorough" { 20000 } else { 1500 });
      let mut out = String::new();
      // 1. random programs x random schedules
      for i in 0..cases {
        let mut rng = Rng::new(seed.wrapping_mul(7919).wrapping_add(i as u64));
        let (ps, grace, ttl) = gen_programs(&mut rng);
        let s = rng.next();
        out.push_str(&run_case(&format!("r{seed}.{i}"), &ps, grace, ttl, Strategy::Random(s), "random").transcript);
      }
      // 2. exhaustive schedules (stateless DFS) for fixed tiny programs
      let fixed: Vec<(Vec<Vec<String>>, bool, bool)> = vec![
        (vec![vec!["fetch 7".into()], vec!["fetch 7".into()]], false, false),
        (vec![vec!["fetch 7".into()], vec!["fetch 7".into()], vec!["fetch 7".into()]], false, false),
        (vec![vec!["fetch 7".into(), "invalidate 7".into()], vec!["fetch 7".into()]], false, false),
        (vec![vec!["fetch 7".into(), "advance 1000".into(), "fetch 7".into()], vec!["fetch 7".into()]], true, true),
      ];
      // `--dfs-only <pi>`: explore only that program in this process, with the whole budget (a process leaks the
      // janitor thread of every cache it built, so long explorations are split over processes)
      let dfs_only: Option<usize> = extra.iter().find(|e| e.0 == "dfs-only").and_then(|e| e.1.parse().ok());
      for (pi, (ps, grace, ttl)) in fixed.iter().enumerate() {
        if dfs_only.map_or(false, |o| o != pi) { continue; }
        let mut total = 0usize;
        let mut stack: Vec<Vec<usize>> = vec![vec![]];
        let mut runs = 0usize;
        let mut complete = true;
        while let Some(prefix) = stack.pop() {
          if total >= (if dfs_only.is_some() { dfs_budget } else { dfs_budget / fixed.len() }) { complete = false; break; }
          let o = run_case(&format!("d{pi}.{runs}"), ps, *grace, *ttl, Strategy::Prefix(prefix.clone()), "dfs");
          runs += 1; total += 1;
          // the decisions actually taken: recover from the transcript's S line
          let taken: Vec<usize> = o.transcript.lines().find(|l| l.starts_with("S ")).map(|l| l[2..].split(',').filter_map(|x| x.parse().ok()).collect()).unwrap_or_default();
          for (pos, alts) in &o.choice_points {
            if *pos < prefix.len() { continue; }
            for a in alts { if Some(a) != taken.get(*pos) { let mut p: Vec<usize> = taken[..*pos].to_vec(); p.push(*a); stack.push(p); } }
          }
          out.push_str(&o.transcript);
          let _ = &o.monitor_sigs;
        }
        out.push_str(&format!("# dfs program {pi}: {runs} schedules, complete={complete}\n"));
      }
      print!("{out}");
    }
    Mode::Run { file } => {
      let text = std::fs::read_to_string(&file).expect("read");
      let mut cur: Option<(String, Vec<String>, BTreeMap<usize, Vec<String>>, Vec<usize>)> = None;
      let mut flush = |c: Option<(String, Vec<String>, BTreeMap<usize, Vec<String>>, Vec<usize>)>| {
        if let Some((id, header, progs, sched)) = c {
          let grace = kv(&header, "grace") == Some("1");
          let ttl = kv(&header, "ttl") == Some("1");
          let ps: Vec<Vec<String>> = progs.into_values().collect();
          print!("{}", run_case(&id, &ps, grace, ttl, Strategy::Explicit(sched), "replay").transcript);
        }
      };
      for l in text.lines() {
        let l = l.trim();
        if let Some(rest) = l.strip_prefix("#case ") {
          flush(cur.take());
          let mut t = rest.split_whitespace().map(|s| s.to_string());
          let id = t.next().unwrap_or_default();
          cur = Some((id, t.collect(), BTreeMap::new(), vec![]));
        } else if let Some(rest) = l.strip_prefix("P ") {
          if let Some(c) = cur.as_mut() {
            let (tid, ops) = rest.split_once(' ').unwrap_or((rest, ""));
            c.2.insert(tid.parse().unwrap_or(0), ops.split(" ; ").map(|s| s.trim().to_string()).filter(|s| !s.is_empty()).collect());
          }
        } else if let Some(rest) = l.strip_prefix("S ") {
          if let Some(c) = cur.as_mut() { c.3 = rest.split(',').filter_map(|x| x.trim().parse().ok()).collect(); }
        } else if l.starts_with("#end") { flush(cur.take()); }
      }
      flush(cur.take());
    }
  }
}
