//! Concurrency harness for the sync handle paths of `fibre_cache` (cacheconc): runs REAL
//! `Cache::{get,peek,fetch,insert,remove,compute,try_compute,entry().or_insert,clear,run_maintenance}`
//! on real threads under a baton-passing scheduler installed through the `verif_sched` hook. The hook's
//! named yield points lie BETWEEN the critical sections (one shard-map lock acquisition, one atomic
//! update of `current_cost`, one event push/pop, one policy call, one notification send, the
//! maintenance lock), so one scheduling decision = one step of the Lean model
//! `Fv.Cache.Conc` (`Label` names = step names printed here).
//!
//! Scheduling: exactly one worker runs at a time; the worker that reaches a yield point logs the step it
//! just finished (derived from (previous point, point reached | return)), lets the harness observe
//! `current_cost` and the map (`cur=`/`m=` tokens, appended to the last line of the decision), takes the next
//! scheduling decision itself and hands the baton on. A thread at "maint:before_lock" is not runnable while
//! the (harness-tracked) maintenance lock of its shard is held; a thread at "compute:retry" is not offered
//! again until some other thread has changed the state (a retry in an unchanged state fails identically).
//! Cases are independent and run concurrently (one process-global hook dispatching on a thread-local);
//! output is deterministic for a given seed. Policy `fifoadm` is a harness-side cost-bounded FIFO that
//! evicts at admission, to exercise the victim / evSub / evNote steps.
//!
//! v2: every acquisition of a `HybridMutex`/`HybridRwLock` of the cache is an event line `<tid> acq <role> <kind>`
//! (`fibre::verif_lock_hook`; roles shard<i> / maint<i> / batch / other); acquisitions of shard<i> / maint<i>
//! are additional YIELD points (not step boundaries): the worker pauses BEFORE the acquisition and logs the
//! `acq` line when it is scheduled again. Clock reads are event lines `<tid> clock`. Expiry (ttl / tti /
//! insertttl / advance) runs on the process-global virtual clock, so cases that use it are serialised by a
//! global mutex. The observation `m=` is the PHYSICAL resident map (the observer reads with the virtual
//! clock at 0, so expired-but-uncollected entries stay visible); observer reads produce no event lines.
//!
//! v3: ops with an `a` prefix (`aget afetch apeek ainsert ainsertttl aremove acompute atrycompute aorinsert aclear
//! amaint`) run the same operation on the `AsyncCache` handle under `futures_executor::block_on` on the worker
//! thread; their call lines say `acall` instead of `call`, step lines are identical, lock kinds are `ra wa la`.
//!
//! v3b: async ops run on a tiny executor integrated with the scheduler: when the op future returns Pending the
//! worker is parked (not runnable) until its waker has been called; when it is scheduled again it logs
//! `<tid> repoll` and polls again. Async acquisitions (`ra wa la`) are never blocked by the harness: they are
//! performed and may go Pending (so `aclear`'s join_all skips a held shard and goes on); sync acquisitions keep
//! the blocked test. Nothing runnable while workers are unfinished = `X deadlock:<tids>` + a `conc:hang:*` monitor.
//!
//! Transcript: `#case <id> threads=<n> shards=<S> cap=<c|inf> policy=<p> coop=<0|1> nkeys=<K> ttl=<ns|0> tti=<ns|0> track=<0|1> strategy=<..>`,
//! `P <tid> <ops ; ...>`, `S <decisions>`, step lines `<tid> <step> [args] => <result> [ret=..] [cur=<u64> m=<k:v,..|->]`,
//! event lines `<tid> acq <role> <kind>` / `<tid> clock`, `X <status>`, `!monitor` lines, `#end`.
use fibre_cache::policy::{AdmissionDecision, CachePolicy};
use fibre_cache::verif_sched::{self, SchedHook};
use fibre_cache::{verif_clock, Cache, CacheBuilder, EvictionListener, EvictionReason};
use std::collections::{BTreeMap, BTreeSet, HashMap};
use std::hash::{BuildHasher, Hasher};
use std::sync::atomic::{AtomicBool, AtomicUsize, Ordering};
use std::sync::{Arc, Condvar, Mutex};
use std::thread::ThreadId;
use std::time::{Duration, Instant};
use vcommon::*;

// ------------------------------------------------------------------ deterministic hasher
#[derive(Clone, Default)]
struct IdHash;
struct IdHasher(u64);
impl Hasher for IdHasher {
  fn write(&mut self, b: &[u8]) { for x in b { self.0 = (self.0 << 8) | *x as u64; } }
  fn write_u64(&mut self, x: u64) { self.0 = x; }
  fn write_usize(&mut self, x: usize) { self.0 = x as u64; }
  fn finish(&self) -> u64 { self.0 }
}
impl BuildHasher for IdHash {
  type Hasher = IdHasher;
  fn build_hasher(&self) -> IdHasher { IdHasher(0) }
}

type C = Cache<u64, u64, IdHash>;

// ------------------------------------------------------------------ recording policy wrapper
struct RecPolicy { inner: Box<dyn CachePolicy<u64, u64>>, shard: usize, log: Arc<Mutex<Vec<String>>> }
impl CachePolicy<u64, u64> for RecPolicy {
  fn on_access(&self, k: &u64, c: u64) { self.inner.on_access(k, c); self.log.lock().unwrap().push(format!("ac:{}:{}:{}", self.shard, k, c)); }
  fn uses_access_events(&self) -> bool { self.inner.uses_access_events() }
  fn on_admit(&self, k: &u64, c: u64) -> AdmissionDecision<u64> {
    let d = self.inner.on_admit(k, c);
    let s = match &d { AdmissionDecision::Admit => "admit".to_string(), AdmissionDecision::Reject => "reject".to_string(), AdmissionDecision::AdmitAndEvict(v) => format!("ev{}", list(v)) };
    self.log.lock().unwrap().push(format!("ad:{}:{}:{}:{}", self.shard, k, c, s));
    d
  }
  fn on_remove(&self, k: &u64) { self.inner.on_remove(k); self.log.lock().unwrap().push(format!("rm:{}:{}", self.shard, k)); }
  fn evict(&self, n: u64) -> (Vec<u64>, u64) {
    let (v, f) = self.inner.evict(n);
    self.log.lock().unwrap().push(format!("ev:{}:{}:{}:{}", self.shard, n, list(&v), f));
    (v, f)
  }
  fn clear(&self) { self.inner.clear(); self.log.lock().unwrap().push(format!("cl:{}", self.shard)); }
}

/// Harness-side policy (policies are oracles of the model): cost-bounded FIFO that evicts AT ADMISSION
/// (`AdmitAndEvict`), so that the victim / evSub / evNote steps of `perform_shard_maintenance` are exercised
/// (of the repository's policies only TinyLFU ever returns `AdmitAndEvict`, and rarely on tiny programs).
struct FifoAdm { cap: u64, st: Mutex<std::collections::VecDeque<(u64, u64)>> }
impl CachePolicy<u64, u64> for FifoAdm {
  fn on_access(&self, _k: &u64, _c: u64) {}
  fn uses_access_events(&self) -> bool { false }
  fn on_admit(&self, k: &u64, c: u64) -> AdmissionDecision<u64> {
    let mut q = self.st.lock().unwrap();
    q.retain(|e| e.0 != *k);
    q.push_back((*k, c));
    let mut victims = vec![];
    while q.iter().map(|e| e.1).sum::<u64>() > self.cap && q.len() > 1 { if let Some((v, _)) = q.pop_front() { victims.push(v); } }
    if victims.is_empty() { AdmissionDecision::Admit } else { AdmissionDecision::AdmitAndEvict(victims) }
  }
  fn on_remove(&self, k: &u64) { self.st.lock().unwrap().retain(|e| e.0 != *k); }
  fn evict(&self, n: u64) -> (Vec<u64>, u64) {
    let mut q = self.st.lock().unwrap();
    let (mut vs, mut freed) = (vec![], 0u64);
    while freed < n { match q.pop_front() { Some((k, c)) => { vs.push(k); freed += c; } None => break } }
    (vs, freed)
  }
  fn clear(&self) { self.st.lock().unwrap().clear(); }
}

fn mk_policy(name: &str, cap: u64) -> Box<dyn CachePolicy<u64, u64>> {
  use fibre_cache::policy::*;
  match name {
    "fifoadm" => Box::new(FifoAdm { cap, st: Mutex::new(Default::default()) }),
    "lru" => Box::new(lru::LruPolicy::<u64>::new()),
    "fifo" => Box::new(fifo::Fifo::<u64>::new()),
    "sieve" => Box::new(sieve::SievePolicy::<u64>::new()),
    "clock" => Box::new(clock::ClockPolicy::<u64>::new()),
    "random" => Box::new(random::RandomPolicy::<u64>::new()),
    "slru" => Box::new(slru::SlruPolicy::<u64>::new(cap)),
    "arc" => Box::new(arc::ArcPolicy::<u64>::new(cap as usize)),
    "tinylfu" => Box::new(tinylfu::TinyLfuPolicy::<u64>::new(cap)),
    "null" => Box::new(null::NullPolicy),
    _ => panic!("unknown policy {name}"),
  }
}

// ------------------------------------------------------------------ recording listener
#[derive(Default)]
struct Lis { events: Mutex<Vec<(u64, u64, char)>>, count: AtomicUsize }
struct RecListener(Arc<Lis>);
impl EvictionListener<u64, u64> for RecListener {
  fn on_evict(&self, key: u64, value: Arc<u64>, reason: EvictionReason) {
    let vid = *value;
    drop(value);
    let r = match reason { EvictionReason::Capacity => 'C', EvictionReason::Expired => 'E', EvictionReason::Invalidated => 'I' };
    self.0.events.lock().unwrap().push((key, vid, r));
    self.0.count.fetch_add(1, Ordering::SeqCst);
  }
}

// ------------------------------------------------------------------ scheduler
#[derive(Clone, Debug, PartialEq)]
enum Status { Running, AtPoint, /** async op future returned Pending: runnable once its waker has been called */ ParkedAsync, Finished }

struct Th {
  status: Status,
  /// "" (not started), "start", "op" (between two ops), "op-start" (inside an API call, no hook point
  /// reached yet) or the label of the hook point the thread is at
  last: &'static str,
  /// words of the current op (async ops: the base op word, see `is_async`)
  op: Vec<String>,
  /// the current op runs on the `AsyncCache` handle
  is_async: bool,
  /// shard of the current `run_maintenance` iteration
  maint_sh: usize,
  /// at "compute:retry" and the cache state cannot have changed since the failed attempt
  stale: bool,
  /// paused BEFORE this lock acquisition (role, kind); a yield point that is not a step boundary
  pending_acq: Option<(String, &'static str)>,
  /// shard locks acquired since the last arrival (only `clear` keeps shard locks across a yield)
  held_shards: Vec<usize>,
  /// shards on which an async write acquisition of this thread is queued (registered writer: WRITER_PENDING)
  pending_shards: Vec<usize>,
  /// maintenance lock on which an async acquisition of this thread is queued
  pending_maint: Option<usize>,
}

type Obs = (u64, BTreeMap<u64, u64>);
struct Line { text: String, obs: Option<Obs>, quiescent: bool, /** a model step (not a call / acq / clock event line) */ step: bool }

struct Inner {
  th: Vec<Th>,
  baton: Option<usize>,
  log: Vec<Line>,
  decisions: Vec<usize>,
  active: bool,
  /// harness-side image of the shards' `maintenance_lock`
  mlock: Vec<Option<usize>>,
  plog: Arc<Mutex<Vec<String>>>,
  /// length of `plog` when the running thread was scheduled
  plog_mark: usize,
  /// the map as last observed by the scheduler thread
  last_obs: BTreeMap<u64, u64>,
  shards: usize,
  panicked: Option<usize>,
  /// workers whose program is over (their OS thread is free again)
  exited: usize,
  // ---- scheduling state (the thread that arrives last takes the next decision itself)
  strat: Strategy,
  rng: Rng,
  choice_points: Vec<(usize, Vec<usize>)>,
  step_no: usize,
  /// length of `log` when the running thread was scheduled
  log_mark: usize,
  picked: Option<usize>,
  run_status: String,
  done: bool,
  cache: Arc<C>,
  nkeys: u64,
  /// lock address -> role
  roles: HashMap<usize, String>,
  /// the decision just completed ended at a lock-acquisition yield (not at a step point)
  ended_at_lock_yield: bool,
  /// the case uses the virtual clock (holds the global expiry mutex)
  expiry: bool,
  /// per worker: its async waker has been called since its last poll (set lock-free by the waker)
  wake_flags: Arc<Vec<AtomicBool>>,
  /// set when the run ends in a deadlock: (a stuck worker is inside a clear, who holds / waits for what)
  hang: Option<(bool, String)>,
}

#[derive(Clone, Copy)]
enum Ret { Opt(Option<u64>), Unit, Val(u64), Cmp(&'static str) }

impl Inner {
  fn push(&mut self, t: usize, s: String) {
    let step = !(s.starts_with("call ") || s.starts_with("acall ") || s.starts_with("acq ") || s == "clock" || s == "repoll");
    self.log.push(Line { text: format!("{t} {s}"), obs: None, quiescent: false, step });
  }

  fn role_index(role: &str, prefix: &str) -> Option<usize> { role.strip_prefix(prefix).and_then(|x| x.parse().ok()) }

  /// would the acquisition thread `i` is paused before block right now?
  fn blocked(&self, i: usize) -> bool {
    match &self.th[i].pending_acq {
      Some((role, kind)) => {
        // async acquisitions are performed and may go Pending; sync ones would block the OS thread
        if let (Some(sh), "l") = (Self::role_index(role, "maint"), *kind) { matches!(self.mlock.get(sh), Some(Some(h)) if *h != i) }
        else if let (Some(sh), "r" | "w") = (Self::role_index(role, "shard"), *kind) { self.th.iter().enumerate().any(|(j, t)| j != i && (t.held_shards.contains(&sh) || t.pending_shards.contains(&sh))) }
        else { false }
      }
      None => false,
    }
  }

  /// policy-log entries made since the running thread was scheduled
  fn plog_since(&self) -> Vec<String> { let p = self.plog.lock().unwrap(); p[self.plog_mark.min(p.len())..].to_vec() }

  /// keys of the `on_remove` policy calls made since the running thread was scheduled, in call order
  fn removed_keys_since(&self) -> Vec<u64> {
    self.plog_since().iter().filter_map(|e| e.strip_prefix("rm:")).filter_map(|r| r.split(':').nth(1).and_then(|k| k.parse().ok())).collect()
  }

  fn all_settled(&self) -> bool { self.baton.is_none() && self.th.iter().all(|t| matches!(t.status, Status::AtPoint | Status::ParkedAsync | Status::Finished)) }

  fn held_by_other(&self, me: usize, sh: usize) -> bool { self.th.iter().enumerate().any(|(j, t)| j != me && t.held_shards.contains(&sh)) }

  /// who holds / waits for what (for the hang monitors)
  fn lock_picture(&self) -> String {
    self.th.iter().enumerate().filter(|(_, t)| t.status != Status::Finished).map(|(i, t)| {
      let waits = match (&t.pending_acq, t.status == Status::ParkedAsync) {
        (Some((r, k)), _) => format!("blocked before `acq {r} {k}`"),
        (None, true) => format!("parked Pending on shards {:?}{}", t.pending_shards, t.pending_maint.map_or(String::new(), |m| format!(" maint{m}"))),
        _ => "runnable".to_string(),
      };
      format!("thread {i} ({}{}) holds shards {:?}{}, {waits}", if t.is_async { "a" } else { "" }, t.op.first().cloned().unwrap_or_default(), t.held_shards,
        if self.mlock.iter().any(|h| *h == Some(i)) { " and a maintenance lock" } else { "" })
    }).collect::<Vec<_>>().join("; ")
  }

  fn stop(&mut self, status: String) { self.run_status = status; self.active = false; self.done = true; }

  /// Nobody is running: observe the cache for the decision just completed, then take the next decision
  /// (sets `baton`) or end the run (sets `done`).
  fn schedule(&mut self) {
    if self.done { return; }
    if let Some(p) = self.picked {
      let logged_from = self.log_mark;
      // the observation goes to the last STEP line of the decision (none: the decision only logged events)
      if let Some(li) = (logged_from..self.log.len()).rev().find(|&i| self.log[i].step) {
        // a shard whose lock a paused `clear` holds cannot be read (and cannot have changed): keep its keys
        let held: BTreeSet<usize> = self.th.iter().flat_map(|t| t.held_shards.iter().copied()).collect();
        // a free shard with a queued async writer gates readers (a `peek` would block): read it through the
        // write lock instead (`entry`), which barges past the queue like every writer
        let gated: BTreeSet<usize> = self.th.iter().flat_map(|t| t.pending_shards.iter().copied()).filter(|s| !held.contains(s)).collect();
        let mut o = observe(&self.cache, self.nkeys, self.expiry, &held, &gated, self.shards);
        for (k, v) in &self.last_obs { if held.contains(&(*k as usize % self.shards.max(1))) { o.1.insert(*k, *v); } }
        let quiescent = self.th.iter().all(|t| t.status == Status::Finished || (t.status == Status::AtPoint && t.pending_acq.is_none() && (t.last == "op" || t.last == "start")));
        self.last_obs = o.1.clone();
        let l = &mut self.log[li];
        l.obs = Some(o);
        l.quiescent = quiescent;
      }
      // a decision that only logged events and/or re-failed a compute left the cache state unchanged: other
      // threads waiting to retry a compute stay stale (a decision without any line that ended at a step point
      // is a `release`: it does change the state)
      let neutral_lines = self.log[logged_from..].iter().all(|l| { let w: Vec<&str> = l.text.split_whitespace().collect(); !l.step || (w.get(1) == Some(&"compute") && w.get(3) == Some(&"fail") && w.len() == 4) });
      let neutral = neutral_lines && (self.ended_at_lock_yield || self.log.len() > logged_from);
      if !neutral { for (i, t) in self.th.iter_mut().enumerate() { if i != p { t.stale = false; } } }
    }
    if let Some(t) = self.panicked { self.stop(format!("panic:{t}")); return; }
    let at_point: Vec<usize> = self.th.iter().enumerate().filter(|(_, t)| matches!(t.status, Status::AtPoint | Status::ParkedAsync)).map(|(i, _)| i).collect();
    let unblocked: Vec<usize> = at_point.iter().copied().filter(|&i| if self.th[i].status == Status::ParkedAsync { self.wake_flags[i].load(Ordering::SeqCst) } else { !self.blocked(i) }).collect();
    if unblocked.is_empty() {
      if at_point.is_empty() { self.done = true; } else {
        let in_clear = self.th.iter().any(|t| t.status != Status::Finished && t.op.first().map(|s| s.as_str()) == Some("clear"));
        self.hang = Some((in_clear, self.lock_picture()));
        self.stop(format!("deadlock:{}", at_point.iter().map(|x| x.to_string()).collect::<Vec<_>>().join(",")));
      }
      return;
    }
    if self.step_no >= STEP_BUDGET { self.stop("budget".into()); return; }
    // a thread about to retry a compute that cannot succeed yet is scheduled only if nothing else can move
    let fresh: Vec<usize> = unblocked.iter().copied().filter(|&i| !self.th[i].stale).collect();
    let runnable = if fresh.is_empty() { unblocked } else { fresh };
    let pick = match &self.strat {
      Strategy::Random(_) => *self.rng.pick(&runnable),
      Strategy::Explicit(v) | Strategy::Prefix(v) => match v.get(self.step_no) { Some(t) if runnable.contains(t) => *t, _ => runnable[0] },
    };
    if runnable.len() > 1 { self.choice_points.push((self.step_no, runnable.clone())); }
    self.decisions.push(pick);
    self.baton = Some(pick);
    self.th[pick].status = Status::Running;
    let pl = self.plog.lock().unwrap().len();
    self.plog_mark = pl;
    self.log_mark = self.log.len();
    self.picked = Some(pick);
    self.step_no += 1;
  }

  fn release_mlock(&mut self, t: usize) { for h in self.mlock.iter_mut() { if *h == Some(t) { *h = None; } } }

  /// The critical section thread `t` executed between point `prev` and point `now` (`now == "op"`: the
  /// API call returned `ret`).
  fn step_between(&mut self, t: usize, prev: &'static str, now: &'static str, ret: Option<Ret>) -> Option<String> {
    let op0 = self.th[t].op.first().cloned().unwrap_or_default();
    let key: u64 = self.th[t].op.get(1).and_then(|x| x.parse().ok()).unwrap_or(0);
    let opt = |r: Option<Ret>| match r { Some(Ret::Opt(Some(v))) => (format!("some {v}"), v.to_string()), _ => ("none".to_string(), "none".to_string()) };
    let cmp = |r: Option<Ret>| match r {
      Some(Ret::Cmp("true")) => "compute => ok ret=true".to_string(),
      Some(Ret::Cmp("false")) => "compute => fail ret=false".to_string(),
      _ => "compute => nf ret=none".to_string(),
    };
    let unknown = || format!("UNKNOWN {prev} {now} => -");
    Some(match (prev, now) {
      ("", _) => return None,
      ("op-start", "op") => match op0.as_str() {
        "get" | "peek" | "fetch" | "hold" => { let (a, b) = opt(ret); format!("read => {a} ret={b}") }
        "advance" => format!("advance {key} => -"),
        "remove" => match ret { Some(Ret::Opt(None)) => "rmMap => none ret=none".to_string(), _ => unknown() },
        "compute" | "trycompute" => cmp(ret),
        "orinsert" => match ret { Some(Ret::Val(v)) => format!("oiMap => occ {v} ret={v}"), _ => unknown() },
        "clear" => "clear => - ret=unit".to_string(),
        "release" => return None,
        _ => unknown(),
      },
      // ---- insert
      ("op-start", "insert:before_old_cost_sub") => "insMap => old".into(),
      ("op-start", "insert:before_event_push") => "insMap => new".into(),
      ("insert:before_old_cost_sub", "insert:before_event_push") => "insSub => -".into(),
      ("insert:before_event_push", "insert:before_cost_add") => "insEv => -".into(),
      ("insert:before_cost_add", "insert:before_maintenance") => "insAdd => -".into(),
      ("insert:before_maintenance", "op") => "coopSkip => - ret=unit".into(),
      ("insert:before_maintenance", "maint:before_event_recv") => {
        let sh = key as usize % self.shards.max(1);
        self.mlock[sh] = Some(t);
        "coopLock => -".into()
      }
      ("coop:before_unlock", "op") => { self.release_mlock(t); "unlock => - ret=unit".into() }
      // ---- remove
      ("op-start", "remove:before_policy_remove") => match self.last_obs.get(&key) { Some(v) => format!("rmMap => some {v}"), None => "rmMap => some ?".into() },
      ("remove:before_policy_remove", "remove:before_cost_sub") => "rmPol => -".into(),
      ("remove:before_cost_sub", "remove:before_notify") => "rmSub => -".into(),
      ("remove:before_notify", "op") => { let (_, b) = opt(ret); format!("rmNote => - ret={b}") }
      // ---- compute / try_compute
      ("op-start", "compute:retry") | ("compute:retry", "compute:retry") => "compute => fail".into(),
      ("compute:retry", "op") => cmp(ret),
      // ---- entry().or_insert
      ("op-start", "entry:before_event_push") => "oiMap => ins".into(),
      ("entry:before_event_push", "entry:before_cost_add") => "oiEv => -".into(),
      ("entry:before_cost_add", "op") => match ret { Some(Ret::Val(v)) => format!("oiAdd => - ret={v}"), _ => unknown() },
      // ---- run_maintenance / cooperative maintenance
      ("op-start", "maint:before_lock") if op0 == "maint" => { self.th[t].maint_sh = 0; return None; }
      ("maint:before_lock", "maint:before_event_recv") => { let sh = self.th[t].maint_sh; if sh < self.mlock.len() { self.mlock[sh] = Some(t); } "mLock => -".into() }
      ("maint:before_event_recv", _) => "recv => -".into(),
      ("maint:before_admit", _) => {
        let e = self.plog_since().into_iter().find(|e| e.starts_with("ad:"));
        match e {
          Some(e) => {
            let w: Vec<&str> = e.splitn(5, ':').collect();
            let d = match w[4] { "admit" => "admit".to_string(), "reject" => "reject".to_string(), x => format!("evict {}", x.trim_start_matches("ev")) };
            format!("admit {} {} => {d}", w[2], w[3])
          }
          None => unknown(),
        }
      }
      ("maint:before_victim_lock", _) => if self.plog_since().iter().any(|e| e.starts_with("rm:")) { "victim => removed".into() } else { "victim => absent".into() },
      ("maint:before_evict_cost_sub", _) => "evSub => -".into(),
      ("maint:before_evict_notify", _) => "evNote => -".into(),
      ("maint:before_ttl", "maint:before_tti") => "ttlAdvance => []".into(),
      ("maint:before_ttl", "ttl:before_map_write") => "ttlAdvance => nonempty".into(),
      ("ttl:before_map_write", "maint:before_tti") => format!("ttlMap => {}", list(&self.removed_keys_since())),
      ("maint:before_tti", "cap:before_cost_load") => format!("ttiMap => {}", list(&self.removed_keys_since())),
      ("cap:before_cost_load", "cap:before_policy_evict") => "capLoad => over".into(),
      ("cap:before_cost_load", "maint:before_unlock") => "capLoad => under".into(),
      ("cap:before_policy_evict", _) => {
        let e = self.plog_since().into_iter().find(|e| e.starts_with("ev:"));
        match e {
          Some(e) => { let w: Vec<&str> = e.splitn(5, ':').collect(); format!("capEvict {} => {} {}", w[2], w[3], w[4]) }
          None => unknown(),
        }
      }
      ("cap:before_map_write", "cap:before_cost_sub") => "capMap => -".into(),
      ("cap:before_cost_sub", "maint:before_unlock") => "capSub => -".into(),
      ("maint:before_unlock", "maint:before_lock") | ("maint:before_unlock", "op") => {
        self.release_mlock(t);
        self.th[t].maint_sh += 1;
        "unlock => - ret=unit".into()
      }
      _ => unknown(),
    })
  }
}

struct Sched { m: Mutex<Inner>, cvs: Vec<Condvar>, main_cv: Condvar }

impl Sched {
  /// Called by a thread arriving at a yield point: log the step it just finished, hand the baton back,
  /// wait until scheduled again. `finished`: the thread has nothing more to do (no waiting).
  fn arrive(&self, me: usize, label: &'static str, ret: Option<Ret>, finished: bool) {
    let mut g = self.m.lock().unwrap();
    if !g.active {
      if finished { g.th[me].status = Status::Finished; }
      return;
    }
    let prev = g.th[me].last;
    if let Some(s) = g.step_between(me, prev, label, ret) { g.push(me, s); }
    g.th[me].last = label;
    g.th[me].stale = label == "compute:retry";
    g.th[me].status = if finished { Status::Finished } else { Status::AtPoint };
    if label == "op" || g.th[me].op.first().map(|s| s.as_str()) != Some("clear") { g.th[me].held_shards.clear(); }
    g.ended_at_lock_yield = false;
    if g.baton == Some(me) { g.baton = None; }
    if g.all_settled() { g.schedule(); self.wake(&g, Some(me)); }
    if finished { return; }
    while g.active && g.baton != Some(me) { g = self.cvs[me].wait(g).unwrap(); }
    g.th[me].status = Status::Running;
    if g.active && label == "maint:before_lock" {
      let sh = g.th[me].maint_sh;
      let c = if g.th[me].is_async { "acall" } else { "call" };
      g.push(me, format!("{c} maint {sh} 16 1 => -"));
    }
  }

  /// Called (through `fibre::verif_lock_hook`) by a worker that is about to acquire the hybrid lock at `addr`.
  /// shard<i> / maint<i>: yield point (not a step boundary); the `acq` line is logged when the worker goes on.
  fn lock_event(&self, me: usize, addr: usize, kind: &'static str) {
    let mut g = self.m.lock().unwrap();
    if !g.active { return; }
    let role = g.roles.get(&addr).cloned().unwrap_or_else(|| "other".to_string());
    let (shard, maint) = (Inner::role_index(&role, "shard"), Inner::role_index(&role, "maint"));
    if shard.is_some() || maint.is_some() {
      g.th[me].pending_acq = Some((role.clone(), kind));
      g.th[me].status = Status::AtPoint;
      if g.th[me].op.first().map(|s| s.as_str()) != Some("clear") { g.th[me].held_shards.clear(); }
      g.ended_at_lock_yield = true;
      if g.baton == Some(me) { g.baton = None; }
      if g.all_settled() { g.schedule(); self.wake(&g, Some(me)); }
      while g.active && g.baton != Some(me) { g = self.cvs[me].wait(g).unwrap(); }
      g.th[me].status = Status::Running;
      g.th[me].pending_acq = None;
      if !g.active { return; }
      match (shard, maint, kind) {
        // sync acquisitions only proceed when they cannot block
        (Some(sh), _, "r" | "w") => g.th[me].held_shards.push(sh),
        (_, Some(sh), "l") => { if sh < g.mlock.len() { g.mlock[sh] = Some(me); } }
        // async write: acquired iff nobody holds the shard (writers barge past the queue), else the future queues
        (Some(sh), _, "wa") => { if g.held_by_other(me, sh) { g.th[me].pending_shards.push(sh); } else { g.th[me].held_shards.push(sh); } }
        (_, Some(sh), "la") => { if sh < g.mlock.len() { if g.mlock[sh].is_none() { g.mlock[sh] = Some(me); } else { g.th[me].pending_maint = Some(sh); } } }
        _ => {} // async read: holds nothing across a yield, gates nobody
      }
    }
    g.push(me, format!("acq {role} {kind}"));
  }

  /// The op future of async worker `me` returned Pending: park until the waker has been called AND the worker
  /// is scheduled again; then log `repoll`.
  fn async_pending(&self, me: usize) {
    let mut g = self.m.lock().unwrap();
    if g.active {
      g.th[me].status = Status::ParkedAsync;
      if g.th[me].op.first().map(|s| s.as_str()) != Some("clear") { g.th[me].held_shards.clear(); }
      g.ended_at_lock_yield = true;
      if g.baton == Some(me) { g.baton = None; }
      if g.all_settled() { g.schedule(); self.wake(&g, Some(me)); }
      while g.active && g.baton != Some(me) { g = self.cvs[me].wait(g).unwrap(); }
      g.th[me].status = Status::Running;
    }
    if !g.active {
      // the run is over (deadlock / stuck / budget): wait for a real wake-up like any executor would
      let flags = g.wake_flags.clone();
      drop(g);
      while !flags[me].swap(false, Ordering::SeqCst) { std::thread::park(); }
      return;
    }
    g.wake_flags[me].store(false, Ordering::SeqCst);
    g.push(me, "repoll".to_string());
    // the queued lock futures are polled again, in order: each one whose lock is free now acquires it
    let mut pend = std::mem::take(&mut g.th[me].pending_shards);
    pend.sort();
    for sh in pend { if g.held_by_other(me, sh) { g.th[me].pending_shards.push(sh); } else { g.th[me].held_shards.push(sh); } }
    if let Some(sh) = g.th[me].pending_maint { if g.mlock[sh].is_none() { g.mlock[sh] = Some(me); g.th[me].pending_maint = None; } }
  }

  fn clock_event(&self, me: usize) {
    let mut g = self.m.lock().unwrap();
    if g.active { g.push(me, "clock".to_string()); }
  }

  /// After `schedule`: wake whoever has to act next.
  fn wake(&self, g: &Inner, me: Option<usize>) {
    if g.done { self.main_cv.notify_all(); }
    if !g.active { for c in &self.cvs { c.notify_all(); } }
    else if let Some(p) = g.baton { if Some(p) != me { self.cvs[p].notify_all(); } }
  }

  /// The running thread starts an API call.
  fn begin_op(&self, t: usize, w: &[&str]) {
    let mut g = self.m.lock().unwrap();
    let (base, is_async) = base_op(w[0]);
    g.th[t].op = w.iter().map(|s| s.to_string()).collect();
    g.th[t].op[0] = base.to_string();
    g.th[t].is_async = is_async;
    g.th[t].last = "op-start";
    if !g.active { return; }
    let line = match base {
      "get" | "fetch" | "hold" => format!("call get {}", w[1]),
      "peek" => format!("call peek {}", w[1]),
      "insert" => format!("call insert {} {} {}", w[1], w[2], w[3]),
      "insertttl" => format!("call insertttl {} {} {} {}", w[1], w[2], w[3], w[4]),
      "remove" => format!("call remove {}", w[1]),
      "compute" => format!("call compute {} 1000", w[1]),
      "trycompute" => format!("call trycompute {} 1000", w[1]),
      "orinsert" => format!("call orinsert {} {} {}", w[1], w[2], w[3]),
      "clear" => "call clear".to_string(),
      _ => return, // maint: one call per shard, logged at "maint:before_lock"; release: silent; advance: step line only
    };
    g.push(t, format!("{}{line} => -", if is_async { "a" } else { "" }));
  }
}

/// Waker of an async worker: sets the worker's wake flag (lock-free: it is called from inside lock releases,
/// possibly while the scheduler mutex is held by the observer) and unparks it (only matters once the run is over).
struct BatonWaker { flags: Arc<Vec<AtomicBool>>, t: usize, thread: std::thread::Thread }
impl std::task::Wake for BatonWaker {
  fn wake(self: Arc<Self>) { self.wake_by_ref() }
  fn wake_by_ref(self: &Arc<Self>) { self.flags[self.t].store(true, Ordering::SeqCst); self.thread.unpark(); }
}

/// Runs an async op of worker `t` to completion under the baton scheduler.
fn run_async<F: std::future::Future>(s: &Sched, flags: &Arc<Vec<AtomicBool>>, t: usize, fut: F) -> F::Output {
  let mut fut = std::pin::pin!(fut);
  let waker = std::task::Waker::from(Arc::new(BatonWaker { flags: flags.clone(), t, thread: std::thread::current() }));
  let mut cx = std::task::Context::from_waker(&waker);
  loop {
    if let std::task::Poll::Ready(v) = fut.as_mut().poll(&mut cx) { return v; }
    s.async_pending(t);
  }
}

/// `aget` -> ("get", true) ...: the async variant of an op runs the same operation on the `AsyncCache` handle
fn base_op(w: &str) -> (&str, bool) {
  match w {
    "aget" | "afetch" | "apeek" | "ainsert" | "ainsertttl" | "aremove" | "acompute" | "atrycompute" | "aorinsert" | "aclear" | "amaint" => (&w[1..], true),
    _ => (w, false),
  }
}

thread_local! {
  /// set while the harness itself reads the cache (observation): its lock / clock events are not logged
  static QUIET: std::cell::Cell<bool> = const { std::cell::Cell::new(false) };
  /// the case (scheduler) and thread index the current OS thread works for; cases run concurrently, the
  /// one process-global hook dispatches on this
  static CUR: std::cell::RefCell<Option<(Arc<Sched>, usize)>> = const { std::cell::RefCell::new(None) };
}

struct Hook;
impl SchedHook for Hook {
  fn point(&self, label: &'static str) {
    let c = CUR.with(|c| c.borrow().clone());
    if let Some((s, t)) = c { s.arrive(t, label, None, false); }
  }
  fn clock(&self) {
    if QUIET.with(|q| q.get()) { return; }
    let c = CUR.with(|c| c.borrow().clone());
    if let Some((s, t)) = c { s.clock_event(t); }
  }
  fn on_spawn(&self) {}
  fn before_park(&self) {}
  fn after_park(&self) {}
  fn on_unpark(&self, _target: ThreadId) {}
}

fn install_hooks() {
  verif_sched::install(Arc::new(Hook));
  fibre::verif_lock_hook::install(Arc::new(|addr: usize, kind: &'static str| {
    if QUIET.with(|q| q.get()) { return; }
    let c = CUR.with(|c| c.borrow().clone());
    if let Some((s, t)) = c { s.lock_event(t, addr, kind); }
  }));
  verif_clock::freeze_at(T0);
}

/// Cases that use the (process-global) virtual clock never overlap.
static EXPIRY_LOCK: Mutex<()> = Mutex::new(());
const T0: u64 = 1_000_000_000;

/// Dropped when a worker's program is over: counts the exit; if the thread dies by a panic, marks it
/// finished (so the scheduler does not wait for it).
struct Bail { s: Arc<Sched>, t: usize }
impl Drop for Bail {
  fn drop(&mut self) {
    CUR.with(|c| *c.borrow_mut() = None);
    let mut g = match self.s.m.lock() { Ok(g) => g, Err(p) => p.into_inner() };
    g.exited += 1;
    if std::thread::panicking() {
      g.th[self.t].status = Status::Finished;
      g.panicked = Some(self.t);
      if g.baton == Some(self.t) { g.baton = None; }
      if g.all_settled() { g.schedule(); }
      self.s.wake(&g, Some(self.t));
    }
    self.s.main_cv.notify_all();
  }
}

// Worker OS threads are reused across cases (thread creation dominates the cost of a tiny case).
type Job = Box<dyn FnOnce() + Send + 'static>;
static POOL: Mutex<Vec<std::sync::mpsc::Sender<Job>>> = Mutex::new(Vec::new());
fn pool_run(mut job: Job) -> std::sync::mpsc::Sender<Job> {
  loop {
    let pooled = POOL.lock().unwrap().pop();
    let tx = pooled.unwrap_or_else(|| {
      let (tx, rx) = std::sync::mpsc::channel::<Job>();
      std::thread::spawn(move || { while let Ok(j) = rx.recv() { j(); } });
      tx
    });
    match tx.send(job) { Ok(()) => return tx, Err(e) => job = e.0 } // a pooled thread that died: take another
  }
}

#[derive(Clone)]
enum Strategy { Random(u64), Explicit(Vec<usize>), Prefix(Vec<usize>) }

#[derive(Clone, Debug)]
struct Cfg { shards: usize, cap: Option<u64>, policy: String, coop: bool, nkeys: u64, ttl: u64, tti: u64 }
impl Cfg {
  fn header(&self, n: usize, strat: &str) -> String {
    let pcap = self.cap.map(|c| (c + self.shards.max(1) as u64 - 1) / self.shards.max(1) as u64).unwrap_or(0);
    let track = mk_policy(&self.policy, pcap).uses_access_events();
    format!("threads={n} shards={} cap={} policy={} coop={} nkeys={} ttl={} tti={} track={} strategy={strat}", self.shards,
      self.cap.map(|c| c.to_string()).unwrap_or_else(|| "inf".into()), self.policy, self.coop as u8, self.nkeys, self.ttl, self.tti, track as u8)
  }
  fn parse(h: &[String]) -> Cfg {
    Cfg {
      shards: kv(h, "shards").and_then(|s| s.parse().ok()).unwrap_or(1),
      cap: match kv(h, "cap") { Some("inf") | None => None, Some(s) => s.parse().ok() },
      policy: kv(h, "policy").unwrap_or("lru").to_string(),
      coop: kv(h, "coop") == Some("1"),
      nkeys: kv(h, "nkeys").and_then(|s| s.parse().ok()).unwrap_or(4),
      ttl: kv(h, "ttl").and_then(|s| s.parse().ok()).unwrap_or(0),
      tti: kv(h, "tti").and_then(|s| s.parse().ok()).unwrap_or(0),
    }
  }
}

struct Outcome { transcript: String, choice_points: Vec<(usize, Vec<usize>)>, decisions: Vec<usize>, monitor_sigs: Vec<String> }

const STEP_BUDGET: usize = 3000;
const DFS_BATCH: usize = 16;

/// `current_cost` and the physical map. `expiry`: the caller's case owns the virtual clock; `peek` hides
/// expired entries, so the clock is set to 0 (nothing is expired at 0) around the reads.
fn observe(cache: &C, nkeys: u64, expiry: bool, skip_shards: &BTreeSet<usize>, gated_shards: &BTreeSet<usize>, shards: usize) -> Obs {
  let was = QUIET.with(|q| q.replace(true));
  let now = verif_clock::now_nanos();
  if expiry { verif_clock::freeze_at(0); }
  let cur = cache.metrics().current_cost;
  let mut m = BTreeMap::new();
  for k in 0..nkeys {
    let sh = k as usize % shards.max(1);
    if skip_shards.contains(&sh) { continue; }
    if gated_shards.contains(&sh) { if let fibre_cache::Entry::Occupied(o) = cache.entry(k) { m.insert(k, *o.get()); } continue; }
    if let Some(a) = cache.peek(&k) { m.insert(k, *a); }
  }
  if expiry { verif_clock::freeze_at(now); }
  QUIET.with(|q| q.set(was));
  (cur, m)
}

fn show_obs(o: &Obs) -> String {
  let m = if o.1.is_empty() { "-".to_string() } else { o.1.iter().map(|(k, v)| format!("{k}:{v}")).collect::<Vec<_>>().join(",") };
  format!("cur={} m={m}", o.0)
}

fn run_case(id: &str, cfg: &Cfg, programs: &[Vec<String>], strat: Strategy, strat_name: &str) -> Outcome {
  let expiry = cfg.ttl > 0 || cfg.tti > 0 || programs.iter().flatten().any(|o| o.starts_with("advance") || o.starts_with("insertttl") || o.starts_with("ainsertttl"));
  let has_ainsert = programs.iter().flatten().any(|o| o.starts_with("ainsert"));
  if has_ainsert && cfg.coop { eprintln!("case {id}: async inserts would signal the (unscheduled) janitor thread when coop=1: forcing coop=0"); }
  let cfg = &Cfg { coop: cfg.coop && !has_ainsert, ..cfg.clone() };
  let _clock_owner = if expiry { let g = EXPIRY_LOCK.lock().unwrap_or_else(|p| p.into_inner()); verif_clock::freeze_at(T0); Some(g) } else { None };
  let s_n = cfg.shards.max(1);
  let plog: Arc<Mutex<Vec<String>>> = Arc::new(Mutex::new(vec![]));
  let lis = Arc::new(Lis::default());
  let pcap = cfg.cap.map(|c| (c + s_n as u64 - 1) / s_n as u64).unwrap_or(0);
  let mut b = CacheBuilder::<u64, u64, IdHash>::new().hasher(IdHash).shards(s_n)
    .janitor_tick_interval(Duration::from_secs(3600))
    .maintenance_chance(if cfg.coop { 1 } else { 1 << 31 })
    .maintenance_on_introspection(false);
  b = match cfg.cap { Some(c) => b.capacity(c), None => b.unbounded() };
  if cfg.ttl > 0 { b = b.time_to_live(Duration::from_nanos(cfg.ttl)); }
  if cfg.tti > 0 { b = b.time_to_idle(Duration::from_nanos(cfg.tti)); }
  if cfg.ttl > 0 || cfg.tti > 0 { b = b.timer_wheel_size(4).timer_tick_duration(Duration::from_secs(1)); }
  b = b.eviction_listener(RecListener(lis.clone()));
  let (name, log, ctr) = (cfg.policy.clone(), plog.clone(), Arc::new(AtomicUsize::new(0)));
  b = b.cache_policy_factory(move || {
    let shard = ctr.fetch_add(1, Ordering::SeqCst);
    Box::new(RecPolicy { inner: mk_policy(&name, pcap), shard, log: log.clone() })
  });
  let cache: Arc<C> = Arc::new(b.build().expect("build cache"));
  let roles: HashMap<usize, String> = cache.verif_lock_addrs().into_iter().map(|(r, a)| (a, r)).collect();

  let n = programs.len();
  let wake_flags: Arc<Vec<AtomicBool>> = Arc::new((0..n).map(|_| AtomicBool::new(false)).collect());
  let sched = Arc::new(Sched {
    m: Mutex::new(Inner {
      th: (0..n).map(|_| Th { status: Status::Running, last: "", op: vec![], is_async: false, maint_sh: 0, stale: false, pending_acq: None, held_shards: vec![], pending_shards: vec![], pending_maint: None }).collect(),
      baton: None, log: vec![], decisions: vec![], active: true, mlock: vec![None; s_n], plog: plog.clone(), plog_mark: 0,
      last_obs: BTreeMap::new(), shards: s_n, panicked: None, exited: 0,
      rng: match &strat { Strategy::Random(s) => Rng::new(*s), _ => Rng::new(0) },
      strat, choice_points: vec![], step_no: 0, log_mark: 0, picked: None, run_status: "ok".into(), done: false,
      cache: cache.clone(), nkeys: cfg.nkeys, roles, ended_at_lock_yield: false, expiry, wake_flags: wake_flags.clone(), hang: None,
    }),
    cvs: (0..n).map(|_| Condvar::new()).collect(),
    main_cv: Condvar::new(),
  });
  let mut pool_threads = vec![];
  for (t, prog) in programs.iter().enumerate() {
    let (cache, sched, prog, wake_flags) = (cache.clone(), sched.clone(), prog.clone(), wake_flags.clone());
    pool_threads.push(pool_run(Box::new(move || {
      CUR.with(|c| *c.borrow_mut() = Some((sched.clone(), t)));
      let _bail = Bail { s: sched.clone(), t };
      let mut slot: Option<Arc<u64>> = None;
      let ac = cache.to_async();
      let block_on = |f: std::pin::Pin<Box<dyn std::future::Future<Output = Ret> + '_>>| run_async(&sched, &wake_flags, t, f);
      sched.arrive(t, "start", None, prog.is_empty());
      for (i, op) in prog.iter().enumerate() {
        let w: Vec<&str> = op.split_whitespace().collect();
        if w.is_empty() { continue; }
        let num = |i: usize| -> u64 { w.get(i).and_then(|x| x.parse().ok()).unwrap_or(0) };
        let (k, v, c) = (num(1), num(2), num(3));
        sched.begin_op(t, &w);
        let ret = match w[0] {
          "get" => Ret::Opt(cache.get(&k, |x| *x)),
          "peek" => Ret::Opt(cache.peek(&k).map(|a| *a)),
          "fetch" => Ret::Opt(cache.fetch(&k).map(|a| *a)),
          "hold" => { let a = cache.fetch(&k); let r = a.as_ref().map(|a| **a); slot = a; Ret::Opt(r) }
          "release" => { slot = None; Ret::Unit }
          "insert" => { cache.insert(k, v, c); Ret::Unit }
          "insertttl" => { cache.insert_with_ttl(k, v, c, Duration::from_nanos(num(4))); Ret::Unit }
          "advance" => { verif_clock::advance(k); Ret::Unit }
          "remove" => Ret::Opt(cache.remove(&k).map(|a| *a)),
          "compute" => Ret::Cmp(if cache.compute(&k, |x| *x += 1000) { "true" } else { "none" }),
          "trycompute" => Ret::Cmp(match cache.try_compute(&k, |x| *x += 1000) { Some(true) => "true", Some(false) => "false", None => "none" }),
          "orinsert" => Ret::Val(*cache.entry(k).or_insert(v, c)),
          "clear" => { cache.clear(); Ret::Unit }
          "maint" => { cache.run_maintenance(); Ret::Unit }
          "aget" => block_on(Box::pin(async { Ret::Opt(ac.get(&k, |x| *x).await) })),
          "apeek" => block_on(Box::pin(async { Ret::Opt(ac.peek(&k).await.map(|a| *a)) })),
          "afetch" => block_on(Box::pin(async { Ret::Opt(ac.fetch(&k).await.map(|a| *a)) })),
          "ainsert" => block_on(Box::pin(async { ac.insert(k, v, c).await; Ret::Unit })),
          "ainsertttl" => block_on(Box::pin(async { ac.insert_with_ttl(k, v, c, Duration::from_nanos(num(4))).await; Ret::Unit })),
          "aremove" => block_on(Box::pin(async { Ret::Opt(ac.remove(&k).await.map(|a| *a)) })),
          "acompute" => block_on(Box::pin(async { Ret::Cmp(if ac.compute(&k, |x| *x += 1000).await { "true" } else { "none" }) })),
          "atrycompute" => block_on(Box::pin(async { Ret::Cmp(match ac.try_compute(&k, |x| *x += 1000).await { Some(true) => "true", Some(false) => "false", None => "none" }) })),
          "aorinsert" => block_on(Box::pin(async { Ret::Val(*ac.entry(k).await.or_insert(v, c)) })),
          "aclear" => block_on(Box::pin(async { ac.clear().await; Ret::Unit })),
          "amaint" => block_on(Box::pin(async { ac.run_maintenance().await; Ret::Unit })),
          _ => Ret::Unit,
        };
        let last_op = i + 1 == prog.len();
        if last_op { slot = None; }
        sched.arrive(t, "op", Some(ret), last_op);
      }
      drop(slot);
    })));
  }

  // ---- the workers schedule themselves (the thread that arrives hands the baton on); wait for the end
  {
    let mut g = sched.m.lock().unwrap();
    let mut progress = (g.step_no, Instant::now());
    while !g.done {
      let (g2, _) = sched.main_cv.wait_timeout(g, Duration::from_millis(500)).unwrap();
      g = g2;
      if g.step_no != progress.0 { progress = (g.step_no, Instant::now()); }
      else if progress.1.elapsed() > Duration::from_secs(20) { g.stop("stuck".into()); sched.wake(&g, None); }
    }
  }
  let finished_ok = sched.m.lock().unwrap().run_status == "ok";
  if finished_ok {
    // every worker has left its program: its OS thread goes back to the pool (after a stuck / budget / panic
    // run the threads may never come back: they are abandoned)
    let mut g = sched.m.lock().unwrap();
    while g.exited < n { g = sched.main_cv.wait(g).unwrap(); }
    POOL.lock().unwrap().extend(pool_threads.drain(..));
  }
  drop(pool_threads);
  let final_obs = if finished_ok { Some(observe(&cache, cfg.nkeys, expiry, &BTreeSet::new(), &BTreeSet::new(), s_n)) } else { None };

  let g = sched.m.lock().unwrap();
  // ---- transcript
  let mut tr = Tr::new(id, &cfg.header(n, strat_name));
  for (t, p) in programs.iter().enumerate() { tr.raw(&format!("P {t} {}", p.join(" ; "))); }
  tr.raw(&format!("S {}", g.decisions.iter().map(|d| d.to_string()).collect::<Vec<_>>().join(",")));
  for l in &g.log {
    match &l.obs { Some(o) => tr.raw(&format!("{} {}", l.text, show_obs(o))), None => tr.raw(&l.text) }
  }
  tr.raw(&format!("X {}", g.run_status));
  let mut sigs = monitors(id, cfg, programs, &g.log, final_obs.as_ref(), &lis);
  if let Some((in_clear, picture)) = &g.hang {
    sigs.push((if *in_clear { "conc:hang:clear-lock-order-deadlock" } else { "conc:hang:unexplained" }.to_string(), format!("case {id}: no worker can move: {picture}")));
  }
  sigs.sort(); sigs.dedup_by(|a, b| a.0 == b.0);
  for (s, m) in &sigs { tr.monitor(s, m); }
  Outcome { transcript: tr.finish(), choice_points: g.choice_points.clone(), decisions: g.decisions.clone(), monitor_sigs: sigs.into_iter().map(|x| x.0).collect() }
}

// ------------------------------------------------------------------ monitors
fn nats(s: &str) -> Vec<u64> { s.trim_matches(|c| c == '[' || c == ']').split(',').filter_map(|x| x.parse().ok()).collect() }

fn monitors(id: &str, cfg: &Cfg, programs: &[Vec<String>], log: &[Line], final_obs: Option<&Obs>, lis: &Lis) -> Vec<(String, String)> {
  let n = programs.len();
  let mut sigs: Vec<(String, String)> = vec![];
  let mut fire = |s: &str, m: String| sigs.push((s.to_string(), m));
  // write id -> (key, cost), from the program text
  let mut wkey: HashMap<u64, u64> = HashMap::new();
  let mut wcost: HashMap<u64, u64> = HashMap::new();
  for p in programs { for op in p {
    let w: Vec<&str> = op.split_whitespace().collect();
    let w0 = w.first().map(|x| base_op(x).0);
    if w0 == Some("insert") || w0 == Some("orinsert") || w0 == Some("insertttl") {
      let g = |i: usize| w.get(i).and_then(|x| x.parse::<u64>().ok()).unwrap_or(0);
      wkey.insert(g(2), g(1)); wcost.insert(g(2), g(3));
    }
  } }
  let cost_of = |v: u64| wcost.get(&(v % 1000)).copied().unwrap_or(0);

  let mut reg: BTreeMap<u64, u64> = BTreeMap::new();
  let mut last_obs: BTreeMap<u64, u64> = BTreeMap::new();
  let mut write_at: HashMap<u64, usize> = HashMap::new(); // write id -> line of its insMap / oiMap ins
  let mut rmclr: Vec<(Option<u64>, usize, Option<usize>)> = vec![]; // remove(k)/clear: call line, return line
  let mut open_rm: HashMap<usize, usize> = HashMap::new();
  let mut ok_count: BTreeMap<u64, u64> = BTreeMap::new();
  let mut oi_open: BTreeSet<u64> = BTreeSet::new(); // keys or_insert'ed in the current absent period
  let mut removals: Vec<(u64, u64, char)> = vec![];
  let mut note_sends = 0usize;
  let mut cur_op: Vec<Vec<String>> = vec![vec![]; n];
  let mut call_li: Vec<usize> = vec![0; n];
  let mut victims: Vec<(Vec<u64>, usize)> = vec![(vec![], 0); n];
  let mut cap_released: Vec<u64> = vec![0; n];
  let mut cap_removed_cost: Vec<u64> = vec![0; n];
  let mut inflight: Vec<bool> = vec![false; n];
  let (mut clear_overlap, mut cap_mismatch) = (false, false);
  // expiry bookkeeping: virtual clock, per resident key (deadline, last access) of its binding; per thread the
  // (deadline, last access) the binding its current insert creates will get (clock at the `call` line)
  let (ttl, tti) = (cfg.ttl, cfg.tti);
  let mut now: u64 = T0;
  let mut meta: BTreeMap<u64, (u64, u64)> = BTreeMap::new();
  let mut pend_meta: Vec<(u64, u64)> = vec![(0, 0); n];
  let is_expired = |m: Option<&(u64, u64)>, now: u64| m.map_or(false, |(exp, la)| (*exp > 0 && now >= *exp) || (tti > 0 && now >= *la + tti));
  // wrapping sum over capacity passes of (cost actually removed - cost the policy reported): the drift they explain
  let mut cap_drift: u64 = 0;

  let check_acct = |o: &Obs, fire: &mut dyn FnMut(&str, String), clear_overlap: bool, cap_mismatch: bool, cap_drift: u64, at: &str| {
    let expected: u64 = o.1.values().map(|v| cost_of(*v)).sum();
    if o.0 != expected {
      let msg = format!("case {id} {at}: current_cost={} but the resident entries cost {expected} ({})", o.0, show_obs(o));
      if cap_mismatch { fire("conc:accounting:capacity-pass-subtracts-policy-reported-cost", msg.clone()); }
      // whatever the mis-informed capacity passes do not explain is attributed to a clear that overlapped an
      // in-flight cost update (the pre-7e5c084 `store(0)` race) if there was one, else it is unexplained
      if o.0.wrapping_sub(expected) != cap_drift {
        if clear_overlap { fire("conc:accounting:clear-overlaps-inflight-cost-update", msg.clone()); }
        else { fire("conc:accounting:unexplained-drift", msg); }
      }
    }
  };

  for (li, line) in log.iter().enumerate() {
    let w: Vec<&str> = line.text.split_whitespace().collect();
    if w.len() < 2 { continue; }
    let t: usize = w[0].parse().unwrap_or(0);
    if t >= n || w[1] == "acq" || w[1] == "clock" { continue; }
    let arrow = w.iter().position(|x| *x == "=>").unwrap_or(w.len());
    let args: Vec<&str> = w[2.min(arrow)..arrow].to_vec();
    let res: Vec<&str> = w[(arrow + 1).min(w.len())..].iter().copied().filter(|x| !x.starts_with("ret=")).collect();
    let has_ret = w.iter().any(|x| x.starts_with("ret="));
    let key: u64 = cur_op[t].get(1).and_then(|x| x.parse().ok()).unwrap_or(0);
    let val: u64 = cur_op[t].get(2).and_then(|x| x.parse().ok()).unwrap_or(0);
    // real-time checks of a value returned by a read of `key`
    let read_checks = |v: u64, fire: &mut dyn FnMut(&str, String)| {
      let base = v % 1000;
      if let Some(k2) = wkey.get(&base) { if *k2 != key {
        fire("conc:read-returned-value-of-other-key", format!("thread {t} read of key {key} returned {v}, which was written to key {k2}"));
      } }
      if let Some(wa) = write_at.get(&base) {
        for (rk, call, ret) in &rmclr {
          if (rk.is_none() || *rk == Some(key)) && *call > *wa && ret.map_or(false, |r| r < call_li[t]) {
            fire("conc:read-resurrected-removed-value", format!("thread {t} read of key {key} (called at line {}) returned {v}, written at line {wa}, although a {} called at line {call} had returned before the read started",
              call_li[t], if rk.is_none() { "clear".to_string() } else { format!("remove({key})") }));
          }
        }
      }
    };
    match w[1] {
      "call" | "acall" => {
        cur_op[t] = args.iter().map(|s| s.to_string()).collect();
        call_li[t] = li;
        match args.first() {
          Some(&"insert") => { pend_meta[t] = (if ttl > 0 { now + ttl } else { 0 }, now); }
          Some(&"insertttl") => { pend_meta[t] = (now + args.get(4).and_then(|x| x.parse::<u64>().ok()).unwrap_or(0), now); }
          Some(&"remove") => { rmclr.push((args.get(1).and_then(|x| x.parse().ok()), li, None)); open_rm.insert(t, rmclr.len() - 1); }
          Some(&"clear") => { rmclr.push((None, li, None)); open_rm.insert(t, rmclr.len() - 1); }
          _ => {}
        }
      }
      "advance" => { now += args.first().and_then(|x| x.parse::<u64>().ok()).unwrap_or(0); }
      "read" => {
        let r: Option<u64> = if res.first() == Some(&"some") { res.get(1).and_then(|x| x.parse().ok()) } else { None };
        let exp = is_expired(meta.get(&key), now);
        // a miss on a resident but expired binding is what the API promises
        if r != reg.get(&key).copied() && !(r.is_none() && exp) {
          fire("conc:read-returned-non-current-value", format!("thread {t} read of key {key} returned {r:?} while the key's register held {:?}", reg.get(&key)));
        }
        if let Some(v) = r {
          read_checks(v, &mut fire);
          if exp { fire("conc:expiry:expired-value-served", format!("thread {t} {} of key {key} returned {v} at clock {now} although its binding (deadline {}, last access {}, tti {tti}) had expired", cur_op[t].first().cloned().unwrap_or_default(), meta.get(&key).map_or(0, |m| m.0), meta.get(&key).map_or(0, |m| m.1))); }
          // get / fetch refresh the idle time, peek does not
          if tti > 0 && cur_op[t].first().map(|s| s.as_str()) == Some("get") { if let Some(m) = meta.get_mut(&key) { m.1 = now; } }
        }
      }
      "insMap" => { reg.insert(key, val); meta.insert(key, pend_meta[t]); write_at.insert(val, li); ok_count.insert(key, 0); inflight[t] = true; }
      "ttlMap" | "ttiMap" => {
        for k in res.first().map(|s| nats(s)).unwrap_or_default() {
          if let Some(v) = last_obs.get(&k).or(reg.get(&k)) { removals.push((k, *v, 'E')); }
          reg.remove(&k); meta.remove(&k); oi_open.remove(&k); note_sends += 1;
        }
      }
      "insAdd" | "rmSub" | "oiAdd" | "evSub" => { inflight[t] = false; }
      "rmMap" => {
        let r: Option<u64> = if res.first() == Some(&"some") { res.get(1).and_then(|x| x.parse().ok()) } else { None };
        if r != reg.get(&key).copied() || (res.first() == Some(&"some") && r.is_none()) {
          fire("conc:remove-returned-non-current-value", format!("thread {t} remove({key}) took {r:?} out of the map while the key's register held {:?}", reg.get(&key)));
        }
        if res.first() == Some(&"some") {
          if let Some(v) = r { removals.push((key, v, 'I')); }
          reg.remove(&key); meta.remove(&key); oi_open.remove(&key); inflight[t] = true;
        }
      }
      "rmNote" => {
        note_sends += 1;
        // the value remove() really returned must be the one logged at its map step
        let rv = w.iter().find_map(|x| x.strip_prefix("ret=")).and_then(|x| x.parse::<u64>().ok());
        if let Some(rv) = rv { if !removals.iter().any(|r| *r == (key, rv, 'I')) {
          fire("conc:remove-returned-non-current-value", format!("thread {t} remove({key}) returned {rv}, not the value observed in the map before its map step"));
        } }
      }
      "compute" => match res.first() {
        Some(&"ok") => match reg.get_mut(&key) {
          Some(v) => {
            *v += 1000; *ok_count.entry(key).or_insert(0) += 1;
            if is_expired(meta.get(&key), now) { fire("conc:expiry:compute-on-expired-entry", format!("thread {t} compute({key}) updated the binding at clock {now} although it had expired")); }
          }
          None => fire("conc:compute-on-non-current-binding", format!("thread {t} compute({key}) succeeded although the key's register was empty")),
        },
        Some(&"nf") => if reg.contains_key(&key) { fire("conc:compute-on-non-current-binding", format!("thread {t} compute({key}) reported not-found while the key's register held {:?}", reg.get(&key))); },
        _ => if !reg.contains_key(&key) { fire("conc:compute-on-non-current-binding", format!("thread {t} compute({key}) failed on a held value although the key's register was empty")); },
      },
      "oiMap" => {
        if res.first() == Some(&"ins") {
          if reg.contains_key(&key) { fire("conc:or_insert-inserted-over-live-entry", format!("thread {t} or_insert({key}) inserted {val} while the key's register held {:?}", reg.get(&key))); }
          if oi_open.contains(&key) { fire("conc:or_insert-inserted-twice-in-one-absent-period", format!("thread {t} or_insert({key}) inserted {val}: second or_insert insertion of the key with no removal in between")); }
          oi_open.insert(key); reg.insert(key, val); meta.insert(key, (if ttl > 0 { now + ttl } else { 0 }, now)); write_at.insert(val, li); ok_count.insert(key, 0); inflight[t] = true;
        } else {
          let r: Option<u64> = res.get(1).and_then(|x| x.parse().ok());
          if is_expired(meta.get(&key), now) { fire("conc:expiry:or_insert-returned-expired-value", format!("thread {t} or_insert({key}) returned {r:?} at clock {now} although that binding had expired")); }
          if r != reg.get(&key).copied() { fire("conc:read-returned-non-current-value", format!("thread {t} or_insert({key}) found {r:?} while the key's register held {:?}", reg.get(&key))); }
          if let Some(v) = r { read_checks(v, &mut fire); }
        }
      }
      "clear" => {
        if (0..n).any(|t2| t2 != t && inflight[t2]) { clear_overlap = true; }
        reg.clear(); meta.clear(); oi_open.clear();
      }
      "admit" => { victims[t] = (if res.first() == Some(&"evict") { res.get(1).map(|s| nats(s)).unwrap_or_default() } else { vec![] }, 0); }
      "victim" => {
        let (vs, i) = &mut victims[t];
        let vk = vs.get(*i).copied(); *i += 1;
        if res.first() == Some(&"removed") { if let Some(vk) = vk {
          if let Some(v) = last_obs.get(&vk).or(reg.get(&vk)) { removals.push((vk, *v, 'C')); }
          reg.remove(&vk); meta.remove(&vk); oi_open.remove(&vk); inflight[t] = true;
        } }
      }
      "evNote" => { note_sends += 1; }
      "capEvict" => { cap_released[t] = res.get(1).and_then(|x| x.parse().ok()).unwrap_or(0); }
      "capMap" => {
        let mut c = 0u64;
        if let Some(o) = &line.obs {
          let gone: Vec<(u64, u64)> = last_obs.iter().filter(|(k, _)| !o.1.contains_key(k)).map(|(k, v)| (*k, *v)).collect();
          for (k, v) in gone { removals.push((k, v, 'C')); reg.remove(&k); meta.remove(&k); oi_open.remove(&k); note_sends += 1; c += cost_of(v); }
        }
        cap_removed_cost[t] = c; inflight[t] = true;
      }
      "capSub" => { if cap_removed_cost[t] != cap_released[t] { cap_mismatch = true; } cap_drift = cap_drift.wrapping_add(cap_removed_cost[t]).wrapping_sub(cap_released[t]); inflight[t] = false; }
      _ => {}
    }
    if has_ret { if let Some(i) = open_rm.remove(&t) { rmclr[i].2 = Some(li); } }
    if let Some(o) = &line.obs {
      if o.1 != reg {
        fire("conc:map-changed-outside-a-logged-critical-section", format!("after line {li} (`{}`) the map is {} but the logged steps give {}", line.text, show_obs(o),
          if reg.is_empty() { "-".to_string() } else { reg.iter().map(|(k, v)| format!("{k}:{v}")).collect::<Vec<_>>().join(",") }));
        reg = o.1.clone();
      }
      last_obs = o.1.clone();
      if line.quiescent { check_acct(o, &mut fire, clear_overlap, cap_mismatch, cap_drift, &format!("at quiescence after line {li}")); }
    }
  }

  if let Some(o) = final_obs {
    check_acct(o, &mut fire, clear_overlap, cap_mismatch, cap_drift, "at the end");
    for (k, v) in &o.1 {
      let oks = ok_count.get(k).copied().unwrap_or(0);
      if v / 1000 != oks { fire("conc:compute-lost-update", format!("key {k} ends with value {v} ({} increments) after {oks} successful computes since its last write", v / 1000)); }
    }
  }

  // notifications
  if lis.count.load(Ordering::SeqCst) < note_sends {
    let dl = Instant::now() + Duration::from_millis(50);
    while lis.count.load(Ordering::SeqCst) < note_sends && Instant::now() < dl { std::thread::sleep(Duration::from_micros(200)); }
  }
  let evs = lis.events.lock().unwrap().clone();
  let mut seen: BTreeSet<(u64, u64)> = BTreeSet::new();
  for (k, v, r) in &evs {
    if !seen.insert((*k, *v)) { fire("conc:listener:duplicate-notification", format!("binding {k}->{v} was delivered to the listener more than once")); }
    if !removals.iter().any(|x| x == &(*k, *v, *r)) { fire("conc:listener:notification-without-removal", format!("listener got ({k},{v},{r}) but no logged step removed that binding for that reason")); }
  }
  sigs
}

// ------------------------------------------------------------------ generators
fn gen_case(rng: &mut Rng) -> (Cfg, Vec<Vec<String>>) {
  const S: u64 = 1_000_000_000;
  let n = *rng.weighted(&[(3u32, 2usize), (2, 3)]);
  let nkeys = rng.range(2, 4);
  let shards = *rng.pick(&[1usize, 2]);
  let cap = if rng.chance(1, 2) { None } else { Some(rng.range(3, 6)) };
  let policy = if cap.is_none() { "lru" } else { *rng.pick(&["lru", "fifo", "slru", "tinylfu", "sieve", "clock", "arc", "fifoadm", "fifoadm", "fifoadm"]) }.to_string();
  let coop = rng.chance(1, 2);
  // ~25% of the cases use expiry: ttl and/or tti and/or per-insert ttl, the clock advanced by 1-2 `advance` ops
  let expiry = rng.chance(1, 4);
  let dur = |rng: &mut Rng| *rng.weighted(&[(3u32, S), (3, 2 * S), (1, 3 * S), (1, 3 * S / 2)]);
  let (ttl, tti, ins_ttl) = if !expiry { (0, 0, false) } else { match rng.below(5) { 0 => (dur(rng), 0, false), 1 => (0, dur(rng), false), 2 => (dur(rng), dur(rng), rng.chance(1, 2)), 3 => (dur(rng), 0, true), _ => (0, rng.below(2) * dur(rng), true) } };
  let clock_thread = if expiry && rng.chance(1, 3) { Some(n - 1) } else { None };
  // (the TTL timer wheel advances one tick per maintenance pass of a shard: a timer of d seconds fires in the
  // (d+1)-th pass after its insert, so expiry cases get a maintenance thread with several passes more often)
  let maint_thread = if clock_thread.is_none() && rng.chance(1, if expiry { 2 } else { 4 }) { Some(n - 1) } else { None };
  let adv = |rng: &mut Rng| format!("advance {}", *rng.weighted(&[(1u32, S / 2), (3, S), (3, 2 * S), (1, 3 * S)]));
  let mut next_v = 0u64;
  let mut ps = vec![];
  for t in 0..n {
    let mut p: Vec<String> = vec![];
    if maint_thread == Some(t) {
      for _ in 0..(if expiry { rng.range(2, 3) } else { rng.range(1, 2) }) { p.push("maint".into()); }
      ps.push(p);
      continue;
    }
    if clock_thread == Some(t) {
      for _ in 0..rng.range(1, 2) { p.push(adv(rng)); }
      ps.push(p);
      continue;
    }
    let len = rng.range(1, 4);
    let mut holding = false;
    for _ in 0..len {
      let k = rng.below(nkeys);
      if holding && rng.chance(1, 2) { p.push("release".into()); holding = false; continue; }
      let e = expiry as u32;
      let op = *rng.weighted(&[(30 - 6 * e, "insert"), (14 - 6 * e, "remove"), (if holding { 0 } else { 12 - 4 * e }, "compute"), (12 - 2 * e, "orinsert"), (10 + 8 * e, "read"), (4, "trycompute"), (3 - e, "clear"),
        (4 + 5 * e, "maint"), (if holding { 0 } else { 2 - e }, "hold"), (if clock_thread.is_none() { 7 * e } else { 0 }, "advance")]);
      p.push(match op {
        "insert" => { next_v += 1; let c = rng.range(1, 3); if ins_ttl && rng.chance(1, 2) { format!("insertttl {k} {next_v} {c} {}", dur(rng)) } else { format!("insert {k} {next_v} {c}") } }
        "orinsert" => { next_v += 1; format!("orinsert {k} {next_v} {}", rng.range(1, 3)) }
        "remove" => format!("remove {k}"),
        "compute" => format!("compute {k}"),
        "trycompute" => format!("trycompute {k}"),
        "read" => format!("{} {k}", *rng.pick(&["get", "peek", "fetch"])),
        "clear" => "clear".to_string(),
        "maint" => "maint".to_string(),
        "advance" => adv(rng),
        _ => { holding = true; format!("hold {k}") }
      });
    }
    if holding { p.push("release".into()); }
    ps.push(p);
  }
  if expiry && !ps.iter().flatten().any(|o| o.starts_with("advance")) {
    let t = rng.below(n as u64) as usize;
    let at = rng.below(ps[t].len() as u64 + 1) as usize;
    // never between a hold and its release partner's compute rule: position is free, `advance` touches no entry
    let a = adv(rng);
    ps[t].insert(at, a);
  }
  // ~35% of the cases mix in ops on the AsyncCache handle: every convertible op becomes its async variant with
  // probability 1/2 (at least one does); async inserts only SIGNAL the janitor for maintenance, and the janitor
  // thread is not under the scheduler, so such cases run with coop=0 (no signal is ever sent)
  let mut coop = coop;
  if rng.chance(35, 100) {
    let convertible = |o: &str| matches!(o.split_whitespace().next(), Some("get" | "fetch" | "peek" | "insert" | "insertttl" | "remove" | "compute" | "trycompute" | "orinsert" | "clear" | "maint"));
    let mut any = false;
    for p in ps.iter_mut() { for o in p.iter_mut() { if convertible(o) && rng.chance(1, 2) { *o = format!("a{o}"); any = true; } } }
    if !any { if let Some(o) = ps.iter_mut().flatten().find(|o| convertible(o)) { *o = format!("a{o}"); } }
    if ps.iter().flatten().any(|o| o.starts_with("ainsert")) { coop = false; }
  }
  (Cfg { shards, cap, policy, coop, nkeys, ttl, tti }, ps)
}

fn prog(s: &str) -> Vec<Vec<String>> {
  s.split("||").map(|p| p.split(';').map(|o| o.trim().to_string()).filter(|o| !o.is_empty()).collect()).collect()
}

fn fixed_programs() -> Vec<(Cfg, Vec<Vec<String>>)> {
  const S: u64 = 1_000_000_000;
  let c = |shards: usize, cap: Option<u64>, coop: bool, nkeys: u64| Cfg { shards, cap, policy: "lru".into(), coop, nkeys, ttl: 0, tti: 0 };
  let fa = |shards: usize, cap: u64, nkeys: u64| Cfg { shards, cap: Some(cap), policy: "fifoadm".into(), coop: false, nkeys, ttl: 0, tti: 0 };
  let ex = |ttl: u64, tti: u64| Cfg { shards: 1, cap: None, policy: "lru".into(), coop: false, nkeys: 2, ttl, tti };
  vec![
    (c(1, None, false, 2), prog("insert 1 10 5 || insert 1 11 3")),
    (c(1, None, false, 2), prog("insert 1 10 2 ; remove 1 || clear")),
    (c(1, None, false, 2), prog("orinsert 1 10 1 || orinsert 1 11 1 || remove 1")),
    (c(1, None, false, 2), prog("insert 1 10 1 ; compute 1 || compute 1 || get 1")),
    (c(1, Some(3), false, 3), prog("insert 0 10 2 ; insert 1 11 2 ; insert 2 12 2 ; maint || remove 0")),
    (c(1, Some(2), false, 2), prog("insert 1 10 1 ; insert 1 11 3 || maint")),
    (c(1, None, true, 2), prog("insert 0 10 1 || insert 1 11 2 || remove 0")),
    (c(1, None, false, 2), prog("orinsert 1 10 1 || compute 1 || trycompute 1")),
    (c(1, None, false, 2), prog("insert 1 10 1 ; hold 1 ; release || compute 1")),
    (fa(1, 3, 2), prog("insert 0 10 2 ; insert 1 11 2 ; maint || remove 0")),
    (fa(1, 3, 2), prog("insert 0 10 2 ; insert 1 11 2 ; maint || insert 0 12 1")),
    (c(1, None, false, 2), prog("orinsert 1 10 1 || orinsert 1 11 1")),
    (ex(2 * S, 0), prog("insert 1 10 1 ; get 1 || advance 2000000000")),
    (ex(0, 2 * S), prog("insert 1 10 1 ; peek 1 ; advance 1000000000 ; get 1 || advance 1000000000")),
    (ex(2 * S, 0), prog("insert 1 10 1 || advance 2000000000 || orinsert 1 11 1 ; compute 1")),
    (ex(S, 0), prog("insert 1 10 1 ; maint ; maint || advance 1000000000 ; get 1")),
    (c(1, None, false, 2), prog("aorinsert 1 10 1 || orinsert 1 11 1")),
    (c(1, None, false, 2), prog("aorinsert 1 10 1 || aorinsert 1 11 1")),
    (c(1, None, false, 2), prog("ainsert 1 10 2 ; aremove 1 || clear")),
    (c(1, None, false, 2), prog("ainsert 1 10 2 || aclear")),
    (ex(2 * S, 0), prog("insert 1 10 1 ; aget 1 || advance 2000000000")),
    (c(1, Some(3), false, 3), prog("ainsert 0 10 2 ; ainsert 1 11 2 ; ainsert 2 12 2 ; amaint || aremove 0")),
    (c(2, None, false, 2), prog("aclear || insert 0 10 1 ; insert 1 11 1")),
    (c(2, None, false, 2), prog("aclear || aclear")),
    (c(2, None, false, 2), prog("aclear || clear")),
  ]
}

fn main() {
  match parse_args() {
    Mode::Gen { seed, cases, tier, extra } => {
      let dfs_budget: usize = extra.iter().find(|e| e.0 == "dfs").and_then(|e| e.1.parse().ok()).unwrap_or(if tier == "thorough" { 20000 } else { 1500 });
      let workers: usize = extra.iter().find(|e| e.0 == "workers").and_then(|e| e.1.parse().ok()).unwrap_or(32).max(1);
      // `--only <i>`: run just DFS program i (diagnostics / witness extraction)
      let only: Option<usize> = extra.iter().find(|e| e.0 == "only").and_then(|e| e.1.parse().ok());
      install_hooks();
      // job 0: random programs x random schedules (independent cases, `workers` at a time);
      // job 1+i: exhaustive schedules (stateless DFS) of fixed tiny program i; the top DFS_BATCH prefixes of the
      // stack are run concurrently, their alternatives are pushed in batch order (deterministic).
      // All jobs run concurrently; the output is in job order.
      let fixed = fixed_programs();
      let random_job = || -> String {
        par_map(cases, workers, |i| {
          let mut rng = Rng::new(seed.wrapping_mul(7919).wrapping_add(i as u64));
          let (cfg, ps) = gen_case(&mut rng);
          let s = rng.next();
          run_case(&format!("r{seed}.{i}"), &cfg, &ps, Strategy::Random(s), "random").transcript
        }).concat()
      };
      let dfs_job = |pi: usize| -> String {
        let (cfg, ps) = &fixed[pi];
        if only.map_or(false, |o| o != pi) { return String::new(); }
        let mut out = String::new();
        let budget = dfs_budget / fixed.len();
        let mut stack: Vec<Vec<usize>> = vec![vec![]];
        let mut runs = 0usize;
        let mut fired: BTreeMap<String, usize> = BTreeMap::new();
        while !stack.is_empty() && runs < budget {
          let take = DFS_BATCH.min(stack.len()).min(budget - runs);
          let batch: Vec<Vec<usize>> = (0..take).map(|_| stack.pop().unwrap()).collect();
          let results: Vec<Mutex<Option<Outcome>>> = (0..take).map(|_| Mutex::new(None)).collect();
          let _ = par_map(take, (workers / 4).max(1), |j| {
            let o = run_case(&format!("d{pi}.{}", runs + j), cfg, ps, Strategy::Prefix(batch[j].clone()), "dfs");
            *results[j].lock().unwrap() = Some(o);
            String::new()
          });
          // children of batch[0] must end up on top: push in reverse batch order
          let outcomes: Vec<Outcome> = results.into_iter().map(|m| m.into_inner().unwrap().unwrap()).collect();
          for o in &outcomes {
            for s in &o.monitor_sigs { *fired.entry(s.clone()).or_insert(0) += 1; }
            out.push_str(&o.transcript);
          }
          for (j, o) in outcomes.iter().enumerate().rev() {
            let taken = &o.decisions;
            for (pos, alts) in &o.choice_points {
              if *pos < batch[j].len() { continue; }
              for a in alts { if Some(a) != taken.get(*pos) { let mut p: Vec<usize> = taken[..*pos].to_vec(); p.push(*a); stack.push(p); } }
            }
          }
          runs += take;
        }
        let complete = stack.is_empty();
        out.push_str(&format!("# dfs program {pi}: {runs} schedules, complete={complete}{}\n", fired.iter().map(|(s, c)| format!(" {s}x{c}")).collect::<String>()));
        out
      };
      let outs = par_map(fixed.len() + 1, fixed.len() + 1, |j| if j == 0 { random_job() } else { dfs_job(j - 1) });
      for o in outs { print!("{o}"); }
    }
    Mode::Run { file } => {
      install_hooks();
      let text = std::fs::read_to_string(&file).expect("read");
      type Cur = (String, Vec<String>, BTreeMap<usize, Vec<String>>, Vec<usize>);
      let mut cur: Option<Cur> = None;
      let flush = |c: Option<Cur>| {
        if let Some((id, header, progs, sched)) = c {
          let cfg = Cfg::parse(&header);
          let n = progs.keys().max().map(|m| m + 1).unwrap_or(0);
          let ps: Vec<Vec<String>> = (0..n).map(|t| progs.get(&t).cloned().unwrap_or_default()).collect();
          print!("{}", run_case(&id, &cfg, &ps, Strategy::Explicit(sched), "replay").transcript);
        }
      };
      for l in text.lines() {
        let l = l.trim();
        if let Some(rest) = l.strip_prefix("#case ") {
          flush(cur.take());
          let mut t = rest.split_whitespace().map(|s| s.to_string());
          let id = t.next().unwrap_or_default();
          cur = Some((id, t.collect(), BTreeMap::new(), vec![]));
        } else if let Some(rest) = l.strip_prefix("P ") {
          if let Some(c) = cur.as_mut() {
            let (tid, ops) = rest.split_once(' ').unwrap_or((rest, ""));
            c.2.insert(tid.parse().unwrap_or(0), ops.split(" ; ").map(|s| s.trim().to_string()).filter(|s| !s.is_empty()).collect());
          }
        } else if let Some(rest) = l.strip_prefix("S ") {
          if let Some(c) = cur.as_mut() { c.3 = rest.split(',').filter_map(|x| x.trim().parse().ok()).collect(); }
        } else if l.starts_with("#end") { flush(cur.take()); }
      }
      flush(cur.take());
    }
  }
}
