//! T2 harness for C14: drives the real `CachePolicy` implementations of fibre_cache with
//! generated admit/access/remove/evict/clear sequences, prints the transcript for the Lean
//! policy engine, and evaluates the property's own clauses on the implementation (monitors).
use fibre_cache::policy::{AdmissionDecision, CachePolicy};
use std::collections::BTreeMap;
use vcommon::*;

type P = Box<dyn CachePolicy<u64, ()>>;

fn mk(name: &str, cap: u64) -> P {
  use fibre_cache::policy::*;
  match name {
    "lru" => Box::new(lru::LruPolicy::<u64>::new()),
    "fifo" => Box::new(fifo::Fifo::<u64>::new()),
    "sieve" => Box::new(sieve::SievePolicy::<u64>::new()),
    "clock" => Box::new(clock::ClockPolicy::<u64>::new()),
    "random" => Box::new(random::RandomPolicy::<u64>::new()),
    "slru" => Box::new(slru::SlruPolicy::<u64>::new(cap)),
    "arc" => Box::new(arc::ArcPolicy::<u64>::new(cap as usize)),
    "tinylfu" => Box::new(tinylfu::TinyLfuPolicy::<u64>::new(cap)),
    _ => panic!("unknown policy {name}"),
  }
}

const POLICIES: [&str; 8] = ["lru", "fifo", "sieve", "clock", "random", "slru", "arc", "tinylfu"];

/// Reference bookkeeping for the monitors: what the property says a policy must be tracking.
struct Mon { policy: String, want: BTreeMap<u64, u64>, fails: Vec<(String, String)>, stamp: BTreeMap<u64, u64>, clock: u64,
  /// set when the caller itself gave the policy two different costs for one tracked key through
  /// `on_access` (the cache never does): cost-based clauses are then not evaluated.
  inconsistent_input: bool,
  /// a tracked key was re-admitted with a different cost (legal; the property says the new cost must win)
  readmit_changed_cost: bool }
impl Mon {
  fn fail(&mut self, sig: &str, msg: String) {
    let s = format!("{}:{}", self.policy, sig);
    if !self.fails.iter().any(|f| f.0 == s) { self.fails.push((s, msg)); }
  }
}

fn run_case(id: &str, policy: &str, cap: u64, ops: &[String]) -> String {
  let p = mk(policy, cap);
  let mut tr = Tr::new(id, &format!("policy={policy} cap={cap}"));
  let mut m = Mon { policy: policy.to_string(), want: BTreeMap::new(), fails: vec![], stamp: BTreeMap::new(), clock: 0, inconsistent_input: false, readmit_changed_cost: false };
  for op in ops {
    let r = std::panic::catch_unwind(std::panic::AssertUnwindSafe(|| run_op(&p, policy, op, &mut tr, &mut m)));
    if r.is_err() {
      tr.line(op, "panic");
      let name = op.split_whitespace().next().unwrap_or("?").to_string();
      m.fail(&format!("{name}-panicked"), format!("`{op}` panicked inside the policy"));
      break;
    }
  }
  for (s, msg) in &m.fails { tr.monitor(s, msg); }
  tr.finish()
}

fn run_op(p: &P, policy: &str, op: &str, tr: &mut Tr, m: &mut Mon) {
  {
    let t: Vec<&str> = op.split_whitespace().collect();
    let n = |i: usize| -> u64 { t.get(i).and_then(|s| s.parse().ok()).unwrap_or(0) };
    m.clock += 1;
    match t[0] {
      "access" => {
        p.on_access(&n(1), n(2));
        if let Some(c) = m.want.get(&n(1)) { if *c != n(2) { m.inconsistent_input = true; } }
        if m.want.contains_key(&n(1)) && policy != "fifo" { m.stamp.insert(n(1), m.clock); }
        tr.line(op, "-");
      }
      "admit" => {
        let k = n(1);
        let fresh = !m.want.contains_key(&k);
        if let Some(c) = m.want.get(&k) { if *c != n(2) { m.readmit_changed_cost = true; } }
        let fifo_keep = policy == "fifo" && !fresh;
        let r = match p.on_admit(&k, n(2)) {
          AdmissionDecision::Admit => { m.want.insert(k, n(2)); if !fifo_keep { m.stamp.insert(k, m.clock); } "admit".to_string() }
          AdmissionDecision::Reject => "reject".to_string(),
          AdmissionDecision::AdmitAndEvict(v) => {
            m.want.insert(k, n(2)); if !fifo_keep { m.stamp.insert(k, m.clock); }
            for x in &v {
              if m.want.remove(x).is_none() { m.fail("admit-nominates-untracked", format!("on_admit({k}) nominated {x} which is not tracked")); }
              m.stamp.remove(x);
            }
            format!("evict:{}", list(&v))
          }
        };
        tr.line(op, &r);
      }
      "remove" => { p.on_remove(&n(1)); m.want.remove(&n(1)); m.stamp.remove(&n(1)); tr.line(op, "-"); }
      "clear" => { p.clear(); m.want.clear(); m.stamp.clear(); tr.line(op, "-"); }
      "evict" => {
        let need = n(1);
        let evictable: u64 = m.want.values().sum();
        let before = m.want.clone();
        let (v, freed) = p.evict(need);
        let mut sum = 0u64;
        let mut seen = std::collections::BTreeSet::new();
        let mut prev_stamp = 0u64;
        for (i, x) in v.iter().enumerate() {
          if !seen.insert(*x) { m.fail("evict-duplicate-victim", format!("evict({need}) nominated {x} twice")); continue; }
          match m.want.remove(x) {
            None => m.fail("evict-untracked-victim", format!("evict({need}) nominated {x} which is not tracked")),
            Some(c) => sum += c,
          }
          if policy == "lru" || policy == "fifo" {
            // victim must be the least recent (lru) / oldest admitted (fifo) of what was tracked
            let st = m.stamp.get(x).copied().unwrap_or(0);
            if i > 0 && st < prev_stamp { m.fail("evict-order", format!("victims {:?} not in policy order", v)); }
            prev_stamp = st;
            if let Some((y, sy)) = m.stamp.iter().filter(|(y, _)| m.want.contains_key(y)).min_by_key(|(_, s)| **s) {
              if *sy < st { m.fail("evict-order", format!("evicted {x} while {y} is older")); }
            }
          }
          m.stamp.remove(x);
        }
        if sum != freed && !m.inconsistent_input && seen.len() == v.len() && v.iter().all(|x| before.contains_key(x)) {
          m.fail("evict-cost-differs-from-last-admitted-cost", format!("evict({need}) reported {freed} but victims {:?} were last admitted with total cost {sum}", v));
        }
        // (a policy that kept a stale cost after a re-admit is reported by the clause above, not here)
        if evictable >= need && freed < need && !m.inconsistent_input && !(m.readmit_changed_cost && sum != freed) {
          let left: Vec<_> = m.want.keys().collect();
          m.fail("evict-frees-less-than-requested-while-tracked-keys-remain", format!("evict({need}) freed {freed}; admitted-not-removed keys worth {evictable}; still resident per contract: {:?}", left));
        }
        tr.line(op, &format!("{} {}", list(&v), freed));
      }
      _ => tr.raw(&format!("# unknown op {op}")),
    }
  }
}

fn gen_ops(rng: &mut Rng, policy: &str, cap: u64) -> Vec<String> {
  let nkeys = *rng.pick(&[3u64, 5, 8, 12]);
  let len = rng.range(4, 40) as usize;
  let maxcost = *rng.pick(&[1u64, 1, 3, 6]);
  let zero_cost = rng.chance(1, 5);
  let mut ops = vec![];
  let mut last: BTreeMap<u64, u64> = BTreeMap::new();
  for _ in 0..len {
    let k = rng.below(nkeys);
    let c = if zero_cost && rng.chance(1, 4) { 0 } else { rng.range(1, maxcost) };
    let op = *rng.weighted(&[(40u32, "admit"), (25, "access"), (8, "remove"), (12, "evict"), (1, "clear")]);
    ops.push(match op {
      "admit" => { last.insert(k, c); format!("admit {k} {c}") }
      // like the cache, report the entry's own cost on access (1 in 40: an arbitrary one)
      "access" => format!("access {k} {}", if rng.chance(1, 40) { c } else { last.get(&k).copied().unwrap_or(c) }),
      "remove" => format!("remove {k}"),
      "evict" => format!("evict {}", *rng.pick(&[0u64, 1, 1, 2, 3, 5, cap, 2 * cap + 1])),
      _ => "clear".to_string(),
    });
  }
  let _ = policy;
  ops.push("evict 1000000".to_string()); // drain: reveals the final order and everything still tracked
  ops.push("evict 1".to_string());
  ops
}

fn main() {
  match parse_args() {
    Mode::Gen { seed, cases, extra, .. } => {
      let only: Option<String> = extra.iter().find(|e| e.0 == "policy").map(|e| e.1.clone());
      let outs = par_map(cases, 8, |i| {
        let mut rng = Rng::new(seed.wrapping_mul(1_000_003).wrapping_add(i as u64));
        let policy = only.clone().unwrap_or_else(|| POLICIES[i % POLICIES.len()].to_string());
        let cap = *rng.pick(&[0u64, 1, 2, 3, 4, 5, 8, 10, 16, 50, 100, 150, 250]);
        let ops = gen_ops(&mut rng, &policy, cap);
        run_case(&format!("{seed}.{i}"), &policy, cap, &ops)
      });
      for o in outs { print!("{o}"); }
    }
    Mode::Run { file } => {
      for c in read_cases(&file) {
        let policy = kv(&c.header, "policy").unwrap_or("lru").to_string();
        let cap: u64 = kv(&c.header, "cap").and_then(|s| s.parse().ok()).unwrap_or(10);
        print!("{}", run_case(&c.id, &policy, cap, &c.ops));
      }
    }
  }
}
