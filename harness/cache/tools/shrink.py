#!/usr/bin/env python3
"""Delta-debugging shrinker for cacheh cases.
usage: shrink.py <transcript> <monitor-signature-prefix> [--mismatch] > out.case
Picks the shortest case in <transcript> whose monitors include the signature (or, with
--mismatch, that the Lean driver rejects), then removes op lines while the symptom persists."""
import subprocess, sys, os, tempfile
H = "/verif/.build/cargo/cache/release/cacheh"
D = "/verif/lean/.lake/build/bin/fvdrv_cache"
def cases(path):
    cur = None
    for l in open(path):
        if l.startswith("#case"): cur = {"h": l.rstrip("\n"), "ops": [], "mon": []}
        elif l.startswith("#end"):
            if cur: yield cur
            cur = None
        elif cur is not None:
            if l.startswith("!monitor"): cur["mon"].append(l)
            elif not l.startswith("#") and l.strip(): cur["ops"].append(l.split(" => ")[0].strip())
def run(h, ops, env=None):
    with tempfile.NamedTemporaryFile("w", suffix=".case", delete=False, dir="/verif/.build") as f:
        f.write(h + "\n" + "\n".join(ops) + "\n#end\n"); p = f.name
    out = subprocess.run([H, "run", p], capture_output=True, text=True, env=dict(os.environ, **(env or {}))).stdout
    os.unlink(p)
    return out
def has(out, sig, mismatch):
    if mismatch:
        d = subprocess.run([D], input=out, capture_output=True, text=True).stdout
        return "MISMATCH" in d
    return any(l.startswith("!monitor " + sig) for l in out.splitlines())
def main():
    path, sig = sys.argv[1], sys.argv[2]
    mismatch = "--mismatch" in sys.argv
    best = None
    for c in cases(path):
        if mismatch or any(m.startswith("!monitor " + sig) for m in c["mon"]):
            if mismatch and not has(run(c["h"], c["ops"]), sig, True): continue
            if best is None or len(c["ops"]) < len(best["ops"]): best = c
            if mismatch: break
    if best is None: sys.exit("no case with that symptom")
    h, ops = best["h"], best["ops"]
    n = 2
    while len(ops) >= 2:
        chunk = max(1, len(ops) // n); reduced = False
        for i in range(0, len(ops), chunk):
            cand = ops[:i] + ops[i + chunk:]
            if cand and has(run(h, cand), sig, mismatch): ops = cand; n = max(n - 1, 2); reduced = True; break
        if not reduced:
            if chunk == 1: break
            n = min(n * 2, len(ops))
    sys.stdout.write(h + "\n" + "\n".join(ops) + "\n#end\n")
main()
