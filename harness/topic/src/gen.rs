//! Program generator: sequential API programs over a few topics, 1–4 receiver handles
//! (clones), 1–3 sender handles, capacities 1–4. Mostly valid, with a thin malformed stream
//! (operations on dropped / never created handles, wrong flavour).
use crate::ops::Op;
use vcommon::Rng;

pub struct Case { pub cap: usize, pub is_async: bool, pub str_keys: bool, pub ops: Vec<Op> }

#[derive(Clone, Copy, PartialEq)]
enum H { Live, Gone }

pub fn gen_case(rng: &mut Rng, thorough: bool) -> Case {
  let cap = rng.range(1, 4) as usize;
  let is_async = rng.chance(1, 3);
  let str_keys = rng.chance(1, 3);
  let ntopics = rng.range(2, 3) as u32;
  // profile: 0 routing (no lifecycle noise), 1 lifecycle heavy, 2 shutdown at the end
  let profile = *rng.weighted(&[(4u32, 0u8), (4, 1), (3, 2)]);
  let len = if thorough { rng.range(10, 70) } else { rng.range(6, 36) } as usize;
  let mut rx = vec![H::Live];
  let mut tx = vec![H::Live];
  let mut ops = vec![];
  let mut next_val = 1u32;
  let live = |v: &Vec<H>, rng: &mut Rng| -> Option<usize> {
    let l: Vec<usize> = v.iter().enumerate().filter(|x| *x.1 == H::Live).map(|x| x.0).collect();
    if l.is_empty() { None } else { Some(*rng.pick(&l)) }
  };
  // initial subscriptions so that routing happens early
  for _ in 0..rng.range(0, 2) { ops.push(Op::Sub(0, rng.below(ntopics as u64) as u32)); }
  while ops.len() < len {
    let lifecycle = match profile { 0 => 2, 1 => 14, _ => 6 };
    let choice = *rng.weighted(&[
      (30u32, 0u8), (12, 1), (7, 2), (16, 3), (5, 4), (4, 5), (4, 6), // send sub unsub tryrecv recv rto0 next
      (5, 7), (3, 8),                                                  // rclone sclone
      (lifecycle, 9),                                                  // close/drop/conv family
      (4, 10),                                                         // observers
      (1, 11),                                                         // malformed
    ]);
    let t = rng.below(ntopics as u64) as u32;
    match choice {
      0 => { if let Some(h) = live(&tx, rng) { ops.push(Op::Send(h, t, next_val)); next_val += 1; } }
      1 => { if let Some(r) = live(&rx, rng) { ops.push(Op::Sub(r, t)); } }
      2 => { if let Some(r) = live(&rx, rng) { ops.push(Op::Unsub(r, t)); } }
      3 => { if let Some(r) = live(&rx, rng) { ops.push(Op::TryRecv(r)); } }
      4 => { if let Some(r) = live(&rx, rng) { ops.push(Op::Recv(r)); } }
      5 => { if let Some(r) = live(&rx, rng) { ops.push(Op::Rto0(r)); } }
      6 => { if let Some(r) = live(&rx, rng) { ops.push(Op::Next(r)); } }
      7 => { if rx.len() < 4 { if let Some(r) = live(&rx, rng) { ops.push(Op::RClone(r)); rx.push(H::Live); } } }
      8 => { if tx.len() < 3 { if let Some(h) = live(&tx, rng) { ops.push(Op::SClone(h)); tx.push(H::Live); } } }
      9 => {
        let k = *rng.weighted(&[(3u32, 0u8), (3, 1), (2, 2), (3, 3), (3, 4), (2, 5)]);
        match k {
          0 => { if let Some(h) = live(&tx, rng) { ops.push(Op::SClose(h)); } }
          1 => { if let Some(h) = live(&tx, rng) { ops.push(Op::SDrop(h)); tx[h] = H::Gone; } }
          2 => { if let Some(h) = live(&tx, rng) { ops.push(Op::SConv(h)); } }
          3 => { if let Some(r) = live(&rx, rng) { ops.push(Op::RClose(r)); } }
          4 => { if let Some(r) = live(&rx, rng) { ops.push(Op::RDrop(r)); rx[r] = H::Gone; } }
          _ => { if let Some(r) = live(&rx, rng) { ops.push(Op::RConv(r)); } }
        }
      }
      10 => {
        let k = rng.below(4);
        match k {
          0 => { if let Some(r) = live(&rx, rng) { ops.push(Op::IsEmpty(r)); } }
          1 => { if let Some(r) = live(&rx, rng) { ops.push(Op::RIsClosed(r)); } }
          2 => { if let Some(r) = live(&rx, rng) { ops.push(Op::Cap(r)); } }
          _ => { if let Some(h) = live(&tx, rng) { ops.push(Op::SIsClosed(h)); } }
        }
      }
      _ => {
        // malformed: any op on an arbitrary (possibly dropped / non-existent) handle index
        let i = rng.below(5) as usize;
        let cand = [Op::Send(i, t, 0), Op::TryRecv(i), Op::Sub(i, t), Op::RClose(i), Op::SClose(i), Op::RDrop(i), Op::SDrop(i), Op::Rto0(i), Op::Next(i), Op::SClone(i), Op::RClone(i)];
        let op = *rng.pick(&cand);
        // keep the generator's own handle table truthful
        match op {
          Op::RDrop(r) if r < rx.len() => rx[r] = H::Gone,
          Op::SDrop(h) if h < tx.len() => tx[h] = H::Gone,
          Op::RClone(r) if r < rx.len() && rx[r] == H::Live => rx.push(H::Live),
          Op::SClone(_) => { continue; } // flavour-dependent outcome: leave to the valid stream
          _ => {}
        }
        ops.push(op);
      }
    }
  }
  // epilogue: (shutdown profile) all sender handles go away; then every live receiver is drained
  // one receive past its capacity so that the monitor sees the whole received sequence and the
  // final Empty/Disconnected.
  if profile == 2 {
    for h in 0..tx.len() { if tx[h] == H::Live { ops.push(if rng.chance(1, 2) { Op::SDrop(h) } else { Op::SClose(h) }); } }
  }
  for r in 0..rx.len() {
    if rx[r] == H::Live {
      for _ in 0..cap + 1 { ops.push(Op::TryRecv(r)); }
    }
  }
  Case { cap, is_async, str_keys, ops }
}
