//! Real-thread stress: publishers ‖ subscribe/unsubscribe ‖ receive on the real channel.
//! The histories are judged by monitors only (no model replay — interleavings inside one
//! API call are not tied to the model; see props/C08.meta.json):
//!   * per receiver and publisher: sequence numbers strictly increase (publish order, at most once),
//!   * a received message's topic was possibly subscribed at some instant of its publish call,
//!   * (capacity ≥ number of sends, so the mailbox is never full) every message whose publish call
//!     lies strictly inside an interval in which the receiver was definitely subscribed arrives,
//!   * no send fails, no Disconnected before the sender handles go away, Disconnected after
//!     they all went away for receivers that hold a subscription.
//! Logical time: one SeqCst counter ticked before and after every call.
use fibre::error::TryRecvError;
use fibre::spmc::topic::{self, AsyncTopicReceiver, TopicReceiver};
use fibre::RecvErrorTimeout;
use std::collections::{HashMap, HashSet};
use std::future::Future;
use std::pin::pin;
use std::sync::atomic::{AtomicBool, AtomicU64, Ordering};
use std::sync::Arc;
use std::task::{Context, Poll, Wake, Waker};
use std::time::Duration;
use vcommon::{Rng, Tr};

struct Unpark(std::thread::Thread);
impl Wake for Unpark { fn wake(self: Arc<Self>) { self.0.unpark(); } }

enum AnyRx { S(TopicReceiver<u32, u64>), A(AsyncTopicReceiver<u32, u64>) }
impl AnyRx {
  fn subscribe(&self, t: u32) { match self { AnyRx::S(r) => r.subscribe(t), AnyRx::A(r) => r.subscribe(t) } }
  fn unsubscribe(&self, t: u32) { match self { AnyRx::S(r) => r.unsubscribe(&t), AnyRx::A(r) => r.unsubscribe(&t) } }
  fn try_recv(&self) -> Result<(u32, u64), TryRecvError> { match self { AnyRx::S(r) => r.try_recv(), AnyRx::A(r) => r.try_recv() } }
  /// Some(Ok) message, Some(Err) disconnected, None nothing within ~1 ms
  fn recv_some(&self, pick: u64) -> Option<Result<(u32, u64), ()>> {
    match self {
      AnyRx::S(r) => {
        if pick % 2 == 0 {
          match r.try_recv() { Ok(m) => Some(Ok(m)), Err(TryRecvError::Empty) => None, Err(TryRecvError::Disconnected) => Some(Err(())) }
        } else {
          match r.recv_timeout(Duration::from_millis(1)) { Ok(m) => Some(Ok(m)), Err(RecvErrorTimeout::Timeout) => None, Err(RecvErrorTimeout::Disconnected) => Some(Err(())) }
        }
      }
      AnyRx::A(r) => {
        if pick % 2 == 0 {
          match r.try_recv() { Ok(m) => Some(Ok(m)), Err(TryRecvError::Empty) => None, Err(TryRecvError::Disconnected) => Some(Err(())) }
        } else {
          let waker = Waker::from(Arc::new(Unpark(std::thread::current())));
          let mut cx = Context::from_waker(&waker);
          let mut f = pin!(r.recv());
          match f.as_mut().poll(&mut cx) {
            Poll::Ready(Ok(m)) => Some(Ok(m)),
            Poll::Ready(Err(_)) => Some(Err(())),
            Poll::Pending => {
              std::thread::park_timeout(Duration::from_millis(1));
              match f.as_mut().poll(&mut cx) { Poll::Ready(Ok(m)) => Some(Ok(m)), Poll::Ready(Err(_)) => Some(Err(())), Poll::Pending => None }
            }
          }
        }
      }
    }
  }
}

struct PubRec { t: u32, start: u64, end: u64, ok: bool }
struct CtlRec { sub: bool, t: u32, start: u64, end: u64 }

pub fn stress_case(id: &str, rng: &mut Rng, thorough: bool) -> String {
  let npub = rng.range(1, 2) as usize;
  let nrx = rng.range(1, 3) as usize;
  let ntopics = rng.range(2, 3) as u32;
  let per_pub = if thorough { rng.range(4000, 20000) } else { rng.range(1500, 5000) } as usize;
  let never_full = rng.chance(2, 3);
  let cap = if never_full { npub * per_pub + 8 } else { rng.range(1, 4) as usize };
  let ctl_ops = per_pub / 8 + 4;
  let is_async = rng.chance(1, 3);
  let header = format!("prop=C08 mode=stress pubs={npub} rxs={nrx} topics={ntopics} cap={} sends={per_pub} kind={}",
    if never_full { "unbounded-enough".to_string() } else { cap.to_string() }, if is_async { "async" } else { "sync" });
  let mut tr = Tr::new(id, &header);

  let (tx0, rx0) = topic::channel::<u32, u64>(cap);
  let mut txs = vec![tx0];
  for _ in 1..npub { let c = txs[0].clone(); txs.push(c); }
  let mut rx_sync = vec![rx0];
  for _ in 1..nrx { let c = rx_sync[0].clone(); rx_sync.push(c); }
  let rxs: Vec<AnyRx> = rx_sync.into_iter().map(|r| if is_async { AnyRx::A(r.to_async()) } else { AnyRx::S(r) }).collect();
  // initial subscriptions (time 0)
  let mut init_subs: Vec<Vec<u32>> = vec![];
  for r in &rxs {
    let mut s = vec![];
    for t in 0..ntopics { if rng.chance(1, 2) { r.subscribe(t); s.push(t); } }
    init_subs.push(s);
  }
  let clk = AtomicU64::new(1);
  let tick = || clk.fetch_add(1, Ordering::SeqCst);
  let stop = AtomicBool::new(false);
  let barrier = std::sync::Barrier::new(npub + 2 * nrx);
  let pub_seeds: Vec<u64> = (0..npub).map(|_| rng.next()).collect();
  let ctl_seeds: Vec<u64> = (0..nrx).map(|_| rng.next()).collect();
  let rcv_seeds: Vec<u64> = (0..nrx).map(|_| rng.next()).collect();

  let mut pub_logs: Vec<Vec<PubRec>> = vec![];
  let mut ctl_logs: Vec<Vec<CtlRec>> = vec![];
  let mut rcv_logs: Vec<(Vec<(u32, u64)>, bool)> = vec![]; // received, saw Disconnected early
  std::thread::scope(|s| {
    let mut ph = vec![];
    for (p, tx) in txs.iter().enumerate() {
      let (tick, seed, bar) = (&tick, pub_seeds[p], &barrier);
      ph.push(s.spawn(move || {
        let mut rng = Rng::new(seed);
        bar.wait();
        let mut log = Vec::with_capacity(per_pub);
        for seq in 0..per_pub {
          let t = rng.below(ntopics as u64) as u32;
          let start = tick();
          let ok = tx.send(t, (p as u64) * 1_000_000_000 + seq as u64).is_ok();
          let end = tick();
          log.push(PubRec { t, start, end, ok });
          crate::PROGRESS.fetch_add(1, Ordering::Relaxed);
          if rng.chance(1, 8) { std::thread::yield_now(); }
        }
        log
      }));
    }
    let mut ch = vec![];
    let mut rh = vec![];
    for (i, rx) in rxs.iter().enumerate() {
      let (tick, seed, bar) = (&tick, ctl_seeds[i], &barrier);
      ch.push(s.spawn(move || {
        let mut rng = Rng::new(seed);
        bar.wait();
        let mut log = vec![];
        for _ in 0..ctl_ops {
          let t = rng.below(ntopics as u64) as u32;
          let sub = rng.chance(3, 5);
          let start = tick();
          if sub { rx.subscribe(t) } else { rx.unsubscribe(t) }
          let end = tick();
          log.push(CtlRec { sub, t, start, end });
          for _ in 0..rng.below(4) { std::thread::yield_now(); }
        }
        log
      }));
      let (stop, seed, bar) = (&stop, rcv_seeds[i], &barrier);
      rh.push(s.spawn(move || {
        let mut rng = Rng::new(seed);
        bar.wait();
        let mut got = vec![];
        let mut early_disc = false;
        loop {
          let stopping = stop.load(Ordering::SeqCst);
          match rx.recv_some(rng.next()) {
            Some(Ok(m)) => got.push(m),
            Some(Err(())) => { early_disc = true; break; }
            None => { if stopping { break; } }
          }
          crate::PROGRESS.fetch_add(1, Ordering::Relaxed);
        }
        // final drain after publishers and controllers are done
        while let Ok(m) = rx.try_recv() { got.push(m); }
        (got, early_disc)
      }));
    }
    for h in ph { pub_logs.push(h.join().unwrap()); }
    for h in ch { ctl_logs.push(h.join().unwrap()); }
    stop.store(true, Ordering::SeqCst);
    for h in rh { rcv_logs.push(h.join().unwrap()); }
  });

  // ---- judge
  for (p, log) in pub_logs.iter().enumerate() {
    let ok = log.iter().filter(|r| r.ok).count();
    tr.line(&format!("published p{p} n={}", log.len()), &format!("ok={ok}"));
    if ok != log.len() { tr.monitor("topic-stress:send-failed-while-receivers-alive", &format!("publisher {p}: {} sends returned Closed", log.len() - ok)); }
  }
  for i in 0..nrx {
    let (got, early_disc) = &rcv_logs[i];
    // subscription intervals per topic: (possible_from, definite_from, definite_until, possible_until)
    let mut iv: HashMap<u32, Vec<(u64, u64, u64, u64)>> = HashMap::new();
    let mut cur: HashMap<u32, (u64, u64)> = HashMap::new();
    for t in &init_subs[i] { cur.insert(*t, (0, 0)); }
    for c in &ctl_logs[i] {
      if c.sub { cur.entry(c.t).or_insert((c.start, c.end)); }
      else if let Some((pf, df)) = cur.remove(&c.t) { iv.entry(c.t).or_default().push((pf, df, c.start, c.end)); }
    }
    let final_subs: HashSet<u32> = cur.keys().copied().collect();
    for (t, (pf, df)) in cur { iv.entry(t).or_default().push((pf, df, u64::MAX, u64::MAX)); }
    let mut last_seq: HashMap<u64, u64> = HashMap::new();
    let mut seen: HashSet<u64> = HashSet::new();
    let mut bad = false;
    for (t, val) in got {
      let (p, seq) = ((val / 1_000_000_000) as usize, val % 1_000_000_000);
      if let Some(l) = last_seq.get(&(p as u64)) {
        if *l >= seq && !bad { bad = true; tr.monitor("topic-stress:reordered-or-duplicated", &format!("receiver {i}: from publisher {p} got seq {seq} after {l}")); }
      }
      last_seq.insert(p as u64, seq);
      seen.insert(*val);
      let rec = match pub_logs.get(p).and_then(|l| l.get(seq as usize)) { Some(r) => r, None => { tr.monitor("topic-stress:unknown-message", &format!("receiver {i} got value {val} nobody published")); continue; } };
      if rec.t != *t { tr.monitor("topic-stress:topic-mismatch", &format!("receiver {i}: value {val} published to {} arrived as topic {t}", rec.t)); continue; }
      let possible = iv.get(t).map_or(false, |v| v.iter().any(|(pf, _, _, pu)| *pf <= rec.end && rec.start <= *pu));
      if !possible && !bad { bad = true; tr.monitor("topic-stress:message-for-unsubscribed-topic", &format!("receiver {i} got ({t},{val}) but was not subscribed to {t} at any instant of that publish call")); }
    }
    let mut owed = 0usize;
    if never_full {
      for (p, log) in pub_logs.iter().enumerate() {
        for (seq, rec) in log.iter().enumerate() {
          if !rec.ok { continue; }
          let definite = iv.get(&rec.t).map_or(false, |v| v.iter().any(|(_, df, du, _)| *df < rec.start && rec.end < *du));
          if definite {
            owed += 1;
            let val = (p as u64) * 1_000_000_000 + seq as u64;
            if !seen.contains(&val) && !bad { bad = true; tr.monitor("topic-stress:message-lost", &format!("receiver {i}: ({},{val}) was published while it was continuously subscribed and its mailbox never full, but never arrived", rec.t)); }
          }
        }
      }
    }
    if *early_disc { tr.monitor("topic-stress:disconnected-while-senders-alive", &format!("receiver {i} observed Disconnected while every sender handle was alive")); }
    tr.line(&format!("received r{i} ctl={}", ctl_logs[i].len()), &format!("n={} owed_at_least={owed} final_subs={}", got.len(), final_subs.len()));
    let _ = final_subs;
  }
  // shutdown: all sender handles go away; receivers holding a subscription must now see Disconnected
  let final_nonempty: Vec<bool> = (0..nrx).map(|i| {
    let mut cur: HashSet<u32> = init_subs[i].iter().copied().collect();
    for c in &ctl_logs[i] { if c.sub { cur.insert(c.t); } else { cur.remove(&c.t); } }
    !cur.is_empty()
  }).collect();
  drop(txs);
  for (i, rx) in rxs.iter().enumerate() {
    let r = rx.try_recv();
    let s = match r { Ok(_) => "msg", Err(TryRecvError::Empty) => "empty", Err(TryRecvError::Disconnected) => "disc" };
    if final_nonempty[i] {
      tr.line(&format!("after-shutdown r{i} subscribed"), s);
      if s != "disc" { tr.monitor("topic-stress:disconnected-not-observed", &format!("receiver {i} holds a subscription, all senders dropped, mailbox drained: try_recv returned {s}")); }
    } else {
      tr.line(&format!("after-shutdown r{i} unsubscribed"), "-");
    }
  }
  tr.finish()
}
