//! Harness-side oracle for C08 (and the topic part of C04): evaluates the PROPERTY on the
//! implementation's history. It sees only (operation, canonical result) pairs and keeps the
//! reference bookkeeping the statement talks about:
//!   * which sender handles are open (not closed, not dropped),
//!   * per receiver: open?, the subscription set per the API contract (subscribe adds,
//!     unsubscribe removes, clone copies, close/drop clears), and the queue the statement
//!     prescribes: every accepted publish to a topic in the set at publish time, in publish
//!     order, except the newest one when the queue already holds `cap` messages,
//!   * Disconnected timing: allowed only when no sender handle is open and the queue is
//!     empty; required then, whatever the subscriptions.
//! It does NOT mirror the implementation (no dispatcher lists, no receiver_count, no
//! is_disconnected flag). Signatures name the history shape so that a different violation
//! of the same clause does not match a known finding.
use crate::ops::{Op, Res};
use std::collections::{BTreeSet, VecDeque};

#[derive(Clone, Copy, PartialEq, Eq)]
pub enum Family { C08, C04, All }
impl Family {
  pub fn parse(s: &str) -> Family { match s { "C04" => Family::C04, "all" => Family::All, _ => Family::C08 } }
  fn has(self, f: &[Family]) -> bool { self == Family::All || f.contains(&self) }
}
const BOTH: &[Family] = &[Family::C08, Family::C04];
const ONLY08: &[Family] = &[Family::C08];
const ONLY04: &[Family] = &[Family::C04];
const INHERIT_SIG: &str = "topic:subscribe-on-closed-receiver-takes-effect";
const INHERIT_MSG: &str = "clone of a closed receiver on which subscribe() was still accepted after close inherits those subscriptions";

struct SRx {
  open: bool,       // not closed, not dropped
  closed: bool,     // close() succeeded on it at some point
  dropped: bool,
  is_async: bool,
  cap: usize,
  subs: BTreeSet<u32>,
  q: VecDeque<(u32, u32)>,
  seen_disc: bool,
  born_after_shutdown: bool,
  subs_empty_at_shutdown: bool,
  converted_after_close: bool,
  resub_after_close: bool,     // subscribe() was called on it after close (contract: rejected)
  inherits_closed_subs: bool,  // cloned from such a handle
  tainted: bool, // reference and implementation already diverged on this receiver: stop judging it
}
struct STx { open: bool, dropped: bool, is_async: bool }

pub struct Mon {
  fam: Family,
  rxs: Vec<SRx>,
  txs: Vec<STx>,
  any_sender_end: bool,        // some sender handle was closed or dropped
  cause_async_close_drop: bool, // an async receiver was closed and later dropped
  cause_conv_closed: bool,      // a closed receiver was converted (flag reset) and later closed/dropped again
  reported: BTreeSet<String>,
  pub out: Vec<(String, String)>,
}

impl Mon {
  pub fn new(fam: Family, cap: usize, is_async: bool) -> Mon {
    Mon {
      fam,
      rxs: vec![SRx { open: true, closed: false, dropped: false, is_async, cap, subs: BTreeSet::new(), q: VecDeque::new(),
                      seen_disc: false, born_after_shutdown: false, subs_empty_at_shutdown: false, converted_after_close: false, resub_after_close: false, inherits_closed_subs: false, tainted: false }],
      txs: vec![STx { open: true, dropped: false, is_async }],
      any_sender_end: false, cause_async_close_drop: false, cause_conv_closed: false, reported: BTreeSet::new(), out: vec![],
    }
  }

  fn emit(&mut self, fams: &[Family], sig: &str, msg: String) {
    // one report per signature and case
    if self.fam.has(fams) && self.reported.insert(sig.to_string()) { self.out.push((sig.to_string(), msg)); }
  }
  fn open_senders(&self) -> usize { self.txs.iter().filter(|t| t.open).count() }
  fn open_receivers(&self) -> usize { self.rxs.iter().filter(|r| r.open).count() }

  fn sender_end(&mut self, h: usize) {
    let before = self.open_senders();
    self.txs[h].open = false;
    self.any_sender_end = true;
    if before > 0 && self.open_senders() == 0 {
      for r in self.rxs.iter_mut() { r.subs_empty_at_shutdown = r.subs.is_empty(); r.born_after_shutdown = false; }
    }
  }

  fn cause(&self) -> &'static str {
    if self.cause_async_close_drop { "/async-close-then-drop" } else if self.cause_conv_closed { "/convert-resets-closed" } else { "" }
  }

  /// Feed one executed operation and its result.
  pub fn observe(&mut self, op: Op, res: Res) {
    use Op::*;
    if res == Res::Invalid || res == Res::Skip { return; }
    match op {
      Send(h, t, v) => {
        if h >= self.txs.len() || self.txs[h].dropped { return; }
        let tx_open = self.txs[h].open;
        let any_rx = self.open_receivers() > 0;
        match res {
          Res::Ok => {
            if !tx_open { self.emit(ONLY04, "topic:send-on-closed-sender-ok", format!("send on closed sender handle {h} returned Ok")); }
            else if !any_rx {
              let sig = format!("topic:send-ok-with-no-receivers{}", self.cause());
              self.emit(ONLY04, &sig, format!("send {t} {v} returned Ok although every receiver handle is closed or dropped"));
            }
            for r in self.rxs.iter_mut() {
              if r.open && r.subs.contains(&t) && r.q.len() < r.cap { r.q.push_back((t, v)); }
            }
          }
          Res::Closed => {
            if tx_open && any_rx {
              let sig = format!("topic:send-closed-while-receiver-alive{}", self.cause());
              self.emit(ONLY04, &sig, format!("send {t} {v} on open sender {h} returned Closed while {} receiver handle(s) are open", self.open_receivers()));
            }
          }
          _ => self.emit(BOTH, "topic:send-bad-result", format!("send returned {}", res.fmt())),
        }
      }
      SClone(_) => { if let Res::Handle(_) = res { self.txs.push(STx { open: true, dropped: false, is_async: false }); } }
      SClose(h) => {
        if h >= self.txs.len() || self.txs[h].dropped { return; }
        let expect_ok = self.txs[h].open;
        match res {
          Res::Ok => { if !expect_ok { self.emit(ONLY04, "topic:sender-close-not-idempotent", format!("second close of sender {h} returned Ok")); } self.sender_end(h); }
          Res::CloseErr => { if expect_ok { self.emit(ONLY04, "topic:sender-close-error-on-open-handle", format!("close of open sender {h} returned CloseError")); } }
          _ => {}
        }
      }
      SDrop(h) => { if h < self.txs.len() && !self.txs[h].dropped { self.sender_end(h); self.txs[h].dropped = true; } }
      SConv(h) => { if h < self.txs.len() { self.txs[h].is_async = !self.txs[h].is_async; } }
      SIsClosed(_) => {}
      Sub(r, t) => { if let Some(x) = self.rxs.get_mut(r) { if x.open { x.subs.insert(t); } else if !x.dropped { x.resub_after_close = true; } } }
      Unsub(r, t) => { if let Some(x) = self.rxs.get_mut(r) { if x.open { x.subs.remove(&t); } } }
      RClone(r) => {
        if let (Res::Handle(_), Some(p)) = (res, self.rxs.get(r)) {
          let shutdown = self.open_senders() == 0;
          let n = SRx { open: true, closed: false, dropped: false, is_async: p.is_async, cap: p.cap,
                        subs: if p.open { p.subs.clone() } else { BTreeSet::new() }, q: VecDeque::new(), seen_disc: false,
                        born_after_shutdown: shutdown, subs_empty_at_shutdown: false, converted_after_close: false, resub_after_close: false,
                        inherits_closed_subs: (!p.open && p.resub_after_close) || p.inherits_closed_subs, tainted: false };
          self.rxs.push(n);
        }
      }
      RClose(r) => {
        if r >= self.rxs.len() || self.rxs[r].dropped { return; }
        let (was_closed, lenient, conv) = { let x = &self.rxs[r]; (x.closed, x.born_after_shutdown, x.converted_after_close) };
        match res {
          Res::Ok => {
            if was_closed {
              if conv { self.cause_conv_closed = true; self.emit(ONLY04, "topic:receiver-convert-resets-closed", format!("close of receiver {r} returned Ok a second time after to_async/to_sync")); }
              else { self.emit(ONLY04, "topic:receiver-close-not-idempotent", format!("second close of receiver {r} returned Ok")); }
            }
            let x = &mut self.rxs[r]; x.open = false; x.closed = true; x.subs.clear();
          }
          Res::CloseErr => {
            if !was_closed && !lenient { self.emit(ONLY04, "topic:receiver-close-error-on-open-handle", format!("close of open receiver {r} returned CloseError")); }
          }
          _ => {}
        }
      }
      RDrop(r) => {
        if r >= self.rxs.len() || self.rxs[r].dropped { return; }
        let x = &mut self.rxs[r];
        if x.closed && x.is_async && !x.converted_after_close { self.cause_async_close_drop = true; }
        if x.closed && x.converted_after_close { self.cause_conv_closed = true; }
        x.open = false; x.dropped = true; x.subs.clear();
      }
      RConv(r) => {
        if let Some(x) = self.rxs.get_mut(r) { if !x.dropped { x.is_async = !x.is_async; if x.closed { x.converted_after_close = true; } } }
      }
      TryRecv(r) | Recv(r) | Rto0(r) | Next(r) => self.on_recv(op, r, res),
      RIsClosed(_) | Cap(_) => {}
      IsEmpty(r) => {
        if let (Some(x), Res::Bool(b)) = (self.rxs.get(r), res) {
          if x.open && !x.tainted && b != x.q.is_empty() {
            let m = format!("is_empty()={b} on receiver {r} but {} message(s) are owed to it", x.q.len());
            self.rxs[r].tainted = true;
            if self.rxs[r].inherits_closed_subs { self.emit(BOTH, INHERIT_SIG, format!("{INHERIT_MSG}: {m}")); }
            else { self.emit(ONLY08, "topic:isempty-mismatch", m); }
          }
        }
      }
    }
  }

  fn on_recv(&mut self, op: Op, r: usize, res: Res) {
    if r >= self.rxs.len() || self.rxs[r].dropped { return; }
    let open_senders = self.open_senders();
    let any_sender_end = self.any_sender_end;
    let closed_handle = self.rxs[r].closed;
    match res {
      Res::Msg(t, v) => {
        if self.rxs[r].seen_disc {
          self.emit(BOTH, "topic:value-after-disconnected", format!("receiver {r} obtained ({t},{v}) after it had observed Disconnected"));
        }
        if closed_handle {
          self.emit(ONLY04, "topic:recv-on-closed-receiver-ok", format!("{} on closed receiver handle {r} returned Ok(({t},{v}))", op.fmt()));
        }
        if self.rxs[r].tainted { return; }
        let front = self.rxs[r].q.front().copied();
        if front == Some((t, v)) { self.rxs[r].q.pop_front(); return; }
        self.rxs[r].tainted = true;
        if self.rxs[r].inherits_closed_subs {
          self.emit(BOTH, INHERIT_SIG, format!("{INHERIT_MSG}: receiver {r} obtained ({t},{v}) which the contract does not owe it"));
        } else if closed_handle && self.rxs[r].resub_after_close && front.is_none() {
          self.emit(BOTH, INHERIT_SIG, format!("subscribe() was accepted on closed receiver {r}: it obtained ({t},{v}) published after its close"));
        } else if closed_handle && front.is_none() {
          self.emit(ONLY08, "topic:closed-receiver-still-receives", format!("receiver {r} was closed (subscriptions cleared) yet obtained ({t},{v}) published afterwards"));
        } else {
          let owed: Vec<String> = self.rxs[r].q.iter().map(|m| format!("({},{})", m.0, m.1)).collect();
          let kind = if self.rxs[r].q.iter().any(|m| *m == (t, v)) { "topic:message-skipped-or-reordered" } else { "topic:unexpected-message" };
          self.emit(ONLY08, kind, format!("receiver {r} obtained ({t},{v}); owed in order: [{}]", owed.join(",")));
        }
      }
      Res::Disc | Res::None => {
        let closed_form = matches!(op, Op::Rto0(_)) && closed_handle; // closed handle: recv_timeout maps every error to Disconnected
        if !closed_form { self.rxs[r].seen_disc = true; }
        if self.rxs[r].tainted || closed_handle { return; }
        if !self.rxs[r].q.is_empty() {
          self.rxs[r].tainted = true;
          let n = self.rxs[r].q.len();
          let m = format!("receiver {r} observed Disconnected while {n} message(s) are still owed to it");
          if self.rxs[r].inherits_closed_subs { self.emit(BOTH, INHERIT_SIG, format!("{INHERIT_MSG}: {m}")); }
          else { self.emit(BOTH, "topic:disconnected-before-drained", m); }
        } else if open_senders > 0 {
          if any_sender_end {
            self.emit(BOTH, "topic:sender-clone-drop-disconnects-while-other-sender-alive",
              format!("receiver {r} observed Disconnected while {open_senders} sender handle(s) are still open (another handle was closed/dropped earlier)"));
          } else {
            self.emit(BOTH, "topic:disconnected-while-sender-alive", format!("receiver {r} observed Disconnected although no sender handle ever went away"));
          }
        }
      }
      Res::Empty | Res::Timeout | Res::Pending | Res::WouldBlock => {
        if self.rxs[r].tainted || closed_handle { return; }
        if !self.rxs[r].q.is_empty() {
          self.rxs[r].tainted = true;
          let m = self.rxs[r].q[0];
          let m = format!("receiver {r} reports {} but ({},{}) published while it was subscribed (mailbox not full) is owed", res.fmt(), m.0, m.1);
          if self.rxs[r].inherits_closed_subs { self.emit(BOTH, INHERIT_SIG, format!("{INHERIT_MSG}: {m}")); }
          else { self.emit(ONLY08, "topic:message-missing", m); }
        } else if open_senders == 0 {
          let (born_after, empty_subs) = (self.rxs[r].born_after_shutdown, self.rxs[r].subs_empty_at_shutdown);
          let what = format!("receiver {r}: every sender handle is gone and its mailbox is drained, yet {} returned {} instead of Disconnected", op.fmt(), res.fmt());
          if born_after { self.emit(BOTH, "topic:clone-after-shutdown-never-disconnected", what); }
          else if empty_subs { self.emit(BOTH, "topic:no-subscription-never-disconnected", what); }
          else { self.emit(BOTH, "topic:disconnected-not-observed", what); }
        }
      }
      _ => {}
    }
  }
}
