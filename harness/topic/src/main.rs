//! `topich` — differential harness + property monitors for the topic pub/sub channel
//! (`fibre::spmc::topic`). Modes:
//!   gen --seed S --cases N [--tier quick|thorough] [--prop C08|C04|all]
//!   run <file> [--prop C08|C04|all]      (re-run the programs of a transcript / case file)
//!   stress --seed S --cases N [--tier ..] (real threads; histories judged by monitors only)
//!   block --seed S --cases N              (receivers parked in recv_timeout/recv while calls that must not block are timed)
//! Transcript protocol: /verif/docs/CONVENTIONS.md; tokens: lean/Fv/Driver/Topic.lean.
mod block;
mod exec;
mod gen;
mod monitor;
mod ops;
mod stress;

use exec::{Key, Sys};
use monitor::{Family, Mon};
use ops::Op;
use std::sync::atomic::{AtomicU64, Ordering};
use vcommon::{kv, par_map, read_cases, Rng, Tr};

pub static PROGRESS: AtomicU64 = AtomicU64::new(0);

fn run_ops<K: Key>(id: &str, fam: Family, fam_s: &str, cap: usize, is_async: bool, str_keys: bool, ops: &[Op]) -> String {
  let header = format!("prop={fam_s} cap={cap} kind={} keys={}", if is_async { "async" } else { "sync" }, if str_keys { "str" } else { "int" });
  let mut tr = Tr::new(id, &header);
  let mut sys = Sys::<K>::new(cap, is_async);
  let mut mon = Mon::new(fam, cap, is_async);
  for op in ops {
    let res = sys.exec(*op);
    PROGRESS.fetch_add(1, Ordering::Relaxed);
    tr.line(&op.fmt(), &res.fmt());
    mon.observe(*op, res);
    for (sig, msg) in mon.out.drain(..) { tr.monitor(&sig, &msg); }
  }
  drop(sys);
  tr.finish()
}

fn run_case(id: &str, fam_s: &str, cap: usize, is_async: bool, str_keys: bool, ops: &[Op]) -> String {
  let fam = Family::parse(fam_s);
  if str_keys { run_ops::<String>(id, fam, fam_s, cap, is_async, true, ops) } else { run_ops::<u32>(id, fam, fam_s, cap, is_async, false, ops) }
}

fn watchdog() {
  std::thread::spawn(|| {
    let mut last = u64::MAX;
    loop {
      std::thread::sleep(std::time::Duration::from_secs(20));
      let p = PROGRESS.load(Ordering::Relaxed);
      if p == last { eprintln!("topich: no progress for 20 s (an operation blocked) — aborting"); std::process::exit(3); }
      last = p;
    }
  });
}

fn main() {
  let a: Vec<String> = std::env::args().skip(1).collect();
  let flag = |k: &str| -> Option<String> { a.iter().position(|x| x == k).and_then(|i| a.get(i + 1).cloned()) };
  let seed: u64 = flag("--seed").and_then(|s| s.parse().ok()).unwrap_or(1);
  let cases: usize = flag("--cases").and_then(|s| s.parse().ok()).unwrap_or(100);
  let tier = flag("--tier").unwrap_or_else(|| "quick".into());
  let prop = flag("--prop");
  watchdog();
  let workers = std::thread::available_parallelism().map(|n| n.get()).unwrap_or(4).min(16);
  match a.first().map(|s| s.as_str()) {
    Some("gen") => {
      let fam_s = prop.unwrap_or_else(|| "C08".into());
      let outs = par_map(cases, workers, |i| {
        let mut rng = Rng::new(seed.wrapping_mul(1_000_003).wrapping_add(i as u64));
        let c = gen::gen_case(&mut rng, tier == "thorough");
        run_case(&format!("g{seed}-{i}"), &fam_s, c.cap, c.is_async, c.str_keys, &c.ops)
      });
      for o in outs { print!("{o}"); }
    }
    Some("run") => {
      let file = a.get(1).cloned().unwrap_or_else(|| { eprintln!("run <file>"); std::process::exit(2) });
      for c in read_cases(&file) {
        if kv(&c.header, "mode") == Some("stress") { continue; }
        if kv(&c.header, "mode") == Some("block") {
          match block::params_from_header(&c.header) {
            Some(p) => print!("{}", block::block_case(&c.id, &p)),
            None => { eprintln!("topich: case {}: bad block header", c.id); std::process::exit(2); }
          }
          continue;
        }
        let fam_s = prop.clone().unwrap_or_else(|| kv(&c.header, "prop").unwrap_or("C08").to_string());
        let cap: usize = kv(&c.header, "cap").and_then(|s| s.parse().ok()).unwrap_or(1);
        let is_async = kv(&c.header, "kind") == Some("async");
        let str_keys = kv(&c.header, "keys") == Some("str");
        let mut ops = vec![];
        for l in &c.ops {
          match Op::parse(l) { Some(op) => ops.push(op), None => { eprintln!("topich: case {}: unparsable op `{l}`", c.id); std::process::exit(2); } }
        }
        print!("{}", run_case(&c.id, &fam_s, cap, is_async, str_keys, &ops));
      }
    }
    Some("stress") => {
      for i in 0..cases {
        let mut rng = Rng::new(seed.wrapping_mul(7_000_003).wrapping_add(i as u64));
        print!("{}", stress::stress_case(&format!("s{seed}-{i}"), &mut rng, tier == "thorough"));
      }
    }
    Some("block") => {
      // mostly sleeping threads: a few cases in parallel keep the wall time down without disturbing the timing
      let outs = par_map(cases, 4, |i| {
        let mut rng = Rng::new(seed.wrapping_mul(9_000_011).wrapping_add(i as u64));
        let p = block::gen_params(&mut rng);
        block::block_case(&format!("w{seed}-{i}"), &p)
      });
      for o in outs { print!("{o}"); }
    }
    Some("selftest") => {
      // the monitors must flag hand-made histories that violate the property (oracle sanity)
      use ops::Res;
      let cases: Vec<(&str, Vec<(Op, Res)>, &str)> = vec![
        ("duplicate", vec![(Op::Sub(0, 1), Res::Unit), (Op::Send(0, 1, 5), Res::Ok), (Op::TryRecv(0), Res::Msg(1, 5)), (Op::TryRecv(0), Res::Msg(1, 5))], "topic:unexpected-message"),
        ("foreign-topic", vec![(Op::Sub(0, 1), Res::Unit), (Op::Send(0, 2, 5), Res::Ok), (Op::TryRecv(0), Res::Msg(2, 5))], "topic:unexpected-message"),
        ("reorder", vec![(Op::Sub(0, 1), Res::Unit), (Op::Send(0, 1, 5), Res::Ok), (Op::Send(0, 1, 6), Res::Ok), (Op::TryRecv(0), Res::Msg(1, 6))], "topic:message-skipped-or-reordered"),
        ("lost", vec![(Op::Sub(0, 1), Res::Unit), (Op::Send(0, 1, 5), Res::Ok), (Op::TryRecv(0), Res::Empty)], "topic:message-missing"),
        ("kept-when-full", vec![(Op::Sub(0, 1), Res::Unit), (Op::Send(0, 1, 5), Res::Ok), (Op::Send(0, 1, 6), Res::Ok), (Op::Send(0, 1, 7), Res::Ok), (Op::TryRecv(0), Res::Msg(1, 5)), (Op::TryRecv(0), Res::Msg(1, 6)), (Op::TryRecv(0), Res::Msg(1, 7))], "topic:unexpected-message"),
        ("disc-early", vec![(Op::Sub(0, 1), Res::Unit), (Op::Send(0, 1, 5), Res::Ok), (Op::SDrop(0), Res::Unit), (Op::TryRecv(0), Res::Disc)], "topic:disconnected-before-drained"),
        ("disc-alive", vec![(Op::Sub(0, 1), Res::Unit), (Op::TryRecv(0), Res::Disc)], "topic:disconnected-while-sender-alive"),
        ("disc-missing", vec![(Op::Sub(0, 1), Res::Unit), (Op::SDrop(0), Res::Unit), (Op::TryRecv(0), Res::Empty)], "topic:disconnected-not-observed"),
        ("f4a", vec![(Op::Sub(0, 1), Res::Unit), (Op::SClone(0), Res::Handle(1)), (Op::SDrop(1), Res::Unit), (Op::TryRecv(0), Res::Disc)], "topic:sender-clone-drop-disconnects-while-other-sender-alive"),
        ("clean", vec![(Op::Sub(0, 1), Res::Unit), (Op::Send(0, 1, 5), Res::Ok), (Op::Send(0, 2, 6), Res::Ok), (Op::TryRecv(0), Res::Msg(1, 5)), (Op::TryRecv(0), Res::Empty), (Op::SDrop(0), Res::Unit), (Op::TryRecv(0), Res::Disc)], ""),
      ];
      let mut bad = 0;
      for (name, hist, want) in cases {
        let mut mon = Mon::new(Family::All, 2, false);
        for (op, res) in hist { mon.observe(op, res); }
        let sigs: Vec<String> = mon.out.iter().map(|x| x.0.clone()).collect();
        let ok = if want.is_empty() { sigs.is_empty() } else { sigs.iter().any(|s| s == want) };
        println!("selftest {name}: {} got={:?}", if ok { "ok" } else { "FAIL" }, sigs);
        if !ok { bad += 1; }
      }
      if bad > 0 { std::process::exit(1); }
    }
    _ => { eprintln!("usage: gen --seed S --cases N [--tier T] [--prop P] | run <file> [--prop P] | stress --seed S --cases N"); std::process::exit(2); }
  }
}
