//! Operation vocabulary shared by the generator, the runner and the monitor.
//! Token syntax = the Lean engine's (`/verif/lean/Fv/Driver/Topic.lean`).

#[derive(Clone, Copy, Debug, PartialEq, Eq)]
pub enum Op {
  Send(usize, u32, u32),
  SClone(usize),
  SClose(usize),
  SDrop(usize),
  SConv(usize),
  SIsClosed(usize),
  Sub(usize, u32),
  Unsub(usize, u32),
  RClone(usize),
  RClose(usize),
  RDrop(usize),
  RConv(usize),
  TryRecv(usize),
  Recv(usize),
  Rto0(usize),
  Next(usize),
  RIsClosed(usize),
  IsEmpty(usize),
  Cap(usize),
}

impl Op {
  pub fn fmt(&self) -> String {
    use Op::*;
    match *self {
      Send(h, t, v) => format!("send {h} {t} {v}"),
      SClone(h) => format!("sclone {h}"),
      SClose(h) => format!("sclose {h}"),
      SDrop(h) => format!("sdrop {h}"),
      SConv(h) => format!("sconv {h}"),
      SIsClosed(h) => format!("sisclosed {h}"),
      Sub(r, t) => format!("sub {r} {t}"),
      Unsub(r, t) => format!("unsub {r} {t}"),
      RClone(r) => format!("rclone {r}"),
      RClose(r) => format!("rclose {r}"),
      RDrop(r) => format!("rdrop {r}"),
      RConv(r) => format!("rconv {r}"),
      TryRecv(r) => format!("tryrecv {r}"),
      Recv(r) => format!("recv {r}"),
      Rto0(r) => format!("rto0 {r}"),
      Next(r) => format!("next {r}"),
      RIsClosed(r) => format!("risclosed {r}"),
      IsEmpty(r) => format!("isempty {r}"),
      Cap(r) => format!("cap {r}"),
    }
  }

  pub fn parse(line: &str) -> Option<Op> {
    use Op::*;
    let w: Vec<&str> = line.split_whitespace().collect();
    let n = |i: usize| -> Option<usize> { w.get(i)?.parse().ok() };
    let u = |i: usize| -> Option<u32> { w.get(i)?.parse().ok() };
    Some(match (*w.first()?, w.len()) {
      ("send", 4) => Send(n(1)?, u(2)?, u(3)?),
      ("sclone", 2) => SClone(n(1)?),
      ("sclose", 2) => SClose(n(1)?),
      ("sdrop", 2) => SDrop(n(1)?),
      ("sconv", 2) => SConv(n(1)?),
      ("sisclosed", 2) => SIsClosed(n(1)?),
      ("sub", 3) => Sub(n(1)?, u(2)?),
      ("unsub", 3) => Unsub(n(1)?, u(2)?),
      ("rclone", 2) => RClone(n(1)?),
      ("rclose", 2) => RClose(n(1)?),
      ("rdrop", 2) => RDrop(n(1)?),
      ("rconv", 2) => RConv(n(1)?),
      ("tryrecv", 2) => TryRecv(n(1)?),
      ("recv", 2) => Recv(n(1)?),
      ("rto0", 2) => Rto0(n(1)?),
      ("next", 2) => Next(n(1)?),
      ("risclosed", 2) => RIsClosed(n(1)?),
      ("isempty", 2) => IsEmpty(n(1)?),
      ("cap", 2) => Cap(n(1)?),
      _ => return None,
    })
  }
}

/// Canonical result of an operation on the implementation.
#[derive(Clone, Copy, Debug, PartialEq, Eq)]
pub enum Res {
  Unit,
  Ok,
  Closed,
  CloseErr,
  Msg(u32, u32),
  Empty,
  Disc,
  Timeout,
  WouldBlock,
  Pending,
  None,
  Bool(bool),
  Nat(usize),
  Handle(usize),
  Invalid,
  Skip,
}

impl Res {
  pub fn fmt(&self) -> String {
    use Res::*;
    match *self {
      Unit => "unit".into(),
      Ok => "ok".into(),
      Closed => "closed".into(),
      CloseErr => "closeerr".into(),
      Msg(t, v) => format!("msg {t} {v}"),
      Empty => "empty".into(),
      Disc => "disc".into(),
      Timeout => "timeout".into(),
      WouldBlock => "wouldblock".into(),
      Pending => "pending".into(),
      None => "none".into(),
      Bool(b) => format!("{b}"),
      Nat(n) => format!("{n}"),
      Handle(n) => format!("h{n}"),
      Invalid => "invalid".into(),
      Skip => "skip".into(),
    }
  }
}
