//! Real-thread scenarios with receivers PARKED on empty mailboxes — in `recv_timeout(d)`
//! (d = 300–800 ms), in blocking `recv()`, or in a pending async `recv()` — while another thread
//! performs a call that must never wait for a receiver: `send` (to the parked receiver's topic or
//! to another one), close/drop of a sender clone, shutdown of all senders, subscribe/unsubscribe
//! (on another receiver or, from another thread, on the parked one), clone of the parked
//! receiver, `is_empty()` on it. Every such call is timed.
//!
//! Verdict per repetition (robust on a loaded machine):
//!   * the same kind of call is timed immediately before on a control channel nobody waits on
//!     (baseline); a repetition whose baseline is itself slow is inconclusive,
//!   * "blocked" = the call took ≥ 60 % of the parked receiver's timeout d (for the untimed
//!     forms: ≥ 1.5 s, or never returned within the watchdog) while the baseline took < 20 % of it,
//!   * the monitor fires when ≥ 2 of the 3 repetitions are blocked.
//! The blocking `recv()` forms are executed for real: released by a publish to their topic or by
//! the shutdown of all senders, under a watchdog (threads that never return are leaked and the
//! case reports it).
//! `topich block --seed S --cases N` generates cases; `topich run <file>` re-runs `mode=block`
//! cases from the parameters in their header.
use fibre::error::{RecvError, TryRecvError};
use fibre::spmc::topic::{self, AsyncTopicReceiver, TopicReceiver, TopicSender};
use fibre::RecvErrorTimeout;
use std::future::Future;
use std::pin::pin;
use std::sync::atomic::{AtomicBool, Ordering};
use std::sync::{mpsc, Arc};
use std::task::{Context, Poll, Wake, Waker};
use std::time::{Duration, Instant};
use vcommon::{kv, Rng, Tr};

#[derive(Clone, Copy, PartialEq, Eq, Debug)]
pub enum Form { Rto, Recv, AsyncRecv }
#[derive(Clone, Copy, PartialEq, Eq, Debug)]
pub enum Action { SendOwn, SendOther, CloneDrop, CloneClose, Shutdown, SubOther, UnsubOther, SubWaiter, CloneWaiter, IsEmptyWaiter }

impl Form {
  fn name(self) -> &'static str { match self { Form::Rto => "rto", Form::Recv => "recv", Form::AsyncRecv => "arecv" } }
  fn parse(s: &str) -> Option<Form> { Some(match s { "rto" => Form::Rto, "recv" => Form::Recv, "arecv" => Form::AsyncRecv, _ => return None }) }
}
impl Action {
  const ALL: [Action; 10] = [Action::SendOwn, Action::SendOther, Action::CloneDrop, Action::CloneClose, Action::Shutdown,
    Action::SubOther, Action::UnsubOther, Action::SubWaiter, Action::CloneWaiter, Action::IsEmptyWaiter];
  fn name(self) -> &'static str {
    match self {
      Action::SendOwn => "send-own", Action::SendOther => "send-other", Action::CloneDrop => "sender-clone-drop",
      Action::CloneClose => "sender-clone-close", Action::Shutdown => "shutdown", Action::SubOther => "sub-other",
      Action::UnsubOther => "unsub-other", Action::SubWaiter => "sub-waiter", Action::CloneWaiter => "clone-waiter",
      Action::IsEmptyWaiter => "isempty-waiter",
    }
  }
  fn parse(s: &str) -> Option<Action> { Action::ALL.iter().copied().find(|a| a.name() == s) }
  fn signature(self) -> &'static str {
    match self {
      Action::SendOwn | Action::SendOther => "topic:send-blocked-while-receiver-waits",
      Action::CloneDrop | Action::CloneClose | Action::Shutdown => "topic:close-blocked-while-receiver-waits",
      Action::SubOther | Action::UnsubOther | Action::SubWaiter => "topic:subscribe-blocked-while-receiver-waits",
      Action::CloneWaiter => "topic:clone-blocked-while-receiver-waits",
      Action::IsEmptyWaiter => "topic:observer-blocked-while-receiver-waits",
    }
  }
}

pub struct Params { pub form: Form, pub action: Action, pub d_ms: u64, pub cap: usize }

pub fn gen_params(rng: &mut Rng) -> Params {
  let form = *rng.weighted(&[(5u32, Form::Rto), (3, Form::Recv), (2, Form::AsyncRecv)]);
  let action = *rng.weighted(&[(6u32, Action::SendOwn), (3, Action::SendOther), (3, Action::CloneDrop), (2, Action::CloneClose),
    (3, Action::Shutdown), (2, Action::SubOther), (1, Action::UnsubOther), (2, Action::SubWaiter), (2, Action::CloneWaiter), (1, Action::IsEmptyWaiter)]);
  Params { form, action, d_ms: rng.range(300, 800), cap: rng.range(1, 4) as usize }
}

pub fn params_from_header(h: &[String]) -> Option<Params> {
  Some(Params {
    form: Form::parse(kv(h, "form")?)?, action: Action::parse(kv(h, "action")?)?,
    d_ms: kv(h, "d")?.parse().ok()?, cap: kv(h, "cap")?.parse().ok()?,
  })
}

struct Unpark(std::thread::Thread);
impl Wake for Unpark { fn wake(self: Arc<Self>) { self.0.unpark(); } }

enum W { S(TopicReceiver<u32, u32>), A(AsyncTopicReceiver<u32, u32>) }
impl W {
  fn subscribe(&self, t: u32) { match self { W::S(r) => r.subscribe(t), W::A(r) => r.subscribe(t) } }
  fn is_empty(&self) -> bool { match self { W::S(r) => r.is_empty(), W::A(r) => r.is_empty() } }
  fn clone_drop(&self) { match self { W::S(r) => drop(r.clone()), W::A(r) => drop(r.clone()) } }
}

/// what the parked receiver finally returned
#[derive(Debug, Clone, Copy, PartialEq, Eq)]
enum WaitRes { Msg, Timeout, Disc }

fn wait_on(w: &W, form: Form, d: Duration) -> WaitRes {
  match (w, form) {
    (W::S(r), Form::Rto) => match r.recv_timeout(d) { Ok(_) => WaitRes::Msg, Err(RecvErrorTimeout::Timeout) => WaitRes::Timeout, Err(RecvErrorTimeout::Disconnected) => WaitRes::Disc },
    (W::S(r), _) => match r.recv() { Ok(_) => WaitRes::Msg, Err(RecvError::Disconnected) => WaitRes::Disc },
    (W::A(r), _) => {
      // a minimal executor: poll, park until woken, poll again
      let waker = Waker::from(Arc::new(Unpark(std::thread::current())));
      let mut cx = Context::from_waker(&waker);
      let mut f = pin!(r.recv());
      loop {
        match f.as_mut().poll(&mut cx) {
          Poll::Ready(Ok(_)) => return WaitRes::Msg,
          Poll::Ready(Err(_)) => return WaitRes::Disc,
          Poll::Pending => std::thread::park(),
        }
      }
    }
  }
}

/// the timed call on the control channel (nobody waits there)
fn baseline(action: Action, ctx: &TopicSender<u32, u32>, crx: &TopicReceiver<u32, u32>, v: u32) -> Duration {
  let t0 = Instant::now();
  match action {
    Action::SendOwn | Action::SendOther => { let _ = ctx.send(1, v); }
    Action::CloneDrop | Action::Shutdown => drop(ctx.clone()),
    Action::CloneClose => { let c = ctx.clone(); let _ = c.close(); }
    Action::SubOther | Action::SubWaiter => crx.subscribe(7),
    Action::UnsubOther => crx.unsubscribe(&1),
    Action::CloneWaiter => drop(crx.clone()),
    Action::IsEmptyWaiter => { let _ = crx.is_empty(); }
  }
  while crx.try_recv().is_ok() {}
  crx.unsubscribe(&7);
  crx.subscribe(1);
  t0.elapsed()
}

pub fn block_case(id: &str, p: &Params) -> String {
  let header = format!("prop=C08 mode=block form={} d={} action={} cap={} kind={}", p.form.name(), p.d_ms, p.action.name(), p.cap,
    if p.form == Form::AsyncRecv { "async" } else { "sync" });
  let mut tr = Tr::new(id, &header);
  let d = Duration::from_millis(p.d_ms);
  // thresholds: timed form relative to d; untimed forms absolute
  let (slow_at, base_ok) = if p.form == Form::Rto { (d.mul_f64(0.6), d.mul_f64(0.2)) } else { (Duration::from_millis(1500), Duration::from_millis(300)) };
  let watchdog = std::cmp::max(d * 3, Duration::from_secs(6));
  let reps = 3;
  let (mut blocked, mut conclusive) = (0, 0);
  let mut f4a = false;
  let mut stuck_waiter = false;
  for rep in 0..reps {
    crate::PROGRESS.fetch_add(1, Ordering::Relaxed);
    let (tx, rx0) = topic::channel::<u32, u32>(p.cap);
    let rxo = rx0.clone();
    rx0.subscribe(1);
    rxo.subscribe(if rep % 2 == 0 { 1 } else { 2 });
    let w = Arc::new(if p.form == Form::AsyncRecv { W::A(rx0.to_async()) } else { W::S(rx0) });
    let (ctx, crx) = topic::channel::<u32, u32>(p.cap);
    crx.subscribe(1);
    // parked receiver
    let started = Arc::new(AtomicBool::new(false));
    let (res_tx, res_rx) = mpsc::channel();
    { let (w, started, form) = (w.clone(), started.clone(), p.form);
      std::thread::spawn(move || { started.store(true, Ordering::SeqCst); let t0 = Instant::now(); let r = wait_on(&w, form, d); let _ = res_tx.send((r, t0.elapsed())); }); }
    while !started.load(Ordering::SeqCst) { std::thread::yield_now(); }
    std::thread::sleep(Duration::from_millis(40)); // let it park
    let base = baseline(p.action, &ctx, &crx, rep as u32);
    // the timed call, on its own thread so that a call that never returns cannot hang the harness
    let (done_tx, done_rx) = mpsc::channel();
    let (fin_tx, fin_rx) = mpsc::channel::<()>();
    { let (w, action, form) = (w.clone(), p.action, p.form);
      std::thread::spawn(move || {
        let mut tx = Some(tx);
        let t0 = Instant::now();
        match action {
          Action::SendOwn => { let _ = tx.as_ref().unwrap().send(1, 100 + rep as u32); }
          Action::SendOther => { let _ = tx.as_ref().unwrap().send(3, 100 + rep as u32); }
          Action::CloneDrop => drop(tx.as_ref().unwrap().clone()),
          Action::CloneClose => { let c = tx.as_ref().unwrap().clone(); let _ = c.close(); }
          Action::Shutdown => drop(tx.take()),
          Action::SubOther => rxo.subscribe(5),
          Action::UnsubOther => rxo.unsubscribe(&1),
          Action::SubWaiter => w.subscribe(6),
          Action::CloneWaiter => w.clone_drop(),
          Action::IsEmptyWaiter => { let _ = w.is_empty(); }
        }
        let _ = done_tx.send(t0.elapsed());
        // release a receiver parked without a timeout (a publish to its topic wakes it)
        if form != Form::Rto { if let Some(t) = tx.as_ref() { let _ = t.send(1, 999); } }
        let _ = fin_rx.recv_timeout(Duration::from_secs(30)); // keep the sender alive until the waiter is done
        drop(tx); drop(rxo);
      }); }
    let call = done_rx.recv_timeout(watchdog);
    let wres = res_rx.recv_timeout(watchdog);
    let _ = fin_tx.send(());
    let call_class = match call {
      Err(_) => "hung",
      Ok(t) if base >= base_ok => { let _ = t; "inconclusive" }
      Ok(t) if t >= slow_at => "slow",
      Ok(_) => "fast",
    };
    if call_class != "inconclusive" { conclusive += 1; }
    if call_class == "slow" || call_class == "hung" { blocked += 1; }
    let wclass = match wres { Ok((WaitRes::Msg, _)) => "msg", Ok((WaitRes::Timeout, _)) => "timeout", Ok((WaitRes::Disc, _)) => "disc", Err(_) => { stuck_waiter = true; "stuck" } };
    if wclass == "disc" && matches!(p.action, Action::CloneDrop | Action::CloneClose) { f4a = true; }
    tr.line(&format!("rep {rep} {} d={} {}", p.form.name(), p.d_ms, p.action.name()), &format!("call={call_class} waiter={wclass}"));
  }
  if blocked >= 2 {
    tr.monitor(p.action.signature(), &format!("{} took at least 60% of the parked receiver's wait (d={} ms, form {}) on {blocked} of {reps} repetitions ({conclusive} conclusive) while the same call on an idle channel was fast: the call waits for the receiver", p.action.name(), p.d_ms, p.form.name()));
  }
  if f4a {
    tr.monitor("topic:sender-clone-drop-disconnects-while-other-sender-alive", "a receiver parked in a receive form was released with Disconnected by the close/drop of a sender clone while the original sender is alive");
  }
  if stuck_waiter {
    tr.monitor("topic:parked-receiver-never-released", &format!("a receiver parked in {} was not released by the publish / shutdown within the watchdog", p.form.name()));
  }
  let _ = TryRecvError::Empty;
  tr.finish()
}
