//! Runs operations on the real `fibre::spmc::topic` handles (single thread).
use crate::ops::{Op, Res};
use fibre::error::{RecvError, TryRecvError};
use fibre::spmc::topic::{self, AsyncTopicReceiver, AsyncTopicSender, TopicReceiver, TopicSender};
use fibre::RecvErrorTimeout;
use futures_core::Stream;
use std::future::Future;
use std::hash::Hash;
use std::pin::{pin, Pin};
use std::task::{Context, Poll, Waker};
use std::time::Duration;

/// Topic key types exercised: `u32` and `String`. (`unsubscribe::<str>` does not type-check for
/// `String` keys: the bound is `K: Equivalent<Q>`, i.e. `Q: Borrow<K>`; so `&String` is used.)
pub trait Key: Eq + Hash + Clone + Send + Sync + 'static {
  fn mk(n: u32) -> Self;
  fn num(&self) -> u32;
  fn unsub_sync(rx: &TopicReceiver<Self, u32>, n: u32);
  fn unsub_async(rx: &AsyncTopicReceiver<Self, u32>, n: u32);
}
impl Key for u32 {
  fn mk(n: u32) -> Self { n }
  fn num(&self) -> u32 { *self }
  fn unsub_sync(rx: &TopicReceiver<Self, u32>, n: u32) { rx.unsubscribe(&n) }
  fn unsub_async(rx: &AsyncTopicReceiver<Self, u32>, n: u32) { rx.unsubscribe(&n) }
}
impl Key for String {
  fn mk(n: u32) -> Self { format!("t{n}") }
  fn num(&self) -> u32 { self[1..].parse().unwrap() }
  fn unsub_sync(rx: &TopicReceiver<Self, u32>, n: u32) { rx.unsubscribe(&format!("t{n}")) }
  fn unsub_async(rx: &AsyncTopicReceiver<Self, u32>, n: u32) { rx.unsubscribe(&format!("t{n}")) }
}

pub enum RxH<K: Key> { Sync(TopicReceiver<K, u32>), Async(AsyncTopicReceiver<K, u32>), Gone }
pub enum TxH<K: Key> { Sync(TopicSender<K, u32>), Async(AsyncTopicSender<K, u32>), Gone }

pub struct Sys<K: Key> { pub rxs: Vec<RxH<K>>, pub txs: Vec<TxH<K>> }

fn msg<K: Key>(m: (K, u32)) -> Res { Res::Msg(m.0.num(), m.1) }

impl<K: Key> Sys<K> {
  pub fn new(cap: usize, is_async: bool) -> Self {
    if is_async {
      let (tx, rx) = topic::channel_async::<K, u32>(cap);
      Sys { rxs: vec![RxH::Async(rx)], txs: vec![TxH::Async(tx)] }
    } else {
      let (tx, rx) = topic::channel::<K, u32>(cap);
      Sys { rxs: vec![RxH::Sync(rx)], txs: vec![TxH::Sync(tx)] }
    }
  }

  pub fn exec(&mut self, op: Op) -> Res {
    use Op::*;
    let mut cx = Context::from_waker(Waker::noop());
    match op {
      Send(h, t, v) => match self.txs.get(h) {
        Some(TxH::Sync(s)) => if s.send(K::mk(t), v).is_ok() { Res::Ok } else { Res::Closed },
        Some(TxH::Async(s)) => if s.send(K::mk(t), v).is_ok() { Res::Ok } else { Res::Closed },
        _ => Res::Invalid,
      },
      SClone(h) => match self.txs.get(h) {
        Some(TxH::Sync(s)) => { let c = s.clone(); self.txs.push(TxH::Sync(c)); Res::Handle(self.txs.len() - 1) }
        _ => Res::Invalid, // AsyncTopicSender has no Clone impl
      },
      SClose(h) => match self.txs.get(h) {
        Some(TxH::Sync(s)) => if s.close().is_ok() { Res::Ok } else { Res::CloseErr },
        Some(TxH::Async(s)) => if s.close().is_ok() { Res::Ok } else { Res::CloseErr },
        _ => Res::Invalid,
      },
      SDrop(h) => match self.txs.get_mut(h) {
        Some(x @ (TxH::Sync(_) | TxH::Async(_))) => { drop(std::mem::replace(x, TxH::Gone)); Res::Unit }
        _ => Res::Invalid,
      },
      SConv(h) => match self.txs.get_mut(h) {
        Some(x @ (TxH::Sync(_) | TxH::Async(_))) => {
          *x = match std::mem::replace(x, TxH::Gone) {
            TxH::Sync(s) => TxH::Async(s.to_async()),
            TxH::Async(s) => TxH::Sync(s.to_sync()),
            TxH::Gone => unreachable!(),
          };
          Res::Unit
        }
        _ => Res::Invalid,
      },
      SIsClosed(h) => match self.txs.get(h) {
        Some(TxH::Sync(s)) => Res::Bool(s.is_closed()),
        Some(TxH::Async(s)) => Res::Bool(s.is_closed()),
        _ => Res::Invalid,
      },
      Sub(r, t) => match self.rxs.get(r) {
        Some(RxH::Sync(x)) => { x.subscribe(K::mk(t)); Res::Unit }
        Some(RxH::Async(x)) => { x.subscribe(K::mk(t)); Res::Unit }
        _ => Res::Invalid,
      },
      Unsub(r, t) => match self.rxs.get(r) {
        Some(RxH::Sync(x)) => { K::unsub_sync(x, t); Res::Unit }
        Some(RxH::Async(x)) => { K::unsub_async(x, t); Res::Unit }
        _ => Res::Invalid,
      },
      RClone(r) => match self.rxs.get(r) {
        Some(RxH::Sync(x)) => { let c = x.clone(); self.rxs.push(RxH::Sync(c)); Res::Handle(self.rxs.len() - 1) }
        Some(RxH::Async(x)) => { let c = x.clone(); self.rxs.push(RxH::Async(c)); Res::Handle(self.rxs.len() - 1) }
        _ => Res::Invalid,
      },
      RClose(r) => match self.rxs.get(r) {
        Some(RxH::Sync(x)) => if x.close().is_ok() { Res::Ok } else { Res::CloseErr },
        Some(RxH::Async(x)) => if x.close().is_ok() { Res::Ok } else { Res::CloseErr },
        _ => Res::Invalid,
      },
      RDrop(r) => match self.rxs.get_mut(r) {
        Some(x @ (RxH::Sync(_) | RxH::Async(_))) => { drop(std::mem::replace(x, RxH::Gone)); Res::Unit }
        _ => Res::Invalid,
      },
      RConv(r) => match self.rxs.get_mut(r) {
        Some(x @ (RxH::Sync(_) | RxH::Async(_))) => {
          *x = match std::mem::replace(x, RxH::Gone) {
            RxH::Sync(s) => RxH::Async(s.to_async()),
            RxH::Async(s) => RxH::Sync(s.to_sync()),
            RxH::Gone => unreachable!(),
          };
          Res::Unit
        }
        _ => Res::Invalid,
      },
      TryRecv(r) => {
        let x = match self.rxs.get(r) {
          Some(RxH::Sync(x)) => x.try_recv(),
          Some(RxH::Async(x)) => x.try_recv(),
          _ => return Res::Invalid,
        };
        match x { Ok(m) => msg(m), Err(TryRecvError::Empty) => Res::Empty, Err(TryRecvError::Disconnected) => Res::Disc }
      }
      Recv(r) => match self.rxs.get(r) {
        Some(RxH::Sync(x)) => {
          // never park the only thread: call the blocking form only when an observation through
          // the same API says it returns (non-empty, or an empty mailbox on which
          // recv_timeout(0) — side-effect free when empty — reports Disconnected).
          if !x.is_empty() {
            match x.recv() { Ok(m) => msg(m), Err(RecvError::Disconnected) => Res::Disc }
          } else if !x.is_closed() {
            match x.recv_timeout(Duration::ZERO) {
              Err(RecvErrorTimeout::Timeout) => Res::WouldBlock,
              Err(RecvErrorTimeout::Disconnected) => match x.recv() { Ok(m) => msg(m), Err(RecvError::Disconnected) => Res::Disc },
              Ok(m) => msg(m),
            }
          } else { Res::Skip }
        }
        Some(RxH::Async(x)) => {
          let f = pin!(x.recv());
          match f.poll(&mut cx) { Poll::Ready(Ok(m)) => msg(m), Poll::Ready(Err(_)) => Res::Disc, Poll::Pending => Res::Pending }
        }
        _ => Res::Invalid,
      },
      Rto0(r) => match self.rxs.get(r) {
        Some(RxH::Sync(x)) => match x.recv_timeout(Duration::ZERO) {
          Ok(m) => msg(m),
          Err(RecvErrorTimeout::Timeout) => Res::Timeout,
          Err(RecvErrorTimeout::Disconnected) => Res::Disc,
        },
        _ => Res::Invalid,
      },
      Next(r) => match self.rxs.get_mut(r) {
        Some(RxH::Async(x)) => match Pin::new(x).poll_next(&mut cx) {
          Poll::Ready(Some(m)) => msg(m),
          Poll::Ready(None) => Res::None,
          Poll::Pending => Res::Pending,
        },
        _ => Res::Invalid,
      },
      RIsClosed(r) => match self.rxs.get(r) {
        Some(RxH::Sync(x)) => Res::Bool(x.is_closed()),
        Some(RxH::Async(x)) => Res::Bool(x.is_closed()),
        _ => Res::Invalid,
      },
      IsEmpty(r) => match self.rxs.get(r) {
        Some(RxH::Sync(x)) => Res::Bool(x.is_empty()),
        Some(RxH::Async(x)) => Res::Bool(x.is_empty()),
        _ => Res::Invalid,
      },
      Cap(r) => match self.rxs.get(r) {
        Some(RxH::Sync(x)) => Res::Nat(x.capacity()),
        Some(RxH::Async(x)) => Res::Nat(x.capacity()),
        _ => Res::Invalid,
      },
    }
  }
}
