//! T2 harness for C20: drives the real `JsonLinesFormatter` / `PatternFormatter` (public API) and the
//! real `CustomRoller` (hook `fibre_logging::verif`, injected clock, real files under
//! /verif/.build/tmp) with generated inputs, prints the transcript for the Lean engine `fvdrv_log`
//! and evaluates the property's own clauses on the implementation's output (monitors).
//!
//! Text tokens are `x<hex of UTF-8 bytes>` (so empty strings and control characters are
//! unambiguous); `-` is `None`.
use chrono::{DateTime, TimeZone, Utc};
use fibre_logging::config::processed::{CompressionPolicyInternal, JsonLinesEncoderInternal, RollingPolicyInternal};
use fibre_logging::encoders::{json::JsonLinesFormatter, pattern::PatternFormatter, EventFormatter};
use fibre_logging::model::{LogEvent, LogValue};
use fibre_logging::verif::CustomRoller;
use std::collections::{BTreeMap, BTreeSet, HashMap};
use std::fmt::Write as _;
use std::io::{Read, Write as _};
use std::panic::{catch_unwind, AssertUnwindSafe};
use std::path::{Path, PathBuf};
use vcommon::*;

// ------------------------------------------------------------------------------------------ tokens

fn hx(s: &str) -> String {
  let mut o = String::with_capacity(1 + 2 * s.len());
  o.push('x');
  for b in s.as_bytes() { let _ = write!(o, "{:02x}", b); }
  o
}
fn hxb(b: &[u8]) -> String {
  let mut o = String::with_capacity(1 + 2 * b.len());
  o.push('x');
  for b in b { let _ = write!(o, "{:02x}", b); }
  o
}
fn unhx(t: &str) -> Option<String> {
  let h = t.strip_prefix('x')?;
  if h.len() % 2 != 0 { return None; }
  let mut v = Vec::with_capacity(h.len() / 2);
  for i in (0..h.len()).step_by(2) { v.push(u8::from_str_radix(&h[i..i + 2], 16).ok()?); }
  String::from_utf8(v).ok()
}
fn hxo(s: &Option<String>) -> String { match s { Some(s) => hx(s), None => "-".into() } }
fn unhxo(t: Option<&str>) -> Option<String> { t.and_then(|t| if t == "-" { None } else { unhx(t) }) }

// ----------------------------------------------------------------------------------- string source

const SPECIAL: &[char] = &[
  '"', '\\', '/', '\n', '\r', '\t', '\u{0}', '\u{1}', '\u{8}', '\u{b}', '\u{c}', '\u{1f}', '\u{7f}', '\u{80}', '\u{2028}',
  '\u{2029}', '\u{e9}', '\u{4e2d}', '\u{1f600}', '\u{10ffff}', '\u{fffd}', '\u{d7ff}', '\u{e000}', '%', '{', '}', ' ', ',', ':', '=',
  '\u{663}', '\u{ff11}',
];

fn gen_char(rng: &mut Rng) -> char {
  match rng.below(10) {
    0..=3 => (b'a' + rng.below(26) as u8) as char,
    4 => (b'0' + rng.below(10) as u8) as char,
    5 => char::from_u32(rng.below(0x20) as u32).unwrap(),
    6..=8 => *rng.pick(SPECIAL),
    _ => loop {
      if let Some(c) = char::from_u32(rng.below(0x110000) as u32) { break c; }
    },
  }
}
fn gen_string(rng: &mut Rng) -> String {
  let n = match rng.below(40) { 0..=7 => 0, 8..=27 => rng.range(1, 8), 28..=36 => rng.range(9, 40), 37..=38 => rng.range(100, 400), _ => rng.range(1000, 6000) };
  (0..n).map(|_| gen_char(rng)).collect()
}
const CORE_KEYS: [&str; 9] = ["timestamp", "level", "target", "message", "name", "span_id", "parent_id", "thread_id", "thread_name"];
fn gen_key(rng: &mut Rng) -> String {
  match rng.below(10) {
    0..=1 => (*rng.pick(&CORE_KEYS)).to_string(),
    2 => "fields".to_string(),
    3..=6 => format!("k{}", rng.below(6)),
    _ => gen_string(rng),
  }
}

// ------------------------------------------------------------------------------------------ events

#[derive(Clone)]
struct Ev { tsms: i64, level: String, target: String, name: String, msg: Option<String>, span: Option<String>, parent: Option<String>,
  tid: Option<String>, tname: Option<String> }

fn ev_header(e: &Ev) -> String {
  format!("tsms={} level={} target={} name={} msg={} span={} parent={} tid={} tname={}", e.tsms, e.level, hx(&e.target), hx(&e.name),
    hxo(&e.msg), hxo(&e.span), hxo(&e.parent), hxo(&e.tid), hxo(&e.tname))
}
fn ev_from_header(h: &[String]) -> Ev {
  let s = |k: &str| unhxo(kv(h, k));
  Ev { tsms: kv(h, "tsms").and_then(|x| x.parse().ok()).unwrap_or(0), level: kv(h, "level").unwrap_or("INFO").to_string(),
    target: s("target").unwrap_or_default(), name: s("name").unwrap_or_default(), msg: s("msg"), span: s("span"), parent: s("parent"),
    tid: s("tid"), tname: s("tname") }
}
fn gen_ev(rng: &mut Rng) -> Ev {
  let opt = |rng: &mut Rng| if rng.chance(1, 2) { Some(gen_string(rng)) } else { None };
  // 1970 .. 2200, plus a few negative
  let tsms = if rng.chance(1, 20) { -(rng.below(1_000_000_000_000) as i64) } else { rng.below(7_258_118_400_000) as i64 };
  Ev { tsms, level: (*rng.pick(&["TRACE", "DEBUG", "INFO", "WARN", "ERROR"])).to_string(), target: gen_string(rng), name: gen_string(rng),
    msg: if rng.chance(4, 5) { Some(gen_string(rng)) } else { None }, span: opt(rng), parent: opt(rng), tid: opt(rng), tname: opt(rng) }
}
fn ts_of(ms: i64) -> DateTime<Utc> { Utc.timestamp_millis_opt(ms).single().unwrap_or(DateTime::<Utc>::UNIX_EPOCH) }
fn level_of(s: &str) -> tracing::Level {
  match s { "TRACE" => tracing::Level::TRACE, "DEBUG" => tracing::Level::DEBUG, "WARN" => tracing::Level::WARN, "ERROR" => tracing::Level::ERROR, _ => tracing::Level::INFO }
}
fn build_event(e: &Ev, fields: &[(String, LogValue)]) -> LogEvent {
  let mut le = LogEvent::new(level_of(&e.level), e.target.clone(), e.name.clone(), e.msg.clone());
  le.timestamp = ts_of(e.tsms);
  le.span_id = e.span.clone(); le.parent_id = e.parent.clone(); le.thread_id = e.tid.clone(); le.thread_name = e.tname.clone();
  let mut m = HashMap::new();
  for (k, v) in fields { m.insert(k.clone(), v.clone()); }
  le.fields = m;
  le
}

/// `field <xkey> s <xval> | i <int> | f <bits hex> | b <0|1> | d <xval>`
fn parse_field(t: &[&str]) -> Option<(String, LogValue)> {
  let k = unhx(t.get(1)?)?;
  let v = match *t.get(2)? {
    "s" => LogValue::String(unhx(t.get(3)?)?),
    "d" => LogValue::Debug(unhx(t.get(3)?)?),
    "i" => LogValue::Int(t.get(3)?.parse().ok()?),
    "b" => LogValue::Bool(*t.get(3)? == "1"),
    "f" => LogValue::Float(f64::from_bits(u64::from_str_radix(t.get(3)?, 16).ok()?)),
    _ => return None,
  };
  Some((k, v))
}
fn gen_field_ops(rng: &mut Rng) -> Vec<String> {
  let n = match rng.below(10) { 0..=2 => 0, 3..=7 => rng.range(1, 4), _ => rng.range(5, 9) };
  let mut seen = BTreeSet::new();
  let mut out = vec![];
  for _ in 0..n {
    let k = gen_key(rng);
    if !seen.insert(k.clone()) { continue; }
    let v = match rng.below(10) {
      0..=2 => format!("s {}", hx(&gen_string(rng))),
      3 => format!("d {}", hx(&gen_string(rng))),
      4..=5 => format!("i {}", *rng.pick(&[0i64, 1, -1, 42, -7, 1234567890123, i64::MAX, i64::MIN, 9007199254740993])),
      6 => format!("b {}", rng.below(2)),
      _ => {
        let f: f64 = match rng.below(10) {
          0 => f64::NAN, 1 => f64::INFINITY, 2 => f64::NEG_INFINITY, 3 => 0.0, 4 => -0.0, 5 => 1.5, 6 => 1e100, 7 => 5e-324,
          8 => (rng.below(2_000_001) as f64 - 1_000_000.0) / 128.0,
          _ => f64::from_bits(rng.next()),
        };
        format!("f {:016x}", f.to_bits())
      }
    };
    out.push(format!("field {} {}", hx(&k), v));
  }
  out
}

fn panic_text(p: Box<dyn std::any::Any + Send>) -> String {
  if let Some(s) = p.downcast_ref::<&str>() { s.to_string() } else if let Some(s) = p.downcast_ref::<String>() { s.clone() } else { "?".into() }
}

/// Specifiers of a pattern as the monitors understand them (independent, ASCII-only scan):
/// (converter, padding if it fits i64). Used only to attribute panics and to decide whether `%m` is present.
/// `\d` exactly as the pattern encoder's regex understands it (Unicode decimal digits, e.g. fullwidth `１`):
/// asked of the regex crate itself, so that the scan below splits a pattern into the same specifiers
fn is_regex_digit(c: char) -> bool {
  static R: std::sync::OnceLock<regex::Regex> = std::sync::OnceLock::new();
  let mut b = [0u8; 4];
  R.get_or_init(|| regex::Regex::new(r"^\d$").unwrap()).is_match(c.encode_utf8(&mut b))
}

fn scan_pattern(p: &str) -> Vec<(char, Option<i64>)> {
  let c: Vec<char> = p.chars().collect();
  let mut i = 0;
  let mut out = vec![];
  while i < c.len() {
    if c[i] != '%' { i += 1; continue; }
    let mut j = i + 1;
    let neg = j < c.len() && c[j] == '-';
    if neg { j += 1; }
    let d0 = j;
    while j < c.len() && is_regex_digit(c[j]) { j += 1; }
    let has_digits = j > d0;
    if (has_digits || !neg) && j < c.len() && c[j].is_ascii_alphabetic() {
      let pad = if has_digits { c[d0..j].iter().collect::<String>().parse::<i64>().ok().map(|v| if neg { -v } else { v }) } else { None };
      let conv = c[j];
      j += 1;
      if j < c.len() && c[j] == '{' {
        if let Some(close) = c[j + 1..].iter().position(|x| *x == '}') { if close > 0 { j = j + 1 + close + 1; } }
      }
      out.push((conv, if has_digits { pad.or(Some(i64::MAX)) } else { None }));
      i = j;
    } else if i + 1 < c.len() && c[i + 1] == '%' { i += 2; } else { i += 1; }
  }
  out
}

fn run_encoder_case(id: &str, header: &[String], ops: &[String]) -> String {
  let kind = kv(header, "kind").unwrap_or("json").to_string();
  let e = ev_from_header(header);
  let flatten = kv(header, "flatten") == Some("1");
  let pat = unhxo(kv(header, "pat")).unwrap_or_default();
  let hdr = if kind == "json" { format!("kind=json flatten={} {}", flatten as u8, ev_header(&e)) } else { format!("kind=pattern pat={} {}", hx(&pat), ev_header(&e)) };
  let mut tr = Tr::new(id, &hdr);
  let mut fields: Vec<(String, LogValue)> = vec![];
  let ts = ts_of(e.tsms);
  for op in ops {
    let t: Vec<&str> = op.split_whitespace().collect();
    match t[0] {
      "field" => match parse_field(&t) {
        Some((k, v)) => {
          let res = match &v {
            LogValue::Float(f) => {
              let j = if f.is_finite() { hx(&serde_json::to_string(f).unwrap()) } else { "-".to_string() };
              format!("{} {}", j, hx(&format!("{}", f)))
            }
            _ => "-".to_string(),
          };
          if let Some(p) = fields.iter().position(|x| x.0 == k) { fields.remove(p); }
          fields.push((k, v));
          tr.line(op, &res);
        }
        None => tr.raw(&format!("# bad field op {op}")),
      },
      "timestamp" => tr.line(op, &hx(&ts.to_rfc3339_opts(chrono::SecondsFormat::Millis, true))),
      "datefmt" => {
        let opts = t.get(1).and_then(|x| unhx(x)).unwrap_or_default();
        // same call as util::write_timestamp_with_format (chrono is trusted); an invalid format string
        // yields fmt::Error after a partial write, which the encoder ignores.
        let mut buf = String::new();
        let r = catch_unwind(AssertUnwindSafe(|| { let _ = write!(buf, "{}", ts.format(&opts)); }));
        if r.is_err() { tr.line(op, "panic"); } else { tr.line(op, &hx(&buf)); }
      }
      "format" => {
        let le = build_event(&e, &fields);
        if kind == "json" {
          let f = JsonLinesFormatter::new(JsonLinesEncoderInternal { flatten_fields: flatten });
          match catch_unwind(AssertUnwindSafe(|| f.format_event(&le))) {
            Err(p) => { tr.line(op, "panic"); tr.monitor("json:panic", &panic_text(p)); }
            Ok(Err(err)) => { tr.line(op, "error"); tr.monitor("json:format-error", &format!("{err}")); }
            Ok(Ok(bytes)) => { tr.line(op, &hxb(&bytes)); json_monitors(&mut tr, &e, &fields, flatten, &bytes); }
          }
        } else {
          let r = catch_unwind(AssertUnwindSafe(|| { let f = PatternFormatter::new(&pat); f.format_event(&le) }));
          let specs = scan_pattern(&pat);
          match r {
            Err(p) => {
              tr.line(op, "panic");
              let sig = if specs.iter().any(|s| s.1 == Some(-2147483648)) { "pattern:panic-padding-i32-min" }
                else if specs.iter().any(|s| s.1.map_or(false, |v| v.abs() > 65535 && v.abs() <= 2147483647)) { "pattern:panic-padding-width-over-u16" }
                else { "pattern:panic" };
              tr.monitor(sig, &format!("PatternFormatter panicked: {}", panic_text(p)));
            }
            Ok(Err(err)) => { tr.line(op, "error"); tr.monitor("pattern:format-error", &format!("{err}")); }
            Ok(Ok(bytes)) => {
              tr.line(op, &hxb(&bytes));
              match std::str::from_utf8(&bytes) {
                Err(_) => tr.monitor("pattern:invalid-utf8", "output is not UTF-8"),
                Ok(s) => {
                  if !s.ends_with('\n') { tr.monitor("pattern:no-trailing-newline", "record does not end with a newline"); }
                  if specs.iter().any(|s| s.0 == 'm') {
                    if let Some(m) = &e.msg { if !s.contains(m.as_str()) { tr.monitor("pattern:message-not-verbatim", "rendered %m does not contain the message"); } }
                  }
                }
              }
            }
          }
        }
      }
      _ => tr.raw(&format!("# unknown op {op}")),
    }
  }
  tr.finish()
}

fn json_monitors(tr: &mut Tr, e: &Ev, fields: &[(String, LogValue)], flatten: bool, bytes: &[u8]) {
  let s = match std::str::from_utf8(bytes) { Ok(s) => s, Err(_) => { tr.monitor("json:invalid-utf8", "output is not UTF-8"); return; } };
  if !s.ends_with('\n') || s[..s.len() - 1].contains('\n') || s.contains('\r') || s.chars().any(|c| (c as u32) < 0x20 && c != '\n') {
    tr.monitor("json:not-single-line", "record is not exactly one newline-terminated line free of control characters");
  }
  let v: serde_json::Value = match serde_json::from_str(s.trim_end_matches('\n')) { Ok(v) => v, Err(err) => { tr.monitor("json:invalid-json", &format!("{err}")); return; } };
  let top = match v.as_object() { Some(o) => o, None => { tr.monitor("json:invalid-json", "not an object"); return; } };
  let want_core: Vec<(&str, Option<String>)> = vec![("level", Some(e.level.clone())), ("target", Some(e.target.clone())), ("name", Some(e.name.clone())),
    ("message", e.msg.clone()), ("span_id", e.span.clone()), ("parent_id", e.parent.clone()), ("thread_id", e.tid.clone()), ("thread_name", e.tname.clone())];
  let present: BTreeSet<&str> = want_core.iter().filter(|c| c.1.is_some()).map(|c| c.0).chain(std::iter::once("timestamp")).collect();
  for (k, w) in &want_core {
    let got = top.get(*k);
    match w {
      Some(w) => if got.and_then(|g| g.as_str()) != Some(w.as_str()) { tr.monitor(&format!("json:core-key-mismatch:{k}"), "core key does not round-trip"); },
      None => if got.is_some() && !(flatten && fields.iter().any(|f| f.0 == *k)) { tr.monitor(&format!("json:core-key-mismatch:{k}"), "absent core key present in output"); },
    }
  }
  let nested = top.get("fields").and_then(|f| f.as_object());
  if !flatten && !fields.is_empty() && nested.is_none() { tr.monitor("json:fields-object-missing", "no nested fields object"); }
  let mut count = 0usize;
  for (k, val) in fields {
    let got = if flatten { top.get(k) } else { nested.and_then(|o| o.get(k)) };
    if flatten && present.contains(k.as_str()) {
      // the property wants the field to survive; the code keeps the core value and drops the field
      tr.monitor("json:flattened-field-dropped-on-core-key-collision", &format!("custom field {:?} is missing from the flattened record", k));
      continue;
    }
    count += 1;
    let ok = match (val, got) {
      (LogValue::String(s), Some(g)) | (LogValue::Debug(s), Some(g)) => g.as_str() == Some(s.as_str()),
      (LogValue::Int(i), Some(g)) => g.as_i64() == Some(*i),
      (LogValue::Bool(b), Some(g)) => g.as_bool() == Some(*b),
      (LogValue::Float(f), Some(g)) => {
        if !f.is_finite() {
          if g.is_null() { tr.monitor("json:non-finite-float-encoded-as-null", &format!("field {:?} = {} was written as null", k, f)); true } else { false }
        } else {
          // serde_json's own number parser is not correctly rounded without its `float_roundtrip` feature, so the exact
          // check is done on the emitted text with std's parser; the parsed Value only has to be that number within 1 ulp.
          let repr = serde_json::to_string(f).unwrap();
          let exact = repr.parse::<f64>().map(|x| x.to_bits()) == Ok(f.to_bits());
          let near = g.as_f64().map_or(false, |x| x == *f || ((x - *f) / *f).abs() < 1e-15);
          exact && near && g.is_number()
        }
      }
      (_, None) => false,
    };
    if !ok { tr.monitor("json:field-mismatch", &format!("field {:?} does not round-trip", k)); }
  }
  if !flatten { if let Some(o) = nested { if o.len() != count { tr.monitor("json:extra-fields", "nested fields object has extra members"); } } }
  if flatten && top.len() != present.len() + count { tr.monitor("json:extra-fields", "flattened record has unexpected members"); }
}

const DATE_OPTS: &[&str] = &["%Y-%m-%d %H:%M:%S", "%H:%M", "%Y", "%s", "%+", "%Q", "%Y-%m-%dT%H:%M:%S%.3f", "x", "%%", "%-5"];

fn gen_pattern(rng: &mut Rng, field_keys: &[String]) -> String {
  let mut p = String::new();
  let n = rng.range(0, 7);
  for _ in 0..n {
    match rng.below(10) {
      0..=2 => { // literal
        match rng.below(6) { 0 => p.push_str("%%"), 1 => p.push('%'), 2 => p.push_str(" - "), 3 => p.push_str("%-"), 4 => p.push_str("{x}"), _ => p.push_str(&gen_string(rng).chars().take(6).collect::<String>()) }
      }
      _ => {
        p.push('%');
        let pad: &str = *rng.weighted(&[(120u32, ""), (24, "5"), (24, "-5"), (16, "0"), (16, "-0"), (16, "1"), (16, "20"), (16, "-12"), (8, "007"), (8, "300"), (2, "65535"), (2, "-65535"),
          (2, "65536"), (2, "-65536"), (1, "70000"), (1, "2147483647"), (1, "-2147483647"), (4, "2147483648"), (2, "-2147483648"), (4, "-2147483649"),
          (4, "99999999999999999999"), (4, "\u{663}"), (4, "1\u{ff11}"), (4, "-")]);
        p.push_str(pad);
        let conv = *rng.weighted(&[(20u32, 'm'), (8, 'p'), (4, 'l'), (8, 't'), (6, 'T'), (6, 'n'), (8, 'X'), (8, 'd'), (2, 'q'), (1, 'Z'), (1, 'M'), (1, '1'), (1, '%')]);
        p.push(conv);
        if rng.chance(1, 3) {
          match conv {
            'd' => { p.push('{'); p.push_str(*rng.pick(DATE_OPTS)); if rng.chance(9, 10) { p.push('}'); } }
            'X' => { p.push('{'); if !field_keys.is_empty() && rng.chance(3, 4) { p.push_str(rng.pick(field_keys).as_str()); } else { p.push_str(&gen_key(rng)); } if rng.chance(9, 10) { p.push('}'); } }
            _ => { p.push_str(*rng.pick(&["{}", "{a}", "{", "{a}}", "{a\nb}"])); }
          }
        }
      }
    }
  }
  p
}

/// every `{...}` group (first `}` after a `{`) of the pattern: candidates for `%d{opts}` options
fn brace_groups(p: &str) -> Vec<String> {
  let c: Vec<char> = p.chars().collect();
  let mut out = BTreeSet::new();
  for i in 0..c.len() {
    if c[i] == '{' {
      if let Some(k) = c[i + 1..].iter().position(|x| *x == '}') { if k > 0 { out.insert(c[i + 1..i + 1 + k].iter().collect::<String>()); } }
    }
  }
  out.into_iter().collect()
}

fn gen_encoder_case(rng: &mut Rng, id: &str, kind: &str) -> String {
  let e = gen_ev(rng);
  let mut ops = gen_field_ops(rng);
  let keys: Vec<String> = ops.iter().filter_map(|o| o.split_whitespace().nth(1).and_then(unhx)).collect();
  ops.push("timestamp".into());
  let header: Vec<String> = if kind == "json" {
    format!("kind=json flatten={} {}", rng.below(2), ev_header(&e)).split_whitespace().map(|s| s.to_string()).collect()
  } else {
    let pat = if rng.chance(1, 12) { "[%d] %p %t - %m%n".to_string() } else { gen_pattern(rng, &keys) };
    for g in brace_groups(&pat) { ops.push(format!("datefmt {}", hx(&g))); }
    format!("kind=pattern pat={} {}", hx(&pat), ev_header(&e)).split_whitespace().map(|s| s.to_string()).collect()
  };
  ops.push("format".into());
  run_encoder_case(id, &header, &ops)
}

// ------------------------------------------------------------------------------------------ roller

#[derive(Clone)]
struct Pol { prefix: String, suffix: String, gran: String, maxsize: Option<u64>, retain: Option<u32>, gz: Option<(String, u32)> }

fn pol_token(p: &Pol) -> String {
  format!("{},{},{},{},{},{},{}", hx(&p.prefix), hx(&p.suffix), p.gran, p.maxsize.map_or("-".into(), |v| v.to_string()), p.retain.map_or("-".into(), |v| v.to_string()),
    p.gz.as_ref().map_or("-".into(), |g| hx(&g.0)), p.gz.as_ref().map_or(0, |g| g.1))
}
fn pol_parse(t: &str) -> Option<Pol> {
  let f: Vec<&str> = t.split(',').collect();
  if f.len() != 7 { return None; }
  Some(Pol { prefix: unhx(f[0])?, suffix: unhx(f[1])?, gran: f[2].to_string(), maxsize: f[3].parse().ok(), retain: f[4].parse().ok(),
    gz: if f[5] == "-" { None } else { Some((unhx(f[5])?, f[6].parse().ok()?)) } })
}
fn pol_internal(p: &Pol, dir: &Path) -> RollingPolicyInternal {
  RollingPolicyInternal { directory: dir.to_path_buf(), file_name_prefix: p.prefix.clone(), file_name_suffix: p.suffix.clone(), time_granularity: p.gran.clone(),
    max_file_size: p.maxsize, max_retained_sequences: p.retain,
    compression: p.gz.as_ref().map(|g| CompressionPolicyInternal { compressed_file_suffix: g.0.clone(), max_uncompressed_sequences: g.1 }) }
}
fn payload(id: u64, len: usize) -> Vec<u8> {
  let head = format!("R{id}:");
  let mut v = head.into_bytes();
  while v.len() + 1 < len { v.push(b'x'); }
  v.push(b'\n');
  v
}
fn min_len(id: u64) -> usize { format!("R{id}:").len() + 1 }

/// file content -> (record ids with their byte lengths, well-formed?)
fn parse_records(b: &[u8]) -> (Vec<(u64, usize)>, bool) {
  let mut out = vec![];
  let mut ok = true;
  let mut i = 0;
  while i < b.len() {
    let end = match b[i..].iter().position(|c| *c == b'\n') { Some(k) => i + k + 1, None => { ok = false; b.len() } };
    let line = &b[i..end];
    let good = line.len() >= 4 && line[0] == b'R' && line.ends_with(b"\n");
    let colon = line.iter().position(|c| *c == b':');
    match (good, colon) {
      (true, Some(c)) if c >= 2 && line[1..c].iter().all(|d| d.is_ascii_digit()) && line[c + 1..line.len() - 1].iter().all(|x| *x == b'x') => {
        out.push((std::str::from_utf8(&line[1..c]).unwrap().parse().unwrap_or(u64::MAX), line.len()));
      }
      _ => ok = false,
    }
    i = end;
  }
  (out, ok)
}
fn read_file(p: &Path) -> (Vec<u8>, bool) {
  let mut raw = std::fs::read(p).unwrap_or_default();
  let mut gz = false;
  // (a second roller sharing the prefix may compress an already compressed file again: unwrap every layer)
  for _ in 0..4 {
    if raw.len() >= 2 && raw[0] == 0x1f && raw[1] == 0x8b {
      let mut out = vec![];
      if flate2::read::GzDecoder::new(&raw[..]).read_to_end(&mut out).is_ok() { raw = out; gz = true; continue; }
    }
    break;
  }
  (raw, gz)
}
struct Listing { files: BTreeMap<String, (Vec<(u64, usize)>, bool, bool)> } // name -> (records, gz, wellformed)
fn list_dir(dir: &Path) -> Listing {
  let mut files = BTreeMap::new();
  if let Ok(rd) = std::fs::read_dir(dir) {
    for e in rd.flatten() {
      let name = e.file_name().to_string_lossy().to_string();
      let (bytes, gz) = read_file(&e.path());
      let (recs, ok) = parse_records(&bytes);
      files.insert(name, (recs, gz, ok));
    }
  }
  Listing { files }
}
fn listing_tokens(l: &Listing) -> String {
  if l.files.is_empty() { return "-".into(); }
  l.files.iter().map(|(n, (r, gz, ok))| format!("{}={}{}{}", hx(n), list(&r.iter().map(|x| x.0).collect::<Vec<_>>()), if *gz { "!gz" } else { "" }, if *ok { "" } else { "!torn" })).collect::<Vec<_>>().join(" ")
}

/// Independent (monitor-side) attribution of a directory entry to a roller by the documented naming
/// scheme `prefix.PERIOD.SEQ suffix [gz]`: returns (period text, seq).
fn rolled_key(p: &Pol, name: &str) -> Option<(String, u64)> {
  let rest = name.strip_prefix(p.prefix.as_str())?.strip_prefix('.')?;
  let gzs = p.gz.as_ref().map(|g| g.0.as_str()).unwrap_or(".gz");
  let cands: Vec<&str> = match rest.strip_suffix(gzs) { Some(r) if !gzs.is_empty() => vec![rest, r], _ => vec![rest] };
  for cand in cands {
    if let Some(body) = cand.strip_suffix(p.suffix.as_str()) {
      if let Some(dot) = body.rfind('.') {
        let (stamp, seq) = (&body[..dot], &body[dot + 1..]);
        let shape = |s: &str, pat: &str| s.len() == pat.len() && s.bytes().zip(pat.bytes()).all(|(a, b)| if b == b'd' { a.is_ascii_digit() } else { a == b });
        if (shape(stamp, "dddd-dd-dd") || shape(stamp, "dddd-dd-dd_dd-dd-dd")) && !seq.is_empty() && seq.bytes().all(|c| c.is_ascii_digit()) {
          if let Ok(n) = seq.parse::<u64>() { return Some((stamp.to_string(), n)); }
        }
      }
    }
  }
  None
}

struct RollerMon { pol: Pol, written: Vec<u64>, lens: HashMap<u64, usize>, opened: bool, shared: bool }

/// Monitor signature. Under an unremarkable configuration the signature names the kind of violation. Under one of
/// three special configuration classes every violation of the roller clauses is attributed to that class (one
/// signature per class; the message keeps the kind), so that a violation under an unremarkable configuration can
/// never match a finding that needs a special one:
/// * another roller in the same directory whose prefix is a prefix of this one's or vice versa (F15),
/// * an empty `compressed_file_suffix` (F17b),
/// * prefix/suffix text that the date/sequence regex can match (`.` followed by a digit, or a suffix starting with a digit) (F17a).
fn signature(m: &RollerMon, kind: &str) -> String {
  let stampy = |s: &str| { let c: Vec<char> = s.chars().collect(); c.windows(2).any(|w| w[0] == '.' && w[1].is_numeric()) };
  if m.shared { "roller:shared-prefix-dir:rolled-file-deleted-within-retention-limit".to_string() }
  else if m.pol.gz.as_ref().map_or(false, |g| g.0.is_empty()) { "roller:empty-compressed-suffix:rolled-file-destroyed".to_string() }
  else if stampy(&format!("{}{}", m.pol.prefix, m.pol.suffix)) || m.pol.suffix.chars().next().map_or(false, |c| c.is_numeric()) { "roller:stamp-like-name-config:rolled-file-clobbered".to_string() }
  else { format!("roller:{kind}") }
}

fn view_of(m: &RollerMon, l: &Listing) -> (Vec<((String, u64), Vec<u64>)>, Vec<u64>) {
  let mut rolled: BTreeMap<(String, u64), Vec<u64>> = BTreeMap::new();
  for (n, (recs, _, _)) in &l.files {
    if let Some(k) = rolled_key(&m.pol, n) { rolled.entry(k).or_default().extend(recs.iter().map(|x| x.0)); }
  }
  let active = l.files.get(&format!("{}{}", m.pol.prefix, m.pol.suffix)).map(|x| x.0.iter().map(|y| y.0).collect()).unwrap_or_default();
  (rolled.into_iter().collect(), active)
}

fn roller_check(tr: &mut Tr, fired: &mut BTreeSet<String>, m: &RollerMon, l: &Listing, r: usize) {
  let mut fail = |tr: &mut Tr, sig: &str, msg: String| {
    let s = signature(m, sig);
    if fired.insert(format!("{r}:{s}")) { tr.monitor(&s, &format!("roller {r}: [{sig}] {msg}")); }
  };
  // torn / malformed records in any file attributed to this roller
  for (n, (recs, _, ok)) in &l.files {
    let mine = rolled_key(&m.pol, n).is_some() || *n == format!("{}{}", m.pol.prefix, m.pol.suffix);
    if !mine { continue; }
    if !*ok { fail(tr, "record-torn", format!("file {n} contains a partial or malformed record")); }
    for (id, len) in recs { if let Some(w) = m.lens.get(id) { if w != len { fail(tr, "record-torn", format!("record {id} has {len} bytes, {w} were written")); } } }
  }
  let (rolled, active) = view_of(m, l);
  let mut c: Vec<u64> = rolled.iter().flat_map(|x| x.1.iter().copied()).collect();
  c.extend(active);
  let w = &m.written;
  if c.len() <= w.len() && w[w.len() - c.len()..] == c[..] {
    // a suffix: whatever is missing must have been deleted by retention, which leaves exactly `retain` files behind
    if c.len() < w.len() && m.pol.retain.map_or(true, |n| (rolled.len() as u64) < n as u64) {
      fail(tr, "record-lost-below-retention-limit", format!("{} of {} written records are gone although only {} rolled files exist (limit {:?})", w.len() - c.len(), w.len(), rolled.len(), m.pol.retain));
    }
    return;
  }
  let set: BTreeSet<u64> = c.iter().copied().collect();
  if set.len() != c.len() { fail(tr, "record-duplicated", format!("retained files contain a record twice: {:?}", c)); return; }
  if c.iter().any(|x| !w.contains(x)) { fail(tr, "foreign-record", format!("retained files contain records this roller never wrote: {:?}", c)); return; }
  let pos: Vec<usize> = c.iter().map(|x| w.iter().position(|y| y == x).unwrap()).collect();
  if pos.windows(2).any(|p| p[0] > p[1]) { fail(tr, "record-reordered", format!("retained order {:?} differs from written order", c)); return; }
  fail(tr, "record-lost", format!("retained records {:?} are not a contiguous suffix of the {} written (a newer or middle record is missing)", c, w.len()));
}

fn run_roller_case(id: &str, header: &[String], ops: &[String], dir: &Path) -> String {
  let _ = std::fs::remove_dir_all(dir);
  std::fs::create_dir_all(dir).unwrap();
  let mut pols: Vec<Pol> = vec![];
  for i in 0..4 { if let Some(p) = kv(header, &format!("r{i}")).and_then(pol_parse) { pols.push(p); } else { break; } }
  let mut now: i64 = kv(header, "t0").and_then(|s| s.parse().ok()).unwrap_or(0);
  let hdr = format!("kind=roller t0={} {}", now, pols.iter().enumerate().map(|(i, p)| format!("r{i}={}", pol_token(p))).collect::<Vec<_>>().join(" "));
  let mut tr = Tr::new(id, &hdr);
  let related = |a: &str, b: &str| a.starts_with(b) || b.starts_with(a);
  let mut mons: Vec<RollerMon> = pols.iter().enumerate().map(|(i, p)| RollerMon { pol: p.clone(), written: vec![], lens: HashMap::new(), opened: false,
    shared: pols.iter().enumerate().any(|(j, q)| j != i && related(&p.prefix, &q.prefix)) }).collect();
  let mut rollers: Vec<Option<CustomRoller>> = pols.iter().map(|_| None).collect();
  let mut fired = BTreeSet::new();
  let at = |s: i64| Utc.timestamp_opt(s, 0).single().unwrap();
  let flush_all = |rollers: &mut Vec<Option<CustomRoller>>| { for r in rollers.iter_mut().flatten() { let _ = r.flush(); } };
  for op in ops {
    let t: Vec<&str> = op.split_whitespace().collect();
    let num = |i: usize| -> u64 { t.get(i).and_then(|s| s.parse().ok()).unwrap_or(0) };
    flush_all(&mut rollers);
    let before = list_dir(dir);
    match t[0] {
      "pre" => {
        // pre <xname> <id,id,...|-> [gz] : a file that exists before the roller starts
        let name = t.get(1).and_then(|x| unhx(x)).unwrap_or_default();
        let ids: Vec<u64> = t.get(2).map(|s| s.split(',').filter_map(|x| x.parse().ok()).collect()).unwrap_or_default();
        let mut bytes = vec![];
        for i in &ids { bytes.extend(payload(*i, 16)); }
        let gz = t.get(3) == Some(&"gz");
        if name.is_empty() || name.contains('/') { tr.raw("# bad pre"); continue; }
        if gz {
          let mut e = flate2::write::GzEncoder::new(vec![], flate2::Compression::default());
          e.write_all(&bytes).unwrap();
          std::fs::write(dir.join(&name), e.finish().unwrap()).unwrap();
        } else { std::fs::write(dir.join(&name), &bytes).unwrap(); }
        for m in mons.iter_mut() { for i in &ids { m.lens.insert(*i, 16); } }
        tr.line(op, "-");
      }
      "open" | "restart" => {
        let r = num(1) as usize;
        if r >= pols.len() { tr.raw("# bad roller index"); continue; }
        rollers[r] = None; // drop flushes the BufWriter
        if !mons[r].opened {
          // whatever the directory already holds for this roller counts as previously written
          let l = list_dir(dir);
          let (rolled, active) = view_of(&mons[r], &l);
          mons[r].written = rolled.iter().flat_map(|x| x.1.iter().copied()).chain(active).collect();
          mons[r].opened = true;
        }
        match catch_unwind(AssertUnwindSafe(|| CustomRoller::verif_new_at_time(pol_internal(&pols[r], dir), at(now)))) {
          Ok(Ok(ro)) => { rollers[r] = Some(ro); tr.line(op, "ok"); }
          Ok(Err(e)) => { tr.line(op, "err"); tr.monitor("roller:open-error", &format!("{e}")); }
          Err(p) => { tr.line(op, "panic"); tr.monitor("roller:panic", &panic_text(p)); }
        }
      }
      "write" => {
        let (r, rid, len) = (num(1) as usize, num(2), num(3) as usize);
        if r >= pols.len() || rollers[r].is_none() { tr.raw("# write on closed roller"); continue; }
        let buf = if len == 0 { vec![] } else { payload(rid, len.max(min_len(rid))) };
        let ro = rollers[r].as_mut().unwrap();
        match catch_unwind(AssertUnwindSafe(|| ro.verif_write_at_time(&buf, at(now)))) {
          Ok(Ok(n)) => {
            if n == buf.len() { if !buf.is_empty() { mons[r].written.push(rid); mons[r].lens.insert(rid, buf.len()); } }
            else { tr.monitor("roller:short-write", &format!("write returned {n} of {}", buf.len())); }
            tr.line(&format!("write {r} {rid} {}", buf.len()), &n.to_string());
          }
          Ok(Err(e)) => { tr.line(op, "err"); tr.monitor("roller:write-error", &format!("{e}")); }
          Err(p) => { tr.line(op, "panic"); tr.monitor("roller:panic", &panic_text(p)); }
        }
      }
      "advance" => { now += num(1) as i64; tr.line(op, "-"); }
      "list" => { tr.line(op, &listing_tokens(&before)); }
      _ => { tr.raw(&format!("# unknown op {op}")); continue; }
    }
    flush_all(&mut rollers);
    let after = list_dir(dir);
    // per-op monitors: deletions within the retention limit, retention count, rolled files are immutable
    for (r, m) in mons.iter().enumerate() {
      if !m.opened { continue; }
      let keys = |l: &Listing| -> BTreeMap<(String, u64), Vec<u64>> { view_of(m, l).0.into_iter().collect() };
      let (kb, ka) = (keys(&before), keys(&after));
      let deleted: Vec<_> = kb.keys().filter(|k| !ka.contains_key(*k)).collect();
      let created = ka.keys().any(|k| !kb.contains_key(k));
      let mut fail = |tr: &mut Tr, sig: &str, msg: String| {
        let s = signature(m, sig);
        if fired.insert(format!("{r}:{s}")) { tr.monitor(&s, &format!("roller {r}: [{sig}] {msg}")); }
      };
      if !deleted.is_empty() && m.pol.retain.map_or(true, |n| (ka.len() as u64) < n as u64) {
        fail(&mut tr, "rolled-file-deleted-within-retention-limit", format!("{:?} deleted by [{op}] although only {} rolled files remain (limit {:?})", deleted, ka.len(), m.pol.retain));
      }
      if created { if let Some(n) = m.pol.retain { if ka.len() as u64 > n as u64 { fail(&mut tr, "retention-exceeded", format!("{} rolled files after a roll, limit {n}", ka.len())); } } }
      for (k, v) in &kb { if let Some(v2) = ka.get(k) { if v != v2 { fail(&mut tr, "rolled-file-content-changed", format!("rolled file {:?} changed from {:?} to {:?}", k, v, v2)); } } }
      roller_check(&mut tr, &mut fired, m, &after, r);
    }
  }
  drop(rollers);
  let _ = std::fs::remove_dir_all(dir);
  tr.finish()
}

const STARTS: &[i64] = &[0, 86_399, 951_782_340 /*2000-02-28T23:59:00*/, 1_709_164_740 /*2024-02-28T23:59:00*/, 1_709_251_140 /*2024-02-29T23:59*/,
  1_735_689_540 /*2024-12-31T23:59*/, 1_677_628_740 /*2023-02-28T23:59*/, 4_107_542_340 /*2100-02-28T23:59*/, 1_700_000_000, 32_503_679_940 /*2999-12-31T23:59*/];

fn gen_roller_case(rng: &mut Rng, id: &str, dir: &Path) -> String {
  let gen_pol = |rng: &mut Rng, prefix: &str| Pol {
    prefix: prefix.to_string(),
    suffix: (*rng.weighted(&[(12u32, ".log"), (2, ""), (2, ".txt"), (1, ".log.old"), (1, "-x")])).to_string(),
    gran: (*rng.pick(&["minutely", "hourly", "daily", "never"])).to_string(),
    maxsize: *rng.weighted(&[(3u32, None), (1, Some(0)), (3, Some(40)), (3, Some(64)), (2, Some(100)), (1, Some(1000)), (1, Some(9000))]),
    retain: *rng.weighted(&[(3u32, None), (1, Some(0)), (2, Some(1)), (3, Some(2)), (2, Some(3)), (1, Some(5))]),
    gz: rng.weighted(&[(5u32, None), (2, Some((".gz", 0))), (2, Some((".gz", 1))), (1, Some((".gz", 2))), (1, Some((".z", 1)))]).map(|g| (g.0.to_string(), g.1)),
  };
  let two = rng.chance(1, 6);
  // (a prefix that the date/sequence regex matches is exercised only by findings/C20_F17.case: there the active file
  // itself is "discovered" and may be unlinked while open, which the model's file system does not represent)
  let pre0 = *rng.pick(&["app", "app", "a.b", "svc", "app.x"]);
  let mut p0 = gen_pol(rng, pre0);
  if rng.chance(1, 40) { p0.gz = Some((String::new(), rng.below(2) as u32)); }
  let mut pols = vec![p0];
  if two {
    let other = if rng.chance(1, 2) { format!("{}2", pols[0].prefix) } else { "zzz".to_string() };
    let mut p1 = gen_pol(rng, &other);
    if rng.chance(1, 2) { p1.gran = pols[0].gran.clone(); }
    pols.push(p1);
  }
  let t0 = *rng.pick(STARTS) + rng.below(60) as i64;
  let header: Vec<String> = format!("kind=roller t0={} {}", t0, pols.iter().enumerate().map(|(i, p)| format!("r{i}={}", pol_token(p))).collect::<Vec<_>>().join(" "))
    .split_whitespace().map(|s| s.to_string()).collect();
  let mut ops: Vec<String> = vec![];
  let mut next_id = 1u64;
  for r in 0..pols.len() { ops.push(format!("open {r}")); }
  let n = rng.range(5, 45);
  for _ in 0..n {
    let r = rng.below(pols.len() as u64);
    match rng.below(20) {
      0..=11 => {
        let len = *rng.weighted(&[(6u32, 8usize), (6, 16), (4, 30), (3, 50), (2, 120), (1, 0), (1, 9000)]);
        ops.push(format!("write {r} {next_id} {len}")); next_id += 1;
      }
      12..=15 => ops.push(format!("advance {}", *rng.pick(&[0u64, 1, 20, 59, 60, 61, 3599, 3600, 7200, 86_399, 86_400, 90_000, 2_678_400]))),
      16..=17 => ops.push(format!("restart {r}")),
      _ => ops.push("list".to_string()),
    }
  }
  ops.push("list".to_string());
  run_roller_case(id, &header, &ops, dir)
}

// -------------------------------------------------------------------------------------------- main

fn tmp_root() -> PathBuf {
  let base = std::env::var("VERIF_TMP").map(PathBuf::from).unwrap_or_else(|_| {
    let exe = std::env::current_exe().ok();
    // /verif/.build/cargo/log/release/logh -> /verif/.build/tmp
    exe.and_then(|e| e.ancestors().nth(4).map(|p| p.join("tmp"))).unwrap_or_else(|| PathBuf::from("/verif/.build/tmp"))
  });
  base.join("logh").join(format!("{}", std::process::id()))
}

fn main() {
  std::panic::set_hook(Box::new(|_| {}));
  let root = tmp_root();
  std::fs::create_dir_all(&root).unwrap();
  match parse_args() {
    Mode::Gen { seed, cases, extra, .. } => {
      let only: Option<String> = extra.iter().find(|e| e.0 == "kind").map(|e| e.1.clone());
      let outs = par_map(cases, 8, |i| {
        let mut rng = Rng::new(seed.wrapping_mul(1_000_003).wrapping_add(i as u64));
        let kind = only.clone().unwrap_or_else(|| ["json", "pattern", "roller"][i % 3].to_string());
        let id = format!("{seed}.{i}");
        match kind.as_str() {
          "roller" => gen_roller_case(&mut rng, &id, &root.join(format!("c{i}"))),
          k => gen_encoder_case(&mut rng, &id, k),
        }
      });
      for o in outs { print!("{o}"); }
    }
    Mode::Run { file } => {
      for (i, c) in read_cases(&file).iter().enumerate() {
        let out = match kv(&c.header, "kind") {
          Some("roller") => run_roller_case(&c.id, &c.header, &c.ops, &root.join(format!("r{i}"))),
          _ => run_encoder_case(&c.id, &c.header, &c.ops),
        };
        print!("{out}");
      }
    }
  }
  let _ = std::fs::remove_dir_all(&root);
}
