//! T2 harness for C18 (`fibre_ioc`): drives `Container`, the global container and `LocalContainer`
//! through their public API (methods and the `resolve*!` macros) with generated registration /
//! resolution histories, prints the transcript for the Lean engine `fvdrv_ioc`, and evaluates the
//! property's own clauses on the implementation (monitors).
//!
//! Modes: `gen --seed S --cases N [--tier T]`, `run <file>`, `stress --seed S --cases N [--tier T]`
//! (real threads released by a barrier).  These orchestrate worker processes (`genchunk`, `stresschunk`,
//! `child` = cases on stdin) so that a case that kills its process (stack overflow on an undetected
//! cycle) is isolated and reported as a monitor failure; a case that hangs is caught by a watchdog.
//!
//! The global container is process-global and has no `clear`: every sequential case that touches
//! `g` is executed in a fresh child process (`ioch child`); stress cases that use `g` give every
//! key a name unique to the case instead (they must share the process to race real threads cheaply).
//!
//! Keys: marker types `T0..T5` (concrete) and trait objects `dyn U0`, `dyn U1`, optionally named
//! (`T3.a`; `T3.` is the empty-string name, which must not alias the unnamed key).
//! Factories are closures that resolve their scripted dependencies with `resolve_from!` /
//! `maybe_resolve_from!` (`resolve!` / `maybe_resolve!` for `g`), then take an instance id from the
//! per-case counter and bump the run counter of their registration.
use fibre_ioc::{global, maybe_resolve, maybe_resolve_from, resolve, resolve_from, Container, LocalContainer};
use std::any::Any;
use std::cell::RefCell;
use std::collections::{HashMap, HashSet};
use std::io::{Read, Write};
use std::panic::{catch_unwind, AssertUnwindSafe};
use std::rc::{Rc, Weak as RcWeak};
use std::sync::atomic::{AtomicU64, Ordering::SeqCst};
use std::sync::{Arc, Barrier, Mutex, Weak};
use std::time::Duration;
use vcommon::*;

// ---------------------------------------------------------------- key family
trait HasId { fn hid(&self) -> u64; }
macro_rules! markers { ($($T:ident),*) => { $( pub struct $T(pub u64); impl HasId for $T { fn hid(&self) -> u64 { self.0 } } )* } }
markers!(T0, T1, T2, T3, T4, T5);
pub trait U0: Send + Sync { fn id(&self) -> u64; }
pub trait U1: Send + Sync { fn id(&self) -> u64; }
pub struct Impl(pub u64);
impl U0 for Impl { fn id(&self) -> u64 { self.0 } }
impl U1 for Impl { fn id(&self) -> u64 { self.0 } }
impl HasId for dyn U0 { fn hid(&self) -> u64 { self.id() } }
impl HasId for dyn U1 { fn hid(&self) -> u64 { self.id() } }

#[derive(Clone, Copy, PartialEq, Eq, Hash, Debug, PartialOrd, Ord)]
enum Cont { G, C(u8), L(u8) }
#[derive(Clone, PartialEq, Eq, Hash, Debug, PartialOrd, Ord)]
struct Key { tr: bool, ty: u8, name: Option<String> }
#[derive(Clone, PartialEq, Eq, Hash, Debug, PartialOrd, Ord)]
struct Slot { c: Cont, k: Key }
#[derive(Clone, Debug)]
struct Dep { c: Cont, k: Key, req: bool }

impl Cont {
  fn parse(s: &str) -> Option<Cont> {
    if s == "g" { return Some(Cont::G); }
    let n: u8 = s.get(1..)?.parse().ok()?;
    match s.as_bytes()[0] { b'c' if n < 2 => Some(Cont::C(n)), b'l' if n < 2 => Some(Cont::L(n)), _ => None }
  }
  fn show(&self) -> String { match self { Cont::G => "g".into(), Cont::C(i) => format!("c{i}"), Cont::L(i) => format!("l{i}") } }
}
impl Key {
  fn parse(s: &str) -> Option<Key> {
    let (t, name) = match s.split_once('.') { Some((t, n)) => (t, Some(n.to_string())), None => (s, None) };
    let n: u8 = t.get(1..)?.parse().ok()?;
    match t.as_bytes()[0] { b'T' if n < 6 => Some(Key { tr: false, ty: n, name }), b'U' if n < 2 => Some(Key { tr: true, ty: n, name }), _ => None }
  }
  fn show(&self) -> String {
    let t = format!("{}{}", if self.tr { 'U' } else { 'T' }, self.ty);
    match &self.name { Some(n) => format!("{t}.{n}"), None => t }
  }
}
impl Slot {
  fn parse(s: &str) -> Option<Slot> { let (c, k) = s.split_once(':')?; Some(Slot { c: Cont::parse(c)?, k: Key::parse(k)? }) }
  fn show(&self) -> String { format!("{}:{}", self.c.show(), self.k.show()) }
}
impl Dep {
  fn parse(s: &str) -> Option<Dep> {
    let (b, req) = match s.strip_suffix('?') { Some(b) => (b, false), None => (s, true) };
    let sl = Slot::parse(b)?; Some(Dep { c: sl.c, k: sl.k, req })
  }
  fn show(&self) -> String { format!("{}:{}{}", self.c.show(), self.k.show(), if self.req { "" } else { "?" }) }
  fn slot(&self) -> Slot { Slot { c: self.c, k: self.k.clone() } }
}

/// what a resolution handed out: payload id, address of the shared allocation, and the handle itself
/// (kept alive for the whole case so that addresses are never reused)
struct Got { id: u64, addr: usize, keep: Box<dyn Any> }
fn got_arc<T: ?Sized + HasId + 'static>(x: Arc<T>) -> Got { Got { id: x.hid(), addr: Arc::as_ptr(&x) as *const () as usize, keep: Box::new(x) } }
fn got_rc<T: ?Sized + HasId + 'static>(x: Rc<T>) -> Got { Got { id: x.hid(), addr: Rc::as_ptr(&x) as *const () as usize, keep: Box::new(x) } }

macro_rules! dispatch_key {
  ($key:expr, $mc:ident, $mt:ident) => {
    match ($key.tr, $key.ty) {
      (false, 0) => $mc!(T0), (false, 1) => $mc!(T1), (false, 2) => $mc!(T2),
      (false, 3) => $mc!(T3), (false, 4) => $mc!(T4), (false, 5) => $mc!(T5),
      (true, 0) => $mt!(U0), (true, 1) => $mt!(U1),
      _ => panic!("harness: bad key"),
    }
  };
}

/// `Container::get` through the crate's macros
fn get_sync(c: &Container, key: &Key, req: bool) -> Option<Got> {
  let name = key.name.as_deref();
  macro_rules! mc { ($T:ident) => { match (name, req) {
    (None, false) => maybe_resolve_from!(c, $T), (None, true) => Some(resolve_from!(c, $T)),
    (Some(n), false) => maybe_resolve_from!(c, $T, n), (Some(n), true) => Some(resolve_from!(c, $T, n)) }.map(got_arc) } }
  macro_rules! mt { ($U:ident) => { match (name, req) {
    (None, false) => maybe_resolve_from!(c, trait $U), (None, true) => Some(resolve_from!(c, trait $U)),
    (Some(n), false) => maybe_resolve_from!(c, trait $U, n), (Some(n), true) => Some(resolve_from!(c, trait $U, n)) }.map(got_arc) } }
  dispatch_key!(key, mc, mt)
}
/// the global container through `resolve!` / `maybe_resolve!`
fn get_global(key: &Key, req: bool) -> Option<Got> {
  let name = key.name.as_deref();
  macro_rules! mc { ($T:ident) => { match (name, req) {
    (None, false) => maybe_resolve!($T), (None, true) => Some(resolve!($T)),
    (Some(n), false) => maybe_resolve!($T, n), (Some(n), true) => Some(resolve!($T, n)) }.map(got_arc) } }
  macro_rules! mt { ($U:ident) => { match (name, req) {
    (None, false) => maybe_resolve!(trait $U), (None, true) => Some(resolve!(trait $U)),
    (Some(n), false) => maybe_resolve!(trait $U, n), (Some(n), true) => Some(resolve!(trait $U, n)) }.map(got_arc) } }
  dispatch_key!(key, mc, mt)
}
fn get_local(c: &LocalContainer, key: &Key, req: bool) -> Option<Got> {
  let name = key.name.as_deref();
  macro_rules! mc { ($T:ident) => { match (name, req) {
    (None, false) => maybe_resolve_from!(c, $T), (None, true) => Some(resolve_from!(c, $T)),
    (Some(n), false) => maybe_resolve_from!(c, $T, n), (Some(n), true) => Some(resolve_from!(c, $T, n)) }.map(got_rc) } }
  macro_rules! mt { ($U:ident) => { match (name, req) {
    (None, false) => maybe_resolve_from!(c, trait $U), (None, true) => Some(resolve_from!(c, trait $U)),
    (Some(n), false) => maybe_resolve_from!(c, trait $U, n), (Some(n), true) => Some(resolve_from!(c, trait $U, n)) }.map(got_rc) } }
  dispatch_key!(key, mc, mt)
}

#[derive(Clone, Copy, PartialEq, Eq, Debug)]
enum Kind { Instance(u64), Singleton, Transient }

/// returns false when the API has no such registration (instance/transient of a trait object)
fn reg_sync(c: &Container, key: &Key, kind: Kind, f: impl Fn() -> u64 + Send + Sync + 'static) -> bool {
  let name = key.name.as_deref();
  macro_rules! mc { ($T:ident) => { { match (kind, name) {
    (Kind::Instance(id), None) => c.add_instance($T(id)),
    (Kind::Instance(id), Some(n)) => c.add_instance_with_name(n, $T(id)),
    (Kind::Singleton, None) => c.add_singleton(move || $T(f())),
    (Kind::Singleton, Some(n)) => c.add_singleton_with_name(n, move || $T(f())),
    (Kind::Transient, None) => c.add_transient(move || $T(f())),
    (Kind::Transient, Some(n)) => c.add_transient_with_name(n, move || $T(f())) }; true } } }
  macro_rules! mt { ($U:ident) => { match (kind, name) {
    (Kind::Singleton, None) => { c.add_singleton_trait::<dyn $U>(move || Arc::new(Impl(f())) as Arc<dyn $U>); true }
    (Kind::Singleton, Some(n)) => { c.add_singleton_trait_with_name::<dyn $U>(n, move || Arc::new(Impl(f())) as Arc<dyn $U>); true }
    _ => false } } }
  dispatch_key!(key, mc, mt)
}
fn reg_local(c: &mut LocalContainer, key: &Key, kind: Kind, f: impl Fn() -> u64 + 'static) -> bool {
  let name = key.name.as_deref();
  macro_rules! mc { ($T:ident) => { match (kind, name) {
    (Kind::Singleton, None) => { c.add_singleton(move || $T(f())); true }
    (Kind::Singleton, Some(n)) => { c.add_singleton_with_name(n, move || $T(f())); true }
    (Kind::Transient, None) => { c.add_transient(move || $T(f())); true }
    (Kind::Transient, Some(n)) => { c.add_transient_with_name(n, move || $T(f())); true }
    _ => false } } }
  macro_rules! mt { ($U:ident) => { match (kind, name) {
    (Kind::Singleton, None) => { c.add_singleton_trait::<dyn $U>(move || Rc::new(Impl(f())) as Rc<dyn $U>); true }
    (Kind::Singleton, Some(n)) => { c.add_singleton_trait_with_name::<dyn $U>(n, move || Rc::new(Impl(f())) as Rc<dyn $U>); true }
    _ => false } } }
  dispatch_key!(key, mc, mt)
}

// ---------------------------------------------------------------- per-case context
struct SyncCtx { conts: Vec<Container>, counter: AtomicU64, made_by: Mutex<HashMap<u64, Slot>> }
struct LocalCtx { sync: Arc<SyncCtx>, locals: Vec<RefCell<LocalContainer>> }

thread_local! {
  /// slots whose factory is running on this thread, outermost first (a factory that unwinds stays)
  static CHAIN: RefCell<Vec<Slot>> = RefCell::new(vec![]);
  /// the dependency the innermost running factory asked for last
  static LAST: RefCell<Option<Slot>> = RefCell::new(None);
}

fn sync_get(s: &SyncCtx, c: Cont, key: &Key, req: bool) -> Option<Got> {
  match c {
    Cont::G => get_global(key, req),
    Cont::C(i) => get_sync(&s.conts[i as usize], key, req),
    Cont::L(_) => panic!("harness: a Send+Sync factory cannot reach a LocalContainer"),
  }
}
fn local_get(l: &LocalCtx, c: Cont, key: &Key, req: bool) -> Option<Got> {
  match c { Cont::L(i) => get_local(&l.locals[i as usize].borrow(), key, req), c => sync_get(&l.sync, c, key, req) }
}

fn factory_body(s: &SyncCtx, me: &Slot, deps: &[Dep], runs: &AtomicU64, get: &dyn Fn(&Dep) -> Option<Got>) -> u64 {
  CHAIN.with(|c| c.borrow_mut().push(me.clone()));
  for d in deps {
    LAST.with(|l| *l.borrow_mut() = Some(d.slot()));
    let _ = get(d);
  }
  let id = s.counter.fetch_add(1, SeqCst);
  runs.fetch_add(1, SeqCst);
  s.made_by.lock().unwrap().insert(id, me.clone());
  CHAIN.with(|c| c.borrow_mut().pop());
  id
}

fn sync_factory(ctx: &Arc<SyncCtx>, me: Slot, deps: Vec<Dep>, runs: Arc<AtomicU64>) -> impl Fn() -> u64 + Send + Sync + 'static {
  let w: Weak<SyncCtx> = Arc::downgrade(ctx);
  move || {
    let s = w.upgrade().expect("harness: context gone");
    factory_body(&s, &me, &deps, &runs, &|d| sync_get(&s, d.c, &d.k, d.req))
  }
}
fn local_factory(ctx: &Rc<LocalCtx>, me: Slot, deps: Vec<Dep>, runs: Arc<AtomicU64>) -> impl Fn() -> u64 + 'static {
  let w: RcWeak<LocalCtx> = Rc::downgrade(ctx);
  move || {
    let l = w.upgrade().expect("harness: context gone");
    factory_body(&l.sync, &me, &deps, &runs, &|d| local_get(&l, d.c, &d.k, d.req))
  }
}

/// what the history says about a slot (kept by the harness, independent of the Lean model)
struct RegInfo { kind: Kind, runs: Arc<AtomicU64>, first: Option<(u64, usize)> }

#[derive(Debug, Clone, PartialEq, Eq)]
enum Out { Some(u64, usize), None, Panic(String) }
impl Out {
  fn show(&self) -> String { match self { Out::Some(i, _) => format!("some:{i}"), Out::None => "none".into(), Out::Panic(k) => format!("panic:{k}") } }
}
fn panic_kind(p: Box<dyn Any + Send>) -> String {
  let m = p.downcast_ref::<String>().cloned().or_else(|| p.downcast_ref::<&str>().map(|s| s.to_string())).unwrap_or_default();
  if m.starts_with("Circular dependency detected") { "cycle".into() }
  else if m.starts_with("Failed to resolve required") { "missing".into() }
  else if m.starts_with("harness:") { format!("harness-bug[{}]", m.replace(' ', "_")) }
  else { format!("other[{}]", m.chars().take(40).collect::<String>().replace(' ', "_")) }
}

struct Case {
  l: Rc<LocalCtx>,
  tr: Tr,
  regs: HashMap<Slot, RegInfo>,
  keep: Vec<Box<dyn Any>>,
  seen_ids: HashSet<u64>,
  seen_addrs: HashSet<usize>,
  fails: Vec<(String, String)>,
}
impl Case {
  fn new(id: &str, header: &str) -> Case {
    let sync = Arc::new(SyncCtx { conts: vec![Container::new(), Container::new()], counter: AtomicU64::new(0), made_by: Mutex::new(HashMap::new()) });
    let l = Rc::new(LocalCtx { sync, locals: vec![RefCell::new(LocalContainer::new()), RefCell::new(LocalContainer::new())] });
    Case { l, tr: Tr::new(id, header), regs: HashMap::new(), keep: vec![], seen_ids: HashSet::new(), seen_addrs: HashSet::new(), fails: vec![] }
  }
  fn fail(&mut self, sig: &str, msg: String) { if !self.fails.iter().any(|f| f.0 == sig) { self.fails.push((sig.to_string(), msg)); } }

  fn register(&mut self, slot: &Slot, kind: Kind, deps: Vec<Dep>) -> bool {
    let runs = Arc::new(AtomicU64::new(0));
    if let Kind::Instance(id) = kind { self.l.sync.counter.fetch_max(id + 1, SeqCst); }
    let ok = match slot.c {
      Cont::G => reg_sync(global(), &slot.k, kind, sync_factory(&self.l.sync, slot.clone(), deps, runs.clone())),
      Cont::C(i) => reg_sync(&self.l.sync.conts[i as usize], &slot.k, kind, sync_factory(&self.l.sync, slot.clone(), deps, runs.clone())),
      Cont::L(i) => reg_local(&mut self.l.locals[i as usize].borrow_mut(), &slot.k, kind, local_factory(&self.l, slot.clone(), deps, runs.clone())),
    };
    if ok { self.regs.insert(slot.clone(), RegInfo { kind, runs, first: None }); }
    ok
  }

  fn resolve_raw(&mut self, slot: &Slot) -> Out {
    CHAIN.with(|c| c.borrow_mut().clear());
    LAST.with(|l| *l.borrow_mut() = None);
    let l = self.l.clone();
    match catch_unwind(AssertUnwindSafe(|| local_get(&l, slot.c, &slot.k, false))) {
      Ok(Some(g)) => { let o = Out::Some(g.id, g.addr); self.keep.push(g.keep); o }
      Ok(None) => Out::None,
      Err(p) => Out::Panic(panic_kind(p)),
    }
  }

  /// the property's clauses, evaluated on what the implementation just did
  fn monitor_resolve(&mut self, slot: &Slot, out: &Out) {
    let s = slot.show();
    match out {
      Out::Some(id, addr) => {
        let Some(info) = self.regs.get_mut(slot) else {
          self.fail("ioc:unregistered-key-resolved", format!("{s} was never registered but resolved to instance {id}")); return;
        };
        let runs = info.runs.load(SeqCst);
        let kind = info.kind;
        let first = info.first;
        if info.first.is_none() { info.first = Some((*id, *addr)); }
        if !matches!(kind, Kind::Instance(_)) {
          let maker = self.l.sync.made_by.lock().unwrap().get(id).cloned();
          if maker.as_ref() != Some(slot) {
            self.fail("ioc:key-aliasing", format!("{s} resolved to instance {id} made by the factory of {:?}", maker.map(|m| m.show())));
          }
        }
        match kind {
          Kind::Instance(want) => {
            if *id != want { self.fail("ioc:instance-not-latest-registration", format!("{s} resolved to {id}, latest add_instance stored {want}")); }
            if let Some((_, a)) = first { if a != *addr { self.fail("ioc:instance-identity-changed", format!("{s}: two resolutions returned different allocations")); } }
          }
          Kind::Singleton => {
            if runs != 1 { self.fail("ioc:singleton-factory-run-count", format!("{s}: factory of the current registration completed {runs} times")); }
            if let Some((i, a)) = first {
              if i != *id || a != *addr { self.fail("ioc:singleton-identity-changed", format!("{s}: first resolution gave instance {i}, a later one {id} (same allocation: {})", a == *addr)); }
            } else if self.seen_ids.contains(id) || self.seen_addrs.contains(addr) {
              self.fail("ioc:singleton-first-instance-not-fresh", format!("{s}: first resolution returned an instance already handed out ({id})"));
            }
          }
          Kind::Transient => {
            if self.seen_ids.contains(id) || self.seen_addrs.contains(addr) {
              self.fail("ioc:transient-not-fresh", format!("{s}: transient resolution returned an instance already handed out ({id})"));
            }
          }
        }
        self.seen_ids.insert(*id);
        self.seen_addrs.insert(*addr);
      }
      Out::None => {
        if self.regs.contains_key(slot) { self.fail("ioc:registered-key-resolved-none", format!("{s} is registered but resolved to None")); }
      }
      Out::Panic(kind) => {
        let chain: Vec<Slot> = CHAIN.with(|c| c.borrow().clone());
        let last: Option<Slot> = LAST.with(|l| l.borrow().clone());
        let chain_s = chain.iter().map(|x| x.show()).collect::<Vec<_>>().join(" -> ");
        match (kind.as_str(), last) {
          ("cycle", Some(d)) => {
            if chain.contains(&d) { /* a real cycle: the panic is what the property demands */ }
            else if chain.iter().any(|x| x.k == d.k) {
              self.fail("ioc:cross-container-same-key-reported-as-cycle",
                format!("resolve {s}: factory chain {chain_s} asked for {} and got \"Circular dependency detected\" although that slot is not being resolved (same key, other container)", d.show()));
            } else {
              self.fail("ioc:cycle-panic-without-cycle", format!("resolve {s}: chain {chain_s} asked for {}: cycle panic, key not on the chain", d.show()));
            }
          }
          ("cycle", None) => self.fail("ioc:cycle-panic-without-cycle", format!("resolve {s}: cycle panic before any factory ran (stale resolving set)")),
          ("missing", Some(d)) => {
            if self.regs.contains_key(&d) && !chain.is_empty() {
              // a registered dependency that resolved to None
              self.fail("ioc:registered-key-resolved-none", format!("resolve {s}: dependency {} is registered but resolved to None", d.show()));
            }
          }
          (k, _) => self.fail("ioc:unexpected-panic", format!("resolve {s}: panic {k}, chain {chain_s}")),
        }
      }
    }
  }

  fn count(&self, slot: &Slot) -> String {
    match self.regs.get(slot) { None => "-".into(), Some(i) => i.runs.load(SeqCst).to_string() }
  }

  fn op(&mut self, line: &str) {
    let t: Vec<&str> = line.split_whitespace().collect();
    let slot2 = |i: usize| -> Option<Slot> { Some(Slot { c: Cont::parse(t.get(i)?)?, k: Key::parse(t.get(i + 1)?)? }) };
    match t.first().copied() {
      Some("reg_instance") => {
        let (Some(s), Some(id)) = (slot2(1), t.get(3).and_then(|x| x.parse::<u64>().ok())) else { self.tr.raw(&format!("# skipped {line}")); return; };
        if self.register(&s, Kind::Instance(id), vec![]) { self.tr.line(line, "-"); } else { self.tr.raw(&format!("# unsupported {line}")); }
      }
      Some(k @ ("reg_singleton" | "reg_transient")) => {
        let deps: Option<Vec<Dep>> = t.iter().skip(3).map(|x| Dep::parse(x)).collect();
        let (Some(s), Some(deps)) = (slot2(1), deps) else { self.tr.raw(&format!("# skipped {line}")); return; };
        if !matches!(s.c, Cont::L(_)) && deps.iter().any(|d| matches!(d.c, Cont::L(_))) { self.tr.raw(&format!("# unsupported {line}")); return; }
        let kind = if k == "reg_singleton" { Kind::Singleton } else { Kind::Transient };
        if self.register(&s, kind, deps) { self.tr.line(line, "-"); } else { self.tr.raw(&format!("# unsupported {line}")); }
      }
      Some("resolve") => {
        let Some(s) = slot2(1) else { self.tr.raw(&format!("# skipped {line}")); return; };
        let out = self.resolve_raw(&s);
        self.monitor_resolve(&s, &out);
        self.tr.line(line, &out.show());
      }
      Some("count") => {
        let Some(s) = slot2(1) else { self.tr.raw(&format!("# skipped {line}")); return; };
        let c = self.count(&s);
        self.tr.line(line, &c);
      }
      Some("par") => self.par(line, &t[1..]),
      _ => self.tr.raw(&format!("# unknown op {line}")),
    }
  }

  /// real threads: resolvers (one per `<c>:<key>` token) and instance registrars (`+<c>:<key>=<id>`),
  /// all released together by a barrier
  fn par(&mut self, line: &str, toks: &[&str]) {
    let mut resolvers: Vec<Slot> = vec![];
    let mut registrars: Vec<(Slot, u64)> = vec![];
    for t in toks {
      if let Some(r) = t.strip_prefix('+') {
        let Some((sl, id)) = r.split_once('=') else { continue };
        if let (Some(s), Ok(id)) = (Slot::parse(sl), id.parse::<u64>()) { registrars.push((s, id)); }
      } else if let Some(s) = Slot::parse(t) { resolvers.push(s); }
    }
    if resolvers.iter().chain(registrars.iter().map(|r| &r.0)).any(|s| matches!(s.c, Cont::L(_))) { self.tr.raw(&format!("# unsupported {line}")); return; }
    let sync = self.l.sync.clone();
    let barrier = Barrier::new(resolvers.len() + registrars.len());
    type R = Result<Option<(u64, usize, Box<dyn Any + Send>)>, String>;
    let mut results: Vec<R> = vec![];
    std::thread::scope(|sc| {
      let mut hs = vec![];
      for s in &resolvers {
        let (sync, barrier) = (&sync, &barrier);
        hs.push(sc.spawn(move || -> R {
          barrier.wait();
          match catch_unwind(AssertUnwindSafe(|| sync_get_send(sync, s.c, &s.k))) { Ok(r) => Ok(r), Err(p) => Err(panic_kind(p)) }
        }));
      }
      let mut gs = vec![];
      for (s, id) in &registrars {
        let (sync, barrier) = (&sync, &barrier);
        gs.push(sc.spawn(move || {
          barrier.wait();
          sync.counter.fetch_max(id + 1, SeqCst);
          let c: &Container = match s.c { Cont::G => global(), Cont::C(i) => &sync.conts[i as usize], _ => unreachable!() };
          reg_sync(c, &s.k, Kind::Instance(*id), || 0);
        }));
      }
      for h in hs { results.push(h.join().unwrap_or_else(|_| Err("join".into()))); }
      for g in gs { let _ = g.join(); }
    });
    for (s, id) in &registrars { self.regs.insert(s.clone(), RegInfo { kind: Kind::Instance(*id), runs: Arc::new(AtomicU64::new(0)), first: None }); }
    // identity across threads: every resolver of one singleton slot got the same allocation
    let mut by_slot: HashMap<Slot, Vec<(u64, usize)>> = HashMap::new();
    let mut outs = vec![];
    for (s, r) in resolvers.iter().zip(results.into_iter()) {
      let out = match r {
        Ok(Some((id, addr, keep))) => { self.keep.push(keep); by_slot.entry(s.clone()).or_default().push((id, addr)); Out::Some(id, addr) }
        Ok(None) => Out::None,
        Err(k) => Out::Panic(k),
      };
      outs.push(out);
    }
    for (s, v) in &by_slot {
      let Some((kind, runs)) = self.regs.get(s).map(|i| (i.kind, i.runs.load(SeqCst))) else { continue };
      match kind {
        Kind::Singleton => {
          if v.iter().any(|x| x != &v[0]) { self.fail("ioc:concurrent-singleton-identity", format!("{}: concurrent resolvers got different instances {:?}", s.show(), v.iter().map(|x| x.0).collect::<Vec<_>>())); }
          if runs != 1 { self.fail("ioc:concurrent-singleton-factory-run-count", format!("{}: factory completed {runs} times under {} concurrent resolvers", s.show(), v.len())); }
        }
        Kind::Transient => {
          let mut a: Vec<usize> = v.iter().map(|x| x.1).collect(); a.sort(); a.dedup();
          if a.len() != v.len() { self.fail("ioc:transient-not-fresh", format!("{}: concurrent transient resolutions shared an allocation", s.show())); }
        }
        Kind::Instance(_) => {}
      }
    }
    // sequential clauses too (first/fresh bookkeeping), thread order
    for (s, o) in resolvers.iter().zip(outs.iter()) {
      match o {
        Out::Panic(_) => self.fail("ioc:unexpected-panic", format!("par resolve {}: {}", s.show(), o.show())),
        o => self.monitor_resolve(s, o),
      }
    }
    self.tr.line(line, &outs.iter().map(|o| o.show()).collect::<Vec<_>>().join(" "));
  }

  fn finish(mut self) -> String {
    let fails = std::mem::take(&mut self.fails);
    for (s, m) in &fails { self.tr.monitor(s, m); }
    self.tr.finish()
  }
}

/// resolver-thread version of `sync_get`: the keep-alive handle must cross the thread boundary
fn sync_get_send(s: &SyncCtx, c: Cont, key: &Key) -> Option<(u64, usize, Box<dyn Any + Send>)> {
  let cont: &Container = match c { Cont::G => global(), Cont::C(i) => &s.conts[i as usize], Cont::L(_) => panic!("harness: local in thread") };
  let name = key.name.as_deref();
  fn pack<T: ?Sized + HasId + Send + Sync + 'static>(x: Arc<T>) -> (u64, usize, Box<dyn Any + Send>) { (x.hid(), Arc::as_ptr(&x) as *const () as usize, Box::new(x)) }
  macro_rules! mc { ($T:ident) => { cont.get::<$T>(name).map(pack) } }
  macro_rules! mt { ($U:ident) => { cont.get::<dyn $U>(name).map(pack) } }
  dispatch_key!(key, mc, mt)
}

// ---------------------------------------------------------------- running cases
fn touches_global(ops: &[String]) -> bool {
  ops.iter().any(|l| l.split_whitespace().any(|t| t == "g" || t.trim_start_matches('+').starts_with("g:")))
}

/// same format as `vcommon::read_cases`, from a string (the child gets its case on stdin)
fn parse_cases(text: &str) -> Vec<CaseIn> {
  let mut out = vec![];
  let mut cur: Option<CaseIn> = None;
  for l in text.lines() {
    let l = l.trim();
    if let Some(rest) = l.strip_prefix("#case ") {
      let mut t = rest.split_whitespace().map(|s| s.to_string());
      let id = t.next().unwrap_or_default();
      cur = Some(CaseIn { id, header: t.collect(), ops: vec![] });
    } else if l.starts_with("#end") { if let Some(c) = cur.take() { out.push(c); } }
    else if l.is_empty() || l.starts_with('#') || l.starts_with('!') {}
    else if let Some(c) = cur.as_mut() { c.ops.push(l.split(" => ").next().unwrap().trim().to_string()); }
  }
  if let Some(c) = cur.take() { out.push(c); }
  out
}

/// own thread + watchdog: a resolution that never returns is a violation ("panic, not a hang")
fn run_case_watched(id: &str, header: &str, ops: &[String]) -> String {
  let (tx, rx) = std::sync::mpsc::channel();
  let (id2, header2, ops2) = (id.to_string(), header.to_string(), ops.to_vec());
  // (transcript so far, operation in progress)
  let progress = Arc::new(Mutex::new((String::new(), String::new())));
  let p2 = progress.clone();
  std::thread::Builder::new().stack_size(16 << 20).spawn(move || {
    let mut c = Case::new(&id2, &header2);
    for l in &ops2 { *p2.lock().unwrap() = (c.tr.buf.clone(), l.clone()); c.op(l); }
    let _ = tx.send(c.finish());
  }).expect("spawn");
  match rx.recv_timeout(Duration::from_secs(20)) {
    Ok(s) => s,
    Err(_) => {
      let (sofar, at) = progress.lock().unwrap().clone();
      let mut tr = Tr { buf: if sofar.is_empty() { format!("#case {id} {header}\n") } else { sofar } };
      tr.line(&at, "hang");
      tr.monitor("ioc:resolve-hang", &format!("operation `{at}` did not return within 20 s (the property demands a panic)"));
      tr.finish()
    }
  }
}

fn case_text(id: &str, header: &str, ops: &[String]) -> String {
  let mut text = format!("#case {id} {header}\n");
  for l in ops { text.push_str(l); text.push('\n'); }
  text.push_str("#end\n");
  text
}

/// run `ioch <args>` with `input` on stdin; `None` when the process died (abort, stack overflow)
fn spawn_self(args: &[String], input: &str) -> Option<String> {
  let exe = std::env::current_exe().expect("current_exe");
  let mut child = std::process::Command::new(exe).args(args)
    .stdin(std::process::Stdio::piped()).stdout(std::process::Stdio::piped()).stderr(std::process::Stdio::null()).spawn().expect("spawn child");
  {
    let mut si = child.stdin.take().unwrap();
    let _ = si.write_all(input.as_bytes());
  }
  let out = child.wait_with_output().expect("child output");
  if out.status.success() { Some(String::from_utf8_lossy(&out.stdout).to_string()) } else { None }
}

fn count_ends(s: &str) -> usize { s.lines().filter(|l| l.starts_with("#end")).count() }

/// the case killed its process: that is neither a value nor a panic
fn crashed_case(id: &str, header: &str, ops: &[String]) -> String {
  let mut tr = Tr::new(id, header);
  for l in ops { tr.line(l, "?"); }
  tr.monitor("ioc:resolve-crash", "the process running this case died (stack overflow / abort) instead of returning or panicking");
  tr.finish()
}

/// one case in a fresh process (`ioch child`): the global container starts empty, and a crash
/// (stack overflow on an undetected cycle) takes down only this case
fn run_case_isolated(id: &str, header: &str, ops: &[String]) -> String {
  match spawn_self(&["child".to_string()], &case_text(id, header, ops)) {
    Some(s) if count_ends(&s) == 1 => s,
    _ => crashed_case(id, header, ops),
  }
}

/// inside a worker process
fn run_case(id: &str, header: &str, ops: &[String]) -> String {
  if !touches_global(ops) || header.contains("mode=stress") { return run_case_watched(id, header, ops); }
  run_case_isolated(id, header, ops)
}

// ---------------------------------------------------------------- generators
const NAMES: [Option<&str>; 5] = [None, None, Some("a"), Some("b"), Some("")];

fn gen_key(rng: &mut Rng, ntypes: u64) -> Key {
  let name = rng.pick(&NAMES).map(|s| s.to_string());
  if rng.chance(1, 5) { Key { tr: true, ty: rng.below(2) as u8, name } } else { Key { tr: false, ty: rng.below(ntypes) as u8, name } }
}

fn gen_ops(rng: &mut Rng, thorough: bool) -> Vec<String> {
  // container set of the case; the global one (child process) in one case out of six
  let mut conts: Vec<Cont> = vec![Cont::C(0)];
  if rng.chance(1, 2) { conts.push(Cont::C(1)); }
  if rng.chance(1, 6) { conts.push(Cont::G); }
  let sync_conts = conts.clone();
  if rng.chance(1, 3) { conts.push(Cont::L(0)); if rng.chance(1, 3) { conts.push(Cont::L(1)); } }
  // half of the cases keep every factory inside its own container (no F16, the cycle detector is exact there)
  let cross = rng.chance(1, 2);
  let ntypes = rng.range(1, 3);
  let nkeys = rng.range(2, 5) as usize;
  let mut keys: Vec<Key> = vec![];
  for _ in 0..nkeys { let k = gen_key(rng, ntypes); if !keys.contains(&k) { keys.push(k); } }
  let len = if thorough { rng.range(6, 60) } else { rng.range(4, 28) } as usize;
  let mut ops = vec![];
  let pick_key = |rng: &mut Rng| -> Key { if rng.chance(1, 12) { gen_key(rng, 6) } else { rng.pick(&keys).clone() } };
  for i in 0..len {
    let c = *rng.pick(&conts);
    let k = pick_key(rng);
    let what = *rng.weighted(&[(12u32, "reg_instance"), (26, "reg_singleton"), (16, "reg_transient"), (38, "resolve"), (8, "count")]);
    match what {
      "reg_instance" if !k.tr && !matches!(c, Cont::L(_)) => ops.push(format!("reg_instance {} {} {}", c.show(), k.show(), 100 + i)),
      "reg_instance" => ops.push(format!("resolve {} {}", c.show(), k.show())),
      "reg_singleton" | "reg_transient" => {
        let what = if k.tr { "reg_singleton" } else { what };
        let from: &[Cont] = if matches!(c, Cont::L(_)) { &conts } else { &sync_conts };
        let nd = *rng.weighted(&[(30u32, 0usize), (35, 1), (25, 2), (10, 3)]);
        let mut deps = vec![];
        for _ in 0..nd {
          // one dependency in five is the same key in another container (decorator / override pattern)
          let (dc, dk) = if rng.chance(1, 10) && from.len() > 1 { (*rng.pick(from), k.clone()) }
            else if rng.chance(3, 4) {
              // mostly "downward" in the case's key order, so most graphs are acyclic
              let me = keys.iter().position(|x| x == &k).unwrap_or(0);
              if me + 1 < keys.len() { (c, keys[rng.range(me as u64 + 1, keys.len() as u64 - 1) as usize].clone()) } else { (*rng.pick(from), pick_key(rng)) }
            } else { (if rng.chance(1, 2) { c } else { *rng.pick(from) }, pick_key(rng)) };
          let dc = if !cross || (!matches!(c, Cont::L(_)) && matches!(dc, Cont::L(_))) { c } else { dc };
          deps.push(Dep { c: dc, k: dk, req: !rng.chance(1, 3) }.show());
        }
        ops.push(format!("{what} {} {} {}", c.show(), k.show(), deps.join(" ")).trim_end().to_string());
      }
      "count" => ops.push(format!("count {} {}", c.show(), k.show())),
      _ => ops.push(format!("resolve {} {}", c.show(), k.show())),
    }
  }
  // final sweep: every key in every container, twice (singletons stable, transients fresh), plus counters
  for c in &conts { for k in &keys { ops.push(format!("resolve {} {}", c.show(), k.show())); } }
  for c in &conts { for k in &keys { ops.push(format!("resolve {} {}", c.show(), k.show())); ops.push(format!("count {} {}", c.show(), k.show())); } }
  ops
}

/// first-resolution races: an acyclic registry in one container, then k threads at a barrier
fn gen_stress(rng: &mut Rng, case_no: usize, thorough: bool) -> Vec<String> {
  let use_global = rng.chance(1, 4);
  let c = if use_global { Cont::G } else { Cont::C(0) };
  let nk = rng.range(2, 5) as usize;
  // distinct keys; in the global container the name is unique to the case
  let mut keys: Vec<Key> = vec![];
  while keys.len() < nk + 2 {
    let mut k = gen_key(rng, 6);
    if use_global { k.name = Some(format!("s{case_no}x{}", keys.len())); }
    if !keys.contains(&k) { keys.push(k); }
  }
  let (fresh, keys) = keys.split_at(2);
  let mut ops = vec![];
  // anchor: puts the id counter above the ids the racing registrars use (40, 41)
  ops.push(format!("reg_instance {} T0.zz{} 50", c.show(), if use_global { case_no.to_string() } else { String::new() }));
  if rng.chance(1, 2) {
    if let Some(k) = keys.iter().find(|k| !k.tr) { ops.push(format!("reg_instance {} {} 60", c.show(), k.show())); }
  }
  // key i may depend on keys j > i and, optionally, on keys registered during the race
  for (i, k) in keys.iter().enumerate().rev() {
    if ops.iter().any(|o| o.starts_with("reg_instance") && o.split_whitespace().nth(2) == Some(k.show().as_str())) && rng.chance(1, 2) { continue; }
    let mut deps = vec![];
    for j in i + 1..keys.len() { if rng.chance(1, 2) { deps.push(Dep { c, k: keys[j].clone(), req: rng.chance(1, 2) }.show()); } }
    if rng.chance(1, 3) { deps.push(Dep { c, k: fresh[rng.below(2) as usize].clone(), req: false }.show()); }
    let what = if k.tr || rng.chance(2, 3) || i == 0 { "reg_singleton" } else { "reg_transient" };
    ops.push(format!("{what} {} {} {}", c.show(), k.show(), deps.join(" ")).trim_end().to_string());
  }
  let threads = if thorough { rng.range(2, 16) } else { rng.range(2, 8) } as usize;
  let mut par = vec![];
  for _ in 0..threads {
    let k = if rng.chance(3, 5) { &keys[0] } else { &keys[rng.below(keys.len() as u64) as usize] };
    par.push(format!("{}:{}", c.show(), k.show()));
  }
  for (j, k) in fresh.iter().enumerate() { if !k.tr && rng.chance(1, 2) { par.push(format!("+{}:{}={}", c.show(), k.show(), 40 + j)); } }
  ops.push(format!("par {}", par.join(" ")));
  for k in keys.iter().chain(fresh.iter()) { ops.push(format!("count {} {}", c.show(), k.show())); }
  for k in keys.iter().chain(fresh.iter()) { ops.push(format!("resolve {} {}", c.show(), k.show())); }
  for k in keys.iter() { ops.push(format!("count {} {}", c.show(), k.show())); }
  ops
}

fn flag(args: &[String], name: &str) -> Option<String> { args.iter().position(|a| a == name).and_then(|i| args.get(i + 1).cloned()) }

fn gen_case(seed: u64, i: usize, thorough: bool) -> (String, Vec<String>) {
  let mut rng = Rng::new(seed.wrapping_mul(1_000_003).wrapping_add(i as u64));
  (format!("{seed}.{i}"), gen_ops(&mut rng, thorough))
}
fn stress_case(seed: u64, i: usize, thorough: bool) -> (String, Vec<String>) {
  let mut rng = Rng::new(seed.wrapping_mul(7_000_003).wrapping_add(i as u64));
  (format!("st{seed}.{i}"), gen_stress(&mut rng, i, thorough))
}

fn main() {
  std::panic::set_hook(Box::new(|_| {}));
  let args: Vec<String> = std::env::args().skip(1).collect();
  let seed: u64 = flag(&args, "--seed").and_then(|s| s.parse().ok()).unwrap_or(1);
  let cases: usize = flag(&args, "--cases").and_then(|s| s.parse().ok()).unwrap_or(100);
  let tier = flag(&args, "--tier").unwrap_or_else(|| "quick".to_string());
  let thorough = tier == "thorough";
  let from: usize = flag(&args, "--from").and_then(|s| s.parse().ok()).unwrap_or(0);
  let to: usize = flag(&args, "--to").and_then(|s| s.parse().ok()).unwrap_or(cases);
  match args.first().map(|s| s.as_str()) {
    // ---- worker processes
    Some("child") => {
      let mut text = String::new();
      let _ = std::io::stdin().read_to_string(&mut text);
      for c in parse_cases(&text) { print!("{}", run_case_watched(&c.id, &c.header.join(" "), &c.ops)); }
    }
    Some("genchunk") => {
      for i in from..to { let (id, ops) = gen_case(seed, i, thorough); print!("{}", run_case(&id, "mode=seq", &ops)); }
    }
    Some("stresschunk") => {
      // sequential: each case spawns its own racing threads
      for i in from..to { let (id, ops) = stress_case(seed, i, thorough); print!("{}", run_case(&id, "mode=stress", &ops)); }
    }
    // ---- orchestrators: the work happens in worker processes so that a crashing case is isolated
    Some(m @ ("gen" | "stress")) => {
      let (chunk, workers) = if m == "gen" { (100usize, 8usize) } else { (250, 2) };
      let nchunks = (cases + chunk - 1) / chunk;
      let outs = par_map(nchunks, workers, |c| {
        let (a, b) = (c * chunk, ((c + 1) * chunk).min(cases));
        let sub = |a: usize, b: usize| -> Option<String> {
          let args: Vec<String> = [if m == "gen" { "genchunk" } else { "stresschunk" }, "--seed", &seed.to_string(), "--tier", &tier,
            "--from", &a.to_string(), "--to", &b.to_string()].iter().map(|s| s.to_string()).collect();
          spawn_self(&args, "").filter(|s| count_ends(s) == b - a)
        };
        if let Some(s) = sub(a, b) { return s; }
        // a case of this chunk killed the worker: find it
        let mut out = String::new();
        for i in a..b {
          match sub(i, i + 1) {
            Some(s) => out.push_str(&s),
            None => {
              let (id, ops) = if m == "gen" { gen_case(seed, i, thorough) } else { stress_case(seed, i, thorough) };
              out.push_str(&crashed_case(&id, if m == "gen" { "mode=seq" } else { "mode=stress" }, &ops));
            }
          }
        }
        out
      });
      for o in outs { print!("{o}"); }
    }
    Some("run") => {
      let file = args.get(1).cloned().unwrap_or_else(|| { eprintln!("run <file>"); std::process::exit(2) });
      for c in read_cases(&file) {
        let header = if c.header.is_empty() { "mode=seq".to_string() } else { c.header.join(" ") };
        print!("{}", run_case_isolated(&c.id, &header, &c.ops));
      }
    }
    _ => { eprintln!("usage: gen|stress --seed S --cases N [--tier T] | run <file>"); std::process::exit(2); }
  }
  let _ = std::io::stdout().flush();
  // leaked watchdog threads (if any) must not keep the process alive
  std::process::exit(0);
}
