//! T4 harness for C19: whole-process differential of `fibre_logging` routing / delivery.
//!
//! `init_from_file` installs process-global subscribers, so every generated configuration is
//! exercised in a CHILD process (`logproch child <casefile>`): write the YAML, initialise, emit the
//! scripted `log` / `tracing` events from k threads, shut down (or drop the guard) at the scripted
//! point, emit the rest, drain every custom stream until `Disconnected`, print what each stream
//! received. The parent (`gen` / `run`) builds the transcript for the Lean engine `fvdrv_route`
//! and evaluates the property itself on the observed deliveries (monitors; `RouteSpec` is
//! re-implemented here from the property text, independently of the Lean model and of the code).
//!
//! Case format (also the transcript, see lean/Fv/Driver/Route.lean):
//!   #case <id> threads=<k> [rootimplicit=1]
//!   appender <name> <cap> <block|drop>
//!   root <level> <a,b|-> [nonadd]            (the flag is written to the YAML; the code never reads it)
//!   logger <name|~> <level> <add|nonadd> <a,b|->
//!   emit <thread> <seq> <log|tracing> <target|~> <level>  => <a,b|->
//!   shutdown <shutdown|drop|scope|shutdownthread|dropthread|panicdrop|paniccatch> => ok
//!   stream <appender>                                     => <t.s,...|-> <disconnected|timeout>
use std::collections::{BTreeMap, BTreeSet};
use std::io::Write as _;
use std::sync::atomic::{AtomicBool, AtomicUsize, Ordering};
use std::sync::{Arc, Barrier, Mutex};
use std::time::{Duration, Instant};
use vcommon::*;

const TMP: &str = "/verif/.build/tmp/logproc";
const LEVELS: [&str; 6] = ["off", "error", "warn", "info", "debug", "trace"];

// ------------------------------------------------------------------ static tracing callsites
macro_rules! tr_levels {
  ($t:literal, $lvl:expr, $id:expr) => {
    match $lvl {
      1 => tracing::event!(target: $t, tracing::Level::ERROR, "{}", $id),
      2 => tracing::event!(target: $t, tracing::Level::WARN, "{}", $id),
      3 => tracing::event!(target: $t, tracing::Level::INFO, "{}", $id),
      4 => tracing::event!(target: $t, tracing::Level::DEBUG, "{}", $id),
      _ => tracing::event!(target: $t, tracing::Level::TRACE, "{}", $id),
    }
  };
}
macro_rules! targets {
  ($($t:literal),* $(,)?) => {
    /// every target an event can carry (tracing callsites need literals)
    const TARGETS: &[&str] = &[$($t),*];
    fn emit_tracing(target: &str, lvl: u8, id: &str) {
      match target {
        $($t => tr_levels!($t, lvl, id),)*
        other => panic!("no static callsite for target {other:?}"),
      }
    }
  };
}
targets!(
  "a", "a::b", "a::b::c", "a::b::c::d", "a::bc", "a::bc::d", "ab", "ab::c", "abc", "a:", "a::", "a::::b", "a:::b",
  "b", "b::a", "b::a::a", "ba", "c", "c::a", "root", "root::x", "", "::a", "x::y::z", "a::b::cd", "a::b:c", "A", "a::B",
  "roo", "rootx", "x", "x::y",
);

/// logger names the generator draws from (any string is a legal YAML key)
const LOGGER_NAMES: &[&str] = &[
  "a", "a::b", "a::b::c", "a::b::c::d", "a::bc", "ab", "abc", "a:", "a::", "a:::b", "a::::b", "b", "b::a", "ba", "c",
  "root::x", "", "x", "x::y", "a::b::cd", "a::b:c", "A", "::a", "a::B", "b::a::a", "rootx", "roo",
];

fn tok(s: &str) -> String { if s.is_empty() { "~".into() } else { s.to_string() } }
fn untok(s: &str) -> String { if s == "~" { String::new() } else { s.to_string() } }
fn level_of(s: &str) -> u8 { LEVELS.iter().position(|l| *l == s).unwrap_or(3) as u8 }

// ------------------------------------------------------------------ case model
#[derive(Clone, Debug)]
struct App { name: String, cap: usize, block: bool }
#[derive(Clone, Debug)]
struct Lg { name: String, level: u8, additive: bool, apps: Vec<usize> }
#[derive(Clone, Debug)]
struct Emit { thread: usize, seq: usize, api: String, target: String, level: u8, after_shutdown: bool, line: String }
#[derive(Clone, Debug, Default)]
struct Case {
  id: String, threads: usize, root_implicit: bool,
  apps: Vec<App>, root_level: u8, root_apps: Vec<usize>, root_nonadditive: bool, loggers: Vec<Lg>,
  emits: Vec<Emit>, shutdown_kind: Option<String>,
  /// op lines in file order (config + emit + shutdown), for the transcript
  lines: Vec<String>,
}

fn parse_case(c: &CaseIn) -> Result<Case, String> {
  let mut k = Case { id: c.id.clone(), root_level: 3, ..Default::default() };
  k.threads = kv(&c.header, "threads").and_then(|s| s.parse().ok()).unwrap_or(1).max(1);
  k.root_implicit = kv(&c.header, "rootimplicit") == Some("1");
  let app_idx = |apps: &Vec<App>, t: &str| -> Result<Vec<usize>, String> {
    if t == "-" { return Ok(vec![]); }
    t.split(',').map(|n| apps.iter().position(|a| a.name == n).ok_or(format!("unknown appender {n}"))).collect()
  };
  for op in &c.ops {
    let t: Vec<&str> = op.split_whitespace().collect();
    match t.as_slice() {
      ["appender", n, cap, pol] => k.apps.push(App { name: n.to_string(), cap: cap.parse().map_err(|_| "cap")?, block: *pol == "block" }),
      ["root", lvl, apps] => { k.root_level = level_of(lvl); k.root_apps = app_idx(&k.apps, apps)?; }
      // root's `additive` flag is read by nobody (it is only the fallback); the YAML still carries it
      ["root", lvl, apps, add] => { k.root_level = level_of(lvl); k.root_apps = app_idx(&k.apps, apps)?; k.root_nonadditive = *add == "nonadd"; }
      ["logger", n, lvl, add, apps] => {
        let apps = app_idx(&k.apps, apps)?;
        k.loggers.push(Lg { name: untok(n), level: level_of(lvl), additive: *add == "add", apps });
      }
      ["emit", th, seq, api, target, lvl] => {
        let e = Emit { thread: th.parse().map_err(|_| "thread")?, seq: seq.parse().map_err(|_| "seq")?, api: api.to_string(),
          target: untok(target), level: level_of(lvl), after_shutdown: k.shutdown_kind.is_some(), line: op.clone() };
        if e.level == 0 || e.thread >= k.threads { return Err(format!("bad emit {op}")); }
        if !TARGETS.contains(&e.target.as_str()) { return Err(format!("target {:?} has no static callsite", e.target)); }
        k.emits.push(e);
      }
      ["shutdown", kind] => { if !GUARD_ENDS.contains(kind) { return Err(format!("unknown shutdown kind {kind}")); } if k.shutdown_kind.is_none() { k.shutdown_kind = Some(kind.to_string()); } else { continue; } }
      ["stream", ..] => continue,
      _ => return Err(format!("bad line {op}")),
    }
    k.lines.push(op.clone());
  }
  if k.shutdown_kind.is_none() { k.shutdown_kind = Some("shutdown".into()); k.lines.push("shutdown shutdown".into()); }
  Ok(k)
}

fn yaml_of(k: &Case) -> String {
  let mut y = String::from("version: 1\n");
  if k.apps.is_empty() { y.push_str("appenders: {}\n"); } else { y.push_str("appenders:\n"); }
  for a in &k.apps {
    y.push_str(&format!("  {}:\n    kind: custom\n    buffer_size: {}\n    overflow: {}\n", a.name, a.cap, if a.block { "block" } else { "drop" }));
  }
  let names = |v: &Vec<usize>| v.iter().map(|i| k.apps[*i].name.clone()).collect::<Vec<_>>().join(", ");
  let mut body = String::new();
  if !k.root_implicit {
    body.push_str(&format!("  root:\n    level: {}\n    appenders: [{}]\n{}", LEVELS[k.root_level as usize], names(&k.root_apps), if k.root_nonadditive { "    additive: false\n" } else { "" }));
  }
  for l in &k.loggers {
    body.push_str(&format!("  \"{}\":\n    level: {}\n    appenders: [{}]\n    additive: {}\n", l.name, LEVELS[l.level as usize], names(&l.apps), l.additive));
  }
  if body.is_empty() { y.push_str("loggers: {}\n"); } else { y.push_str("loggers:\n"); y.push_str(&body); }
  y
}

// ------------------------------------------------------------------ child
#[derive(Clone, Debug, PartialEq)]
struct Got { thread: usize, seq: usize, target: String, level: u8 }

fn level_num(l: &tracing::Level) -> u8 {
  if *l == tracing::Level::ERROR { 1 } else if *l == tracing::Level::WARN { 2 } else if *l == tracing::Level::INFO { 3 }
  else if *l == tracing::Level::DEBUG { 4 } else { 5 }
}

fn got_of(ev: &fibre_logging::LogEvent) -> Got {
  let m = ev.message.clone().unwrap_or_default();
  // message is "t<thread>s<seq>"
  let (t, s) = m.strip_prefix('t').and_then(|r| r.split_once('s')).unwrap_or(("999999", "999999"));
  Got { thread: t.parse().unwrap_or(999999), seq: s.parse().unwrap_or(999999), target: ev.target.clone(), level: level_num(&ev.level) }
}

fn emit_one(e: &Emit) {
  let id = format!("t{}s{}", e.thread, e.seq);
  if e.api == "log" {
    let lvl = match e.level { 1 => log::Level::Error, 2 => log::Level::Warn, 3 => log::Level::Info, 4 => log::Level::Debug, _ => log::Level::Trace };
    log::log!(target: e.target.as_str(), lvl, "{}", id);
  } else {
    emit_tracing(&e.target, e.level, &id);
  }
}


/// The ways an application ends the life of the guard (`InitResult`). Every one of them must set
/// the shutdown flag, close the appender channels and join/flush the writers.
///   shutdown        explicit `shutdown(timeout)` on the thread that called `init_from_file`
///   drop            guard dropped normally on the init thread
///   scope           guard goes out of scope at the end of a block (stored in an `Option` inside a struct)
///   shutdownthread  guard moved to another thread which calls `shutdown`
///   dropthread      guard moved to another thread which drops it
///   panicdrop       a worker thread owns the guard and panics: the guard is dropped during unwinding
///   paniccatch      the init thread panics inside `catch_unwind` while owning the guard
const GUARD_ENDS: [&str; 7] = ["shutdown", "drop", "scope", "shutdownthread", "dropthread", "panicdrop", "paniccatch"];
const PANIC_MARK: &str = "c19-expected-panic";

fn quiet_expected_panics() {
  let default_hook = std::panic::take_hook();
  std::panic::set_hook(Box::new(move |info| {
    let expected = info.payload().downcast_ref::<&str>().map_or(false, |m| *m == PANIC_MARK);
    if !expected { default_hook(info); }
  }));
}

fn end_guard(init: fibre_logging::InitResult, kind: &str) {
  struct App { guard: Option<fibre_logging::InitResult> }
  match kind {
    "drop" => drop(init),
    "scope" => { let app = App { guard: Some(init) }; let _keep = &app.guard; }
    "shutdownthread" => { let _ = std::thread::spawn(move || init.shutdown(Duration::from_secs(5))).join(); }
    "dropthread" => { let _ = std::thread::spawn(move || drop(init)).join(); }
    "panicdrop" => {
      let r = std::thread::Builder::new().name("c19-worker".into()).spawn(move || {
        let _guard = init;
        std::panic::panic_any(PANIC_MARK);
      }).expect("spawn worker").join();
      assert!(r.is_err(), "worker must have panicked");
    }
    "paniccatch" => {
      let r = std::panic::catch_unwind(std::panic::AssertUnwindSafe(move || {
        let _guard = init;
        std::panic::panic_any(PANIC_MARK);
      }));
      assert!(r.is_err());
    }
    _ => init.shutdown(Duration::from_secs(5)),
  }
}

fn child(file: &str) -> i32 {
  quiet_expected_panics();
  let cases = read_cases(file);
  let Some(c) = cases.first() else { eprintln!("no case in {file}"); return 2 };
  if kv(&c.header, "kind") == Some("race") { return child_race(c, file); }
  let k = match parse_case(c) { Ok(k) => k, Err(e) => { eprintln!("bad case: {e}"); return 2 } };
  let ypath = format!("{}.yaml", file.trim_end_matches(".case"));
  std::fs::write(&ypath, yaml_of(&k)).expect("write yaml");
  let mut init = match fibre_logging::init_from_file(std::path::Path::new(&ypath)) {
    Ok(i) => i,
    Err(e) => { println!("initerror {}", format!("{e}").replace(char::is_whitespace, "_")); return 0 }
  };
  let deadline = Instant::now() + Duration::from_secs(20);
  let give_up = Arc::new(AtomicBool::new(false));
  let results: Arc<Mutex<BTreeMap<usize, (Vec<Got>, &'static str)>>> = Arc::new(Mutex::new(BTreeMap::new()));

  // Block appenders: drained concurrently (emitters would otherwise wait for room forever).
  let mut drainers = vec![];
  let mut late = vec![];
  for (i, a) in k.apps.iter().enumerate() {
    let rx = init.custom_streams.remove(&a.name).expect("custom stream present");
    if a.block {
      let (res, give_up) = (results.clone(), give_up.clone());
      drainers.push(std::thread::spawn(move || {
        let mut v = vec![];
        let status = loop {
          match rx.recv_timeout(Duration::from_millis(50)) {
            Ok(ev) => v.push(got_of(&ev)),
            Err(fibre::error::RecvErrorTimeout::Disconnected) => break "disconnected",
            Err(fibre::error::RecvErrorTimeout::Timeout) => { if give_up.load(Ordering::SeqCst) || Instant::now() > deadline { break "timeout" } }
          }
        };
        res.lock().unwrap().insert(i, (v, status));
      }));
    } else {
      late.push((i, rx));
    }
  }

  // emitters: pre-shutdown events, rendezvous, post-shutdown events
  let pre_done = Arc::new(Barrier::new(k.threads + 1));
  let go_post = Arc::new(Barrier::new(k.threads + 1));
  let finished = Arc::new(AtomicUsize::new(0));
  let mut emitters = vec![];
  for t in 0..k.threads {
    let mine: Vec<Emit> = k.emits.iter().filter(|e| e.thread == t).cloned().collect();
    let (pre_done, go_post, finished) = (pre_done.clone(), go_post.clone(), finished.clone());
    emitters.push(std::thread::spawn(move || {
      for e in mine.iter().filter(|e| !e.after_shutdown) { emit_one(e); }
      pre_done.wait();
      go_post.wait();
      for e in mine.iter().filter(|e| e.after_shutdown) { emit_one(e); }
      finished.fetch_add(1, Ordering::SeqCst);
    }));
  }
  // watchdog: a hung emitter (blocked send that never completes) must not hang the check
  {
    let give_up = give_up.clone();
    std::thread::spawn(move || {
      while Instant::now() < deadline { std::thread::sleep(Duration::from_millis(100)); }
      give_up.store(true, Ordering::SeqCst);
      std::thread::sleep(Duration::from_secs(2));
      println!("hung emitters-or-drainers-did-not-finish");
      let _ = std::io::stdout().flush();
      std::process::exit(3);
    });
  }
  pre_done.wait();
  end_guard(init, k.shutdown_kind.as_deref().unwrap_or("shutdown"));
  go_post.wait();
  for h in emitters { let _ = h.join(); }
  // the guard is gone: every stream must disconnect once drained; give the drainers 3 s, not 20
  {
    let t0 = Instant::now();
    while drainers.iter().any(|d| !d.is_finished()) && t0.elapsed() < Duration::from_secs(3) { std::thread::sleep(Duration::from_millis(2)); }
    give_up.store(true, Ordering::SeqCst);
  }

  // Drop appenders: drained only now, so what they kept is min(capacity, routed)
  for (i, rx) in late {
    let mut v = vec![];
    let mut empties = 0;
    let status = loop {
      match rx.try_recv() {
        Ok(ev) => v.push(got_of(&ev)),
        Err(fibre::error::TryRecvError::Disconnected) => break "disconnected",
        Err(fibre::error::TryRecvError::Empty) => {
          empties += 1;
          if empties > 200 { break "timeout" }
          std::thread::sleep(Duration::from_millis(1));
        }
      }
    };
    results.lock().unwrap().insert(i, (v, status));
  }
  for d in drainers { let _ = d.join(); }
  let res = results.lock().unwrap();
  let mut out = String::new();
  for (i, a) in k.apps.iter().enumerate() {
    let (v, status) = res.get(&i).cloned().unwrap_or((vec![], "timeout"));
    let items: Vec<String> = v.iter().map(|g| format!("{}/{}/{}/{}", g.thread, g.seq, tok(&g.target), g.level)).collect();
    out.push_str(&format!("stream {} {} {}\n", a.name, if items.is_empty() { "-".to_string() } else { items.join(",") }, status));
  }
  print!("{out}");
  let _ = std::io::stdout().flush();
  let _ = std::fs::remove_file(&ypath);
  std::process::exit(0);
}


// ------------------------------------------------------------------ shutdown race (writer thread + stream)
/// `#case <id> kind=race threads=<k> n=<per thread> after=<total completed emits before shutdown> cap=<c> sd=<guard end, see GUARD_ENDS>`
/// Fixed configuration: custom stream `S` and file appender `F`, both Block with capacity `cap`,
/// root trace -> [S, F]. k threads emit n events each without pause; once `after` emits have
/// RETURNED the main thread records per thread how many had returned (`snap`), then shuts down
/// while the threads keep emitting. Everything below `snap` was accepted before shutdown began.
struct RaceCfg { threads: usize, n: usize, after: usize, cap: usize, sd: String }
fn race_cfg(c: &CaseIn) -> RaceCfg {
  let g = |k: &str, d: usize| kv(&c.header, k).and_then(|s| s.parse().ok()).unwrap_or(d);
  RaceCfg { threads: g("threads", 2).clamp(1, 8), n: g("n", 100).clamp(1, 5000), after: g("after", 50), cap: g("cap", 4).max(1), sd: kv(&c.header, "sd").unwrap_or("shutdown").to_string() }
}

fn ranges(v: &[usize]) -> String {
  if v.is_empty() { return "-".into(); }
  let mut out = vec![];
  let (mut a, mut b) = (v[0], v[0]);
  for &x in &v[1..] {
    if x == b + 1 { b = x; } else { out.push(if a == b { format!("{a}") } else { format!("{a}-{b}") }); a = x; b = x; }
  }
  out.push(if a == b { format!("{a}") } else { format!("{a}-{b}") });
  out.join(",")
}

fn child_race(c: &CaseIn, file: &str) -> i32 {
  let rc = race_cfg(c);
  if !GUARD_ENDS.contains(&rc.sd.as_str()) { eprintln!("unknown sd={}", rc.sd); return 2; }
  let base = file.trim_end_matches(".case").to_string();
  let (ypath, lpath) = (format!("{base}.yaml"), format!("{base}.log"));
  let _ = std::fs::remove_file(&lpath);
  let yaml = format!("version: 1\nappenders:\n  S:\n    kind: custom\n    buffer_size: {cap}\n    overflow: block\n  F:\n    kind: file\n    path: \"{lpath}\"\n    channel_capacity: {cap}\n    overflow: block\n    encoder:\n      kind: pattern\n      pattern: \"%m%n\"\nloggers:\n  root:\n    level: trace\n    appenders: [S, F]\n", cap = rc.cap);
  std::fs::write(&ypath, yaml).expect("write yaml");
  let mut init = match fibre_logging::init_from_file(std::path::Path::new(&ypath)) {
    Ok(i) => i,
    Err(e) => { println!("initerror {}", format!("{e}").replace(char::is_whitespace, "_")); return 0 }
  };
  let deadline = Instant::now() + Duration::from_secs(20);
  std::thread::spawn(move || {
    while Instant::now() < deadline { std::thread::sleep(Duration::from_millis(100)); }
    println!("hung race-emitters-or-drainer-did-not-finish");
    let _ = std::io::stdout().flush();
    std::process::exit(3);
  });
  let rx = init.custom_streams.remove("S").expect("stream S");
  let give_up = Arc::new(AtomicBool::new(false));
  let give_up2 = give_up.clone();
  let drainer = std::thread::spawn(move || {
    let mut v = vec![];
    let status = loop {
      match rx.recv_timeout(Duration::from_millis(50)) {
        Ok(ev) => v.push(got_of(&ev)),
        Err(fibre::error::RecvErrorTimeout::Disconnected) => break "disconnected",
        Err(fibre::error::RecvErrorTimeout::Timeout) => { if give_up2.load(Ordering::SeqCst) || Instant::now() > deadline { break "timeout" } }
      }
    };
    (v, status)
  });
  let done: Arc<Vec<AtomicUsize>> = Arc::new((0..rc.threads).map(|_| AtomicUsize::new(0)).collect());
  let mut emitters = vec![];
  for t in 0..rc.threads {
    let (done, n) = (done.clone(), rc.n);
    emitters.push(std::thread::spawn(move || {
      for seq in 0..n {
        let e = Emit { thread: t, seq, api: if (seq + t) % 2 == 0 { "log".into() } else { "tracing".into() }, target: "a".into(), level: 3, after_shutdown: false, line: String::new() };
        emit_one(&e);
        done[t].store(seq + 1, Ordering::SeqCst);
      }
    }));
  }
  let total = rc.threads * rc.n;
  while done.iter().map(|d| d.load(Ordering::SeqCst)).sum::<usize>() < rc.after.min(total) { std::hint::spin_loop(); }
  let snap: Vec<usize> = done.iter().map(|d| d.load(Ordering::SeqCst)).collect();
  end_guard(init, &rc.sd);
  for h in emitters { let _ = h.join(); }
  {
    let t0 = Instant::now();
    while !drainer.is_finished() && t0.elapsed() < Duration::from_secs(3) { std::thread::sleep(Duration::from_millis(2)); }
    give_up.store(true, Ordering::SeqCst);
  }
  let (sv, sstatus) = drainer.join().unwrap_or((vec![], "timeout"));
  // file content, in file order
  let text = std::fs::read_to_string(&lpath).unwrap_or_default();
  let fv: Vec<Got> = text.lines().map(|m| {
    let (t, s) = m.strip_prefix('t').and_then(|r| r.split_once('s')).unwrap_or(("999999", "999999"));
    Got { thread: t.parse().unwrap_or(999999), seq: s.parse().unwrap_or(999999), target: "a".into(), level: 3 }
  }).collect();
  for (name, v, status) in [("S", &sv, sstatus), ("F", &fv, "flushed")] {
    for t in 0..rc.threads {
      let seqs: Vec<usize> = v.iter().filter(|g| g.thread == t).map(|g| g.seq).collect();
      let ordered = seqs.windows(2).all(|w| w[0] < w[1]);
      let mut sorted = seqs.clone(); sorted.sort(); sorted.dedup();
      println!("race {name} {t} snap={} got={} ordered={} dups={} {status}", snap[t], ranges(&sorted), ordered as u8, seqs.len() - sorted.len());
    }
    let foreign = v.iter().filter(|g| g.thread >= rc.threads).count();
    if foreign > 0 { println!("raceforeign {name} {foreign}"); }
  }
  let _ = std::io::stdout().flush();
  let _ = std::fs::remove_file(&ypath);
  let _ = std::fs::remove_file(&lpath);
  std::process::exit(0);
}

fn parse_ranges(s: &str) -> Vec<usize> {
  let mut v = vec![];
  if s == "-" { return v; }
  for part in s.split(',') {
    match part.split_once('-') {
      Some((a, b)) => { let (a, b): (usize, usize) = (a.parse().unwrap_or(0), b.parse().unwrap_or(0)); v.extend(a..=b); }
      None => v.push(part.parse().unwrap_or(usize::MAX)),
    }
  }
  v
}

fn run_race(cin: &CaseIn, dir: &str) -> String {
  let rc = race_cfg(cin);
  let header = format!("kind=race threads={} n={} after={} cap={} sd={}", rc.threads, rc.n, rc.after, rc.cap, rc.sd);
  let mut tr = Tr::new(&cin.id, &header);
  let path = format!("{dir}/{}.case", cin.id.replace(|c: char| !c.is_ascii_alphanumeric() && c != '-' && c != '_', "_"));
  std::fs::write(&path, format!("#case {} {}\n#end\n", cin.id, header)).expect("write case file");
  let exe = std::env::current_exe().expect("current_exe");
  let out = std::process::Command::new(exe).arg("child").arg(&path).output();
  let _ = std::fs::remove_file(&path);
  let (stdout, ok) = match out { Ok(o) => (String::from_utf8_lossy(&o.stdout).to_string(), o.status.success()), Err(_) => (String::new(), false) };
  let mut fails: Vec<(String, String)> = vec![];
  let mut seen = 0;
  for l in stdout.lines() {
    let t: Vec<&str> = l.split_whitespace().collect();
    match t.as_slice() {
      ["race", name, th, snap, got, ordered, dups, status] => {
        seen += 1;
        tr.line(&format!("race {name} {th}"), &format!("{snap} {got} {ordered} {dups} {status}"));
        let snap: usize = snap.trim_start_matches("snap=").parse().unwrap_or(0);
        let got = parse_ranges(got.trim_start_matches("got="));
        let kind = if *name == "F" { "writer" } else { "stream" };
        if let Some(miss) = (0..snap).find(|q| !got.contains(q)) {
          fails.push((format!("pipeline:{kind}-lost-event-accepted-before-shutdown"), format!("appender {name}: emit t{th}s{miss} had returned before shutdown began ({snap} returned) but was never delivered")));
        }
        // a Block appender that delivered a later event of this thread had an open channel and a live
        // consumer when the earlier one was sent, so the earlier one was accepted: gaps are losses
        if let Some(miss) = (0..got.len()).find(|q| !got.contains(q)) {
          if miss >= snap { fails.push((format!("pipeline:{kind}-gap-in-block-appender-sequence"), format!("appender {name}: t{th}s{miss} missing although later events of the same thread were delivered"))); }
        }
        if *ordered != "ordered=1" { fails.push((format!("deliver:{kind}-per-thread-order"), format!("appender {name} thread {th} out of emission order"))); }
        if *dups != "dups=0" { fails.push((format!("deliver:{kind}-duplicate"), format!("appender {name} thread {th}: {dups}"))); }
        if got.iter().any(|q| *q >= rc.n) { fails.push((format!("deliver:{kind}-unknown-event"), format!("appender {name} thread {th} delivered a sequence number that was never emitted"))); }
        if *name == "S" && *status != "disconnected" { fails.push(("pipeline:stream-not-disconnected-after-shutdown".into(), format!("stream S ended with {status}"))); }
      }
      ["raceforeign", name, n] => fails.push(("deliver:unknown-event".into(), format!("appender {name} delivered {n} events of unknown threads"))),
      ["initerror", what] => fails.push(("init:valid-config-rejected".into(), format!("init_from_file failed: {what}"))),
      ["hung", ..] => fails.push(("pipeline:child-hung".into(), "race emitters or drainer did not finish within 20 s (a blocked send was not released by shutdown?)".into())),
      _ => {}
    }
  }
  if (!ok || seen != 2 * rc.threads) && fails.is_empty() { fails.push(("pipeline:child-crashed".into(), format!("race child failed (ok={ok}, {seen} result lines)"))); }
  fails.dedup_by(|a, b| a.0 == b.0);
  for (s, m) in &fails { tr.monitor(s, m); }
  tr.finish()
}

// ------------------------------------------------------------------ the property, from its text
fn name_matches(name: &str, target: &str) -> bool {
  target == name || target.strip_prefix(name).map_or(false, |r| r.starts_with("::"))
}

/// "delivered to an appender exactly when the most specific logger that names that appender and
/// whose name is a module-path prefix of the event target (the root logger as fallback) admits the
/// event's level, except that when the most specific matching logger overall is non-additive only
/// that logger's own appenders can receive it"
fn spec_delivers(k: &Case, target: &str, level: u8, a: usize) -> bool {
  let matching: Vec<&Lg> = k.loggers.iter().filter(|l| name_matches(&l.name, target)).collect();
  let admits = match matching.iter().filter(|l| l.apps.contains(&a)).max_by_key(|l| l.name.len()) {
    Some(l) => level <= l.level,
    None => k.root_apps.contains(&a) && level <= k.root_level,
  };
  let overall = matching.iter().max_by_key(|l| l.name.len());
  let gate_ok = match overall { Some(w) if !w.additive => w.apps.contains(&a), _ => true };
  admits && gate_ok
}

fn run_case(cin: &CaseIn, dir: &str) -> String {
  if kv(&cin.header, "kind") == Some("race") { return run_race(cin, dir); }
  let k = match parse_case(cin) {
    Ok(k) => k,
    Err(e) => {
      eprintln!("case {}: {e}", cin.id);
      let mut tr = Tr::new(&cin.id, &cin.header.join(" "));
      tr.raw(&format!("# unparsable case: {e}"));
      tr.monitor("harness:unparsable-case", &e);
      return tr.finish();
    }
  };
  let header = format!("threads={}{}", k.threads, if k.root_implicit { " rootimplicit=1" } else { "" });
  let mut tr = Tr::new(&k.id, &header);
  // hand the case to a child
  let path = format!("{dir}/{}.case", k.id.replace(|c: char| !c.is_ascii_alphanumeric() && c != '-' && c != '_', "_"));
  let mut text = format!("#case {} {}\n", k.id, header);
  for l in &k.lines { text.push_str(l); text.push('\n'); }
  text.push_str("#end\n");
  std::fs::write(&path, text).expect("write case file");
  let exe = std::env::current_exe().expect("current_exe");
  let mut ch = std::process::Command::new(exe).arg("child").arg(&path)
    .stdout(std::process::Stdio::piped()).stderr(std::process::Stdio::piped()).spawn().expect("spawn child");
  let start = Instant::now();
  let status = loop {
    match ch.try_wait() {
      Ok(Some(s)) => break Some(s),
      Ok(None) => { if start.elapsed() > Duration::from_secs(40) { let _ = ch.kill(); break None; } std::thread::sleep(Duration::from_millis(2)); }
      Err(_) => break None,
    }
  };
  let outp = ch.wait_with_output().ok();
  let stdout = outp.as_ref().map(|o| String::from_utf8_lossy(&o.stdout).to_string()).unwrap_or_default();
  let stderr = outp.as_ref().map(|o| String::from_utf8_lossy(&o.stderr).to_string()).unwrap_or_default();
  let _ = std::fs::remove_file(&path);

  let mut streams: BTreeMap<usize, (Vec<Got>, String)> = BTreeMap::new();
  let mut fails: Vec<(String, String)> = vec![];
  let fail = |fails: &mut Vec<(String, String)>, sig: &str, msg: String| { if !fails.iter().any(|f| f.0 == sig) { fails.push((sig.to_string(), msg)); } };
  let mut child_ok = status.map_or(false, |s| s.success());
  for l in stdout.lines() {
    let t: Vec<&str> = l.split_whitespace().collect();
    match t.as_slice() {
      ["stream", name, items, st] => {
        let Some(i) = k.apps.iter().position(|a| a.name == *name) else { continue };
        let mut v = vec![];
        if *items != "-" {
          for it in items.split(',') {
            let f: Vec<&str> = it.split('/').collect();
            if f.len() == 4 { v.push(Got { thread: f[0].parse().unwrap_or(999999), seq: f[1].parse().unwrap_or(999999), target: untok(f[2]), level: f[3].parse().unwrap_or(0) }); }
          }
        }
        streams.insert(i, (v, st.to_string()));
      }
      ["initerror", what] => { child_ok = false; fail(&mut fails, "init:valid-config-rejected", format!("init_from_file failed: {what}")); }
      ["hung", ..] => { child_ok = false; fail(&mut fails, "pipeline:child-hung", "emitters or stream drainers did not finish within 20 s".into()); }
      _ => {}
    }
  }
  if !child_ok && fails.is_empty() {
    fail(&mut fails, "pipeline:child-crashed", format!("child exit {:?}; stderr: {}", status, stderr.lines().last().unwrap_or("")));
  }

  // ---- transcript
  for l in &k.lines {
    let t: Vec<&str> = l.split_whitespace().collect();
    match t[0] {
      "emit" => {
        let (th, seq): (usize, usize) = (t[1].parse().unwrap(), t[2].parse().unwrap());
        let mut got: Vec<&str> = vec![];
        for (i, a) in k.apps.iter().enumerate() {
          if streams.get(&i).map_or(false, |s| s.0.iter().any(|g| g.thread == th && g.seq == seq)) { got.push(&a.name); }
        }
        got.sort();
        tr.line(l, &if got.is_empty() { "-".to_string() } else { got.join(",") });
      }
      "shutdown" => tr.line(l, if child_ok { "ok" } else { "failed" }),
      _ => tr.raw(l),
    }
  }
  for (i, a) in k.apps.iter().enumerate() {
    let (v, st) = streams.get(&i).cloned().unwrap_or((vec![], "missing".into()));
    let items: Vec<String> = v.iter().map(|g| format!("{}.{}", g.thread, g.seq)).collect();
    tr.line(&format!("stream {}", a.name), &format!("{} {}", if items.is_empty() { "-".to_string() } else { items.join(",") }, st));
  }

  // ---- monitors: the property evaluated on the observed deliveries
  if child_ok {
    for (i, a) in k.apps.iter().enumerate() {
      let (v, st) = streams.get(&i).cloned().unwrap_or((vec![], "missing".into()));
      if st != "disconnected" {
        fail(&mut fails, "pipeline:stream-not-disconnected-after-shutdown", format!("stream {} ended with {st} instead of Disconnected after {}", a.name, k.shutdown_kind.as_deref().unwrap_or("?")));
      }
      // exactly once
      let mut seen = BTreeSet::new();
      for g in &v {
        if !seen.insert((g.thread, g.seq)) { fail(&mut fails, "deliver:duplicate", format!("appender {} received event t{}s{} more than once", a.name, g.thread, g.seq)); }
      }
      // identical (target, level) whichever API; emission order per thread
      let mut last: BTreeMap<usize, usize> = BTreeMap::new();
      for g in &v {
        match k.emits.iter().find(|e| e.thread == g.thread && e.seq == g.seq) {
          None => fail(&mut fails, "deliver:unknown-event", format!("appender {} received t{}s{} which was never emitted", a.name, g.thread, g.seq)),
          Some(e) => {
            if e.target != g.target || e.level != g.level {
              fail(&mut fails, &format!("deliver:{}-target-or-level-differs", e.api), format!("emitted ({:?},{}) via {} but {} received ({:?},{})", e.target, e.level, e.api, a.name, g.target, g.level));
            }
            if e.after_shutdown { fail(&mut fails, "pipeline:delivered-after-shutdown", format!("t{}s{} was emitted after shutdown returned but reached {}", g.thread, g.seq, a.name)); }
          }
        }
        if let Some(p) = last.get(&g.thread) { if *p >= g.seq { fail(&mut fails, "deliver:per-thread-order", format!("appender {} received t{}s{} after t{}s{}", a.name, g.thread, g.seq, g.thread, p)); } }
        last.insert(g.thread, g.seq);
      }
      // routing
      let want: Vec<&Emit> = k.emits.iter().filter(|e| !e.after_shutdown && spec_delivers(&k, &e.target, e.level, i)).collect();
      for e in k.emits.iter().filter(|e| !e.after_shutdown) {
        let has = v.iter().any(|g| g.thread == e.thread && g.seq == e.seq);
        let should = spec_delivers(&k, &e.target, e.level, i);
        let overall = k.loggers.iter().filter(|l| name_matches(&l.name, &e.target)).max_by_key(|l| l.name.len());
        if has && !should {
          match overall {
            Some(w) if !w.additive && w.apps.is_empty() =>
              fail(&mut fails, "route:nonadditive-empty-logger-does-not-gate", format!("target {:?} level {}: most specific logger {:?} is non-additive and names no appender, yet {} received the event", e.target, e.level, w.name, a.name)),
            _ => fail(&mut fails, "route:delivered-to-unselected-appender", format!("target {:?} level {} reached {} (line: {})", e.target, e.level, a.name, e.line)),
          }
        }
        if !has && should {
          let same_key_delivered = v.iter().any(|g| g.target == e.target && g.level == e.level);
          let shadowed = k.loggers.iter().any(|l| name_matches(&l.name, &e.target) && !l.additive && !l.apps.is_empty() && !l.apps.contains(&i));
          match overall {
            Some(w) if w.additive && w.apps.is_empty() && shadowed =>
              fail(&mut fails, "route:additive-empty-logger-does-not-lift-ancestor-gate", format!("target {:?} level {}: most specific logger {:?} is additive (names no appender), so nothing gates, yet {} did not receive the event because a less specific non-additive logger gated it", e.target, e.level, w.name, a.name)),
            _ if !a.block => {} // overflow accounting below
            _ if same_key_delivered =>
              fail(&mut fails, "pipeline:block-accepted-event-lost", format!("appender {} (block) selected for t{}s{} ({:?},{}) and delivered other events with the same target/level, but this one is missing", a.name, e.thread, e.seq, e.target, e.level)),
            _ => fail(&mut fails, "route:selected-appender-did-not-receive", format!("target {:?} level {} should reach {} (line: {})", e.target, e.level, a.name, e.line)),
          }
        }
      }
      if !a.block {
        // not drained before shutdown: keeps exactly the first min(cap, routed) accepted
        if v.len() > a.cap { fail(&mut fails, "pipeline:capacity-exceeded", format!("drop appender {} cap {} delivered {}", a.name, a.cap, v.len())); }
        let spec_extra_free = v.iter().all(|g| want.iter().any(|e| e.thread == g.thread && e.seq == g.seq));
        if spec_extra_free && v.len() < a.cap.min(want.len()) && fails.iter().all(|f| !f.0.starts_with("route:")) {
          fail(&mut fails, "pipeline:drop-policy-lost-event-while-not-full", format!("drop appender {} cap {}: {} events selected, {} delivered", a.name, a.cap, want.len(), v.len()));
        }
      }
    }
  }
  for (s, m) in &fails { tr.monitor(s, m); }
  tr.finish()
}

// ------------------------------------------------------------------ generator
fn gen_case(rng: &mut Rng, id: String, tier: &str) -> CaseIn {
  let napps = *rng.weighted(&[(1, 0usize), (6, 1), (12, 2), (12, 3), (6, 4)]);
  let mut ops = vec![];
  let mut apps = vec![];
  for i in 0..napps {
    let block = rng.chance(3, 4);
    let cap = if block { *rng.pick(&[1usize, 1, 2, 4, 64]) } else { *rng.pick(&[1usize, 2, 3, 256, 256]) };
    apps.push(format!("A{i}"));
    ops.push(format!("appender A{i} {cap} {}", if block { "block" } else { "drop" }));
  }
  let subset = |rng: &mut Rng, p_empty: u64| -> String {
    if apps.is_empty() || rng.chance(p_empty, 100) { return "-".into(); }
    let mut v: Vec<String> = apps.iter().filter(|_| rng.chance(1, 2)).cloned().collect();
    if v.is_empty() { v.push(rng.pick(&apps).clone()); }
    if rng.chance(1, 12) { let d = v[0].clone(); v.push(d); } // a logger may name an appender twice
    v.join(",")
  };
  let root_implicit = rng.chance(1, 10);
  if root_implicit { ops.push("root info -".into()); }
  else { ops.push(format!("root {} {}{}", LEVELS[rng.below(6) as usize], subset(rng, 20), if rng.chance(1, 4) { " nonadd" } else { "" })); }
  // logger tree: a family of names that are prefixes of each other with and without `::`
  let nlog = *rng.weighted(&[(1, 0usize), (2, 1), (3, 2), (4, 3), (4, 4), (3, 5), (2, 7)]);
  let mut names: Vec<&str> = vec![];
  while names.len() < nlog {
    let n = if rng.chance(3, 4) { LOGGER_NAMES[rng.below(12) as usize] } else { *rng.pick(LOGGER_NAMES) };
    if !names.contains(&n) { names.push(n); }
  }
  for n in &names {
    let lvl = LEVELS[*rng.weighted(&[(1, 0usize), (2, 1), (3, 2), (4, 3), (3, 4), (3, 5)])];
    let add = if rng.chance(3, 5) { "add" } else { "nonadd" };
    ops.push(format!("logger {} {} {} {}", tok(n), lvl, add, subset(rng, 22)));
  }
  let threads = *rng.weighted(&[(3, 1usize), (3, 2), (2, 3), (1, 4)]);
  let nev = if tier == "thorough" { rng.range(8, 40) } else { rng.range(6, 20) } as usize;
  let cut = if rng.chance(3, 5) { nev } else { rng.below(nev as u64 + 1) as usize };
  let mut seqs = vec![0usize; threads];
  // targets related to the configured names are likelier
  let mut related: Vec<&str> = TARGETS.iter().copied().filter(|t| names.iter().any(|n| t.starts_with(n) || n.starts_with(t))).collect();
  if related.is_empty() { related = TARGETS.to_vec(); }
  let mut hits: Vec<&str> = TARGETS.iter().copied().filter(|t| names.iter().any(|n| name_matches(n, t))).collect();
  if hits.is_empty() { hits = related.clone(); }
  for i in 0..nev {
    if i == cut { ops.push(format!("shutdown {}", rng.pick(&GUARD_ENDS))); }
    let th = rng.below(threads as u64) as usize;
    let target = match rng.below(20) { 0..=10 => *rng.pick(&hits), 11..=15 => *rng.pick(&related), _ => *rng.pick(TARGETS) };
    let lvl = LEVELS[rng.range(1, 5) as usize];
    let api = if rng.chance(1, 2) { "log" } else { "tracing" };
    ops.push(format!("emit {th} {} {api} {} {lvl}", seqs[th], tok(target)));
    seqs[th] += 1;
  }
  if cut == nev { ops.push(format!("shutdown {}", rng.pick(&GUARD_ENDS))); }
  let mut header = vec![format!("threads={threads}")];
  if root_implicit { header.push("rootimplicit=1".into()); }
  CaseIn { id, header, ops }
}

fn gen_race(rng: &mut Rng, id: String) -> CaseIn {
  let threads = rng.range(1, 4) as usize;
  let n = *rng.pick(&[50usize, 200, 400]);
  let after = rng.below((threads * n) as u64 + 1) as usize;
  let cap = *rng.pick(&[1usize, 2, 4, 16, 64, 1024, 1024]);
  let sd = *rng.pick(&GUARD_ENDS);
  CaseIn { id, header: vec!["kind=race".into(), format!("threads={threads}"), format!("n={n}"), format!("after={after}"), format!("cap={cap}"), format!("sd={sd}")], ops: vec![] }
}

fn run_all(cases: Vec<CaseIn>) {
  let dir = format!("{TMP}/{}", std::process::id());
  std::fs::create_dir_all(&dir).expect("create tmp dir under /verif/.build");
  let workers = std::thread::available_parallelism().map(|n| n.get()).unwrap_or(4).min(16);
  let outs = par_map(cases.len(), workers, |i| run_case(&cases[i], &dir));
  let mut so = std::io::stdout().lock();
  for o in outs { let _ = so.write_all(o.as_bytes()); }
  let _ = std::fs::remove_dir_all(&dir);
}

fn main() {
  let a: Vec<String> = std::env::args().collect();
  if a.get(1).map(|s| s.as_str()) == Some("child") {
    let code = child(a.get(2).map(|s| s.as_str()).unwrap_or(""));
    std::process::exit(code);
  }
  match parse_args() {
    Mode::Run { file } => run_all(read_cases(&file)),
    Mode::Gen { seed, cases, tier, extra } => {
      let mut rng = Rng::new(seed ^ 0xC19);
      let race = extra.iter().any(|(k, v)| k == "kind" && v == "race");
      let v: Vec<CaseIn> = (0..cases).map(|i| {
        let mut r = rng.fork();
        if race { gen_race(&mut r, format!("r{seed}-{i}")) } else { gen_case(&mut r, format!("g{seed}-{i}"), &tier) }
      }).collect();
      run_all(v);
    }
  }
}
