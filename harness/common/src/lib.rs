//! Shared helpers for the /verif harness binaries: seeded PRNG, CLI parsing,
//! transcript writer / case-file reader (protocol in /verif/docs/CONVENTIONS.md).
use std::fmt::Write as _;

/// SplitMix64 — every random choice of a harness derives from one of these.
#[derive(Clone)]
pub struct Rng(pub u64);
impl Rng {
  pub fn new(seed: u64) -> Self { Rng(seed.wrapping_mul(0x9E3779B97F4A7C15) ^ 0xD1B54A32D192ED03) }
  pub fn next(&mut self) -> u64 {
    self.0 = self.0.wrapping_add(0x9E3779B97F4A7C15);
    let mut z = self.0;
    z = (z ^ (z >> 30)).wrapping_mul(0xBF58476D1CE4E5B9);
    z = (z ^ (z >> 27)).wrapping_mul(0x94D049BB133111EB);
    z ^ (z >> 31)
  }
  pub fn below(&mut self, n: u64) -> u64 { if n == 0 { 0 } else { self.next() % n } }
  pub fn range(&mut self, lo: u64, hi: u64) -> u64 { lo + self.below(hi - lo + 1) }
  pub fn chance(&mut self, num: u64, den: u64) -> bool { self.below(den) < num }
  pub fn pick<'a, T>(&mut self, xs: &'a [T]) -> &'a T { &xs[self.below(xs.len() as u64) as usize] }
  /// weighted pick: items (weight, value)
  pub fn weighted<'a, T>(&mut self, xs: &'a [(u32, T)]) -> &'a T {
    let total: u64 = xs.iter().map(|x| x.0 as u64).sum();
    let mut r = self.below(total);
    for (w, v) in xs { if r < *w as u64 { return v; } r -= *w as u64; }
    &xs[xs.len() - 1].1
  }
  pub fn fork(&mut self) -> Rng { Rng::new(self.next()) }
}

pub enum Mode { Gen { seed: u64, cases: usize, tier: String, extra: Vec<(String, String)> }, Run { file: String } }

pub fn parse_args() -> Mode {
  let a: Vec<String> = std::env::args().skip(1).collect();
  if a.is_empty() { eprintln!("usage: gen --seed S --cases N [--tier T] [--k v]... | run <file>"); std::process::exit(2); }
  match a[0].as_str() {
    "run" => Mode::Run { file: a.get(1).cloned().unwrap_or_else(|| { eprintln!("run <file>"); std::process::exit(2) }) },
    "gen" => {
      let (mut seed, mut cases, mut tier, mut extra) = (1u64, 100usize, "quick".to_string(), vec![]);
      let mut i = 1;
      while i + 1 < a.len() {
        match a[i].as_str() {
          "--seed" => seed = a[i + 1].parse().unwrap_or(1),
          "--cases" => cases = a[i + 1].parse().unwrap_or(100),
          "--tier" => tier = a[i + 1].clone(),
          k => extra.push((k.trim_start_matches("--").to_string(), a[i + 1].clone())),
        }
        i += 2;
      }
      Mode::Gen { seed, cases, tier, extra }
    }
    _ => { eprintln!("unknown mode"); std::process::exit(2) }
  }
}

/// One case read back from a transcript / case file: header tokens (after the id) and op lines
/// with any recorded ` => result` stripped.
pub struct CaseIn { pub id: String, pub header: Vec<String>, pub ops: Vec<String> }

pub fn read_cases(path: &str) -> Vec<CaseIn> {
  let text = std::fs::read_to_string(path).unwrap_or_else(|e| { eprintln!("cannot read {path}: {e}"); std::process::exit(2) });
  let mut out = vec![];
  let mut cur: Option<CaseIn> = None;
  for l in text.lines() {
    let l = l.trim();
    if let Some(rest) = l.strip_prefix("#case ") {
      let mut t = rest.split_whitespace().map(|s| s.to_string());
      let id = t.next().unwrap_or_default();
      cur = Some(CaseIn { id, header: t.collect(), ops: vec![] });
    } else if l.starts_with("#end") {
      if let Some(c) = cur.take() { out.push(c); }
    } else if l.is_empty() || l.starts_with('#') || l.starts_with('!') {
    } else if let Some(c) = cur.as_mut() {
      c.ops.push(l.split(" => ").next().unwrap().trim().to_string());
    }
  }
  if let Some(c) = cur.take() { out.push(c); }
  out
}

pub fn kv<'a>(header: &'a [String], key: &str) -> Option<&'a str> {
  header.iter().find_map(|w| w.strip_prefix(key).and_then(|r| r.strip_prefix('=')))
}

/// Transcript writer for one case.
pub struct Tr { pub buf: String }
impl Tr {
  pub fn new(id: &str, header: &str) -> Self { let mut buf = String::new(); let _ = writeln!(buf, "#case {id} {header}"); Tr { buf } }
  pub fn line(&mut self, op: &str, res: &str) { let _ = writeln!(self.buf, "{op} => {res}"); }
  pub fn raw(&mut self, l: &str) { let _ = writeln!(self.buf, "{l}"); }
  pub fn monitor(&mut self, sig: &str, msg: &str) { let _ = writeln!(self.buf, "!monitor {sig} | {msg}"); }
  pub fn finish(mut self) -> String { self.buf.push_str("#end\n"); self.buf }
}

pub fn list(xs: &[u64]) -> String {
  let mut s = String::from("[");
  for (i, x) in xs.iter().enumerate() { if i > 0 { s.push(','); } let _ = write!(s, "{x}"); }
  s.push(']'); s
}

/// Run `f(i)` for i in 0..n on `workers` threads, return outputs in index order.
pub fn par_map<F: Fn(usize) -> String + Sync>(n: usize, workers: usize, f: F) -> Vec<String> {
  use std::sync::atomic::{AtomicUsize, Ordering};
  let next = AtomicUsize::new(0);
  let out: Vec<std::sync::Mutex<String>> = (0..n).map(|_| std::sync::Mutex::new(String::new())).collect();
  std::thread::scope(|s| {
    for _ in 0..workers.max(1) {
      s.spawn(|| loop {
        let i = next.fetch_add(1, Ordering::Relaxed);
        if i >= n { break; }
        let r = f(i);
        *out[i].lock().unwrap() = r;
      });
    }
  });
  out.into_iter().map(|m| m.into_inner().unwrap()).collect()
}
