//! Payload type with per-id creation / drop counters (C09).

use std::sync::atomic::{AtomicU32, Ordering};

pub const MAX_IDS: usize = 4096;

static CREATED: [AtomicU32; MAX_IDS] = [const { AtomicU32::new(0) }; MAX_IDS];
static DROPPED: [AtomicU32; MAX_IDS] = [const { AtomicU32::new(0) }; MAX_IDS];

#[derive(Debug)]
pub struct V {
  pub id: u32,
}

impl V {
  pub fn new(id: u32) -> V {
    CREATED[id as usize % MAX_IDS].fetch_add(1, Ordering::Relaxed);
    V { id }
  }
}

/// Payload clone = the NON-atomic copy-out of a broadcast (spmc) slot. It is a visible action of the
/// scheduler shim: a scheduling point precedes the read of the payload, so another thread (the producer) can
/// run between the consumer's index/sequence loads and the copy, and between two copies of one batch; with
/// `--atomics` it is logged as `A <tid> clone v<id> - - - -` (id = the payload actually read). Only the spmc
/// flavours clone payloads.
impl Clone for V {
  fn clone(&self) -> V {
    loom::rt::sched_point();
    // read AFTER the scheduling point: an overwritten slot shows the overwriting value
    let id = unsafe { std::ptr::read_volatile(&self.id) };
    if loom::rt::tracing() {
      loom::rt::note("clone", &format!("v{}", id));
    }
    V::new(id)
  }
}

impl Drop for V {
  fn drop(&mut self) {
    DROPPED[self.id as usize % MAX_IDS].fetch_add(1, Ordering::Relaxed);
  }
}

pub fn reset() {
  for i in 0..MAX_IDS {
    CREATED[i].store(0, Ordering::Relaxed);
    DROPPED[i].store(0, Ordering::Relaxed);
  }
}

/// (id, created, dropped) for every id created since the last reset, ascending.
pub fn snapshot() -> Vec<(u32, u32, u32)> {
  let mut out = Vec::new();
  for i in 0..MAX_IDS {
    let c = CREATED[i].load(Ordering::Relaxed);
    if c > 0 {
      out.push((i as u32, c, DROPPED[i].load(Ordering::Relaxed)));
    }
  }
  out
}
