fn main() {
  let (tx, rx) = fibre::mpsc::bounded::<u32>(2);
  let out = loom::rt::run(loom::rt::Config { strategy: loom::rt::Strategy::Random { seed: 7 }, ..Default::default() }, move || {
    let h = loom::thread::spawn(move || {
      for i in 0..5 { tx.send(i).unwrap(); }
    });
    for _ in 0..5 { println!("{:?}", rx.recv()); }
    h.join().unwrap();
  });
  println!("{:?} steps={} decisions={}", out.status, out.steps, out.decisions.len());
}
