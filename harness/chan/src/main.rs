//! chanh: channel / hybrid-lock harness (see README.md, /verif/docs/CHAN_HISTORY.md).

mod dfs;
mod exec;
mod gen;
mod genx;
mod handles;
mod locks;
mod monitor;
mod prog;
mod races;
mod val;

use loom::rt;
use prog::Case;
use std::io::Write;

fn usage() -> ! {
  eprintln!(
    "usage:\n  chanh gen --seed S --cases N [--tier quick|thorough] [--flavours a,b] [--mode seq|conc|async] [--jobs J]\n  chanh run <file>\n  chanh dfs <casefile> [--preempt K] [--max-runs N] [--all]\n  chanh races --seed S [--tier quick|thorough] [--flavours a,b] [--sample N] [--max-runs M] [--core-runs M] [--list]\n  chanh demo"
  );
  std::process::exit(2)
}

pub fn config_for(case: &Case) -> rt::Config {
  let strategy = match (case.schedule.is_some(), case.strategy.as_str()) {
    (true, _) => rt::Strategy::Replay,
    (_, "rand") => rt::Strategy::Random { seed: case.seed },
    (_, "pct") => rt::Strategy::Pct { seed: case.seed, depth: 3, est_steps: 150 },
    _ => rt::Strategy::Replay,
  };
  rt::Config {
    strategy,
    schedule: case.schedule.clone().unwrap_or_default(),
    budget: case.budget,
    stack_size: 256 * 1024,
    prefer: case.prefer.clone(),
    trace: case.atomics,
  }
}

/// Run one case and render its transcript block.
pub fn run_and_render(case: &Case) -> String {
  let res = exec::run_case(case, config_for(case));
  render(case, &res)
}

pub fn render(case: &Case, res: &exec::RunResult) -> String {
  let mut out = String::new();
  out.push_str(&case.header());
  out.push('\n');
  for l in case.program_lines() {
    out.push_str(&l);
    out.push('\n');
  }
  let sched: Vec<String> = res.outcome.decisions.iter().map(|d| d.chosen.to_string()).collect();
  if sched.is_empty() {
    out.push_str("S\n");
  }
  for chunk in sched.chunks(64) {
    out.push_str("S ");
    out.push_str(&chunk.join(","));
    out.push('\n');
  }
  let mut panic: Option<(usize, String)> = None;
  let mut tpos = 0usize;
  let trace = &res.outcome.trace;
  for (k, e) in res.events.iter().enumerate() {
    let upto = res.apos.get(k).copied().unwrap_or(0).min(trace.len());
    while tpos < upto {
      out.push_str(&trace[tpos]);
      out.push('\n');
      tpos += 1;
    }
    match e {
      exec::Ev::Call { tid, op } => out.push_str(&format!("C {} {}\n", tid, op.text())),
      exec::Ev::Ret { tid, res, .. } => out.push_str(&format!("R {} {}\n", tid, res)),
      exec::Ev::Panic { tid, msg } => {
        if panic.is_none() {
          panic = Some((*tid, msg.clone()));
        }
      }
    }
  }
  while tpos < trace.len() {
    out.push_str(&trace[tpos]);
    out.push('\n');
    tpos += 1;
  }
  let status = if let Some(inv) = &res.invalid {
    format!("invalid:{}", inv)
  } else {
    match (&res.outcome.status, &panic) {
      (rt::Status::Deadlock(b), _) => {
        format!("deadlock:{}", b.iter().map(|t| t.to_string()).collect::<Vec<_>>().join(","))
      }
      (rt::Status::Budget, _) => "budget".to_string(),
      (rt::Status::Ok, Some((t, m))) => format!("panic:{}:{}", t, m),
      (rt::Status::Ok, None) => "ok".to_string(),
    }
  };
  out.push_str(&format!("X {}\n", status));
  if res.outcome.diverged {
    eprintln!("chanh: case {}: explicit schedule named a non-candidate thread (fell back to default)", case.id);
  }
  let complete = res.outcome.status == rt::Status::Ok && res.invalid.is_none();
  if complete {
    let spmc = case.flavour.starts_with("spmc");
    let toks: Vec<String> = res
      .drops
      .iter()
      .map(|(id, c, d)| if spmc { format!("{}:{}/{}", id, d, c) } else { format!("{}:{}", id, d) })
      .collect();
    out.push_str(&format!("D {}\n", toks.join(" ")).replace("D \n", "D\n"));
  }
  for m in monitor::check(case, res, &status) {
    out.push_str(&format!("!monitor {} | {}\n", m.0, m.1));
  }
  // a thread that panicked inside the code under test and a run that then ended in a deadlock / budget stop:
  // the status line says deadlock, but the panic is the defect to name (its thread died holding its handles)
  if let (true, Some((t, m))) = (status.starts_with("deadlock") || status == "budget", &panic) {
    for mm in monitor::check(case, res, &format!("panic:{}:{}", t, m)) {
      if mm.0.contains(":panic") {
        out.push_str(&format!("!monitor {} | {} (the run then ended with X {})\n", mm.0, mm.1, status));
      }
    }
  }
  out.push_str("#end\n");
  out
}

fn main() {
  // panics inside scheduled threads are caught and reported in the transcript
  std::panic::set_hook(Box::new(|info| {
    if std::env::var_os("CHANH_PANIC_TRACE").is_some() {
      eprintln!("chanh: panic: {}", info);
    }
  }));
  let args: Vec<String> = std::env::args().collect();
  if args.len() < 2 {
    usage();
  }
  let stdout = std::io::stdout();
  match args[1].as_str() {
    "run" => {
      let Some(path) = args.get(2) else { usage() };
      let text = std::fs::read_to_string(path).unwrap_or_else(|e| {
        eprintln!("chanh: cannot read {}: {}", path, e);
        std::process::exit(2)
      });
      let cases = prog::parse_cases(&text).unwrap_or_else(|e| {
        eprintln!("chanh: {}: {}", path, e);
        std::process::exit(2)
      });
      let atomics = args.iter().any(|a| a == "--atomics");
      let mut lock = stdout.lock();
      for c in &cases {
        let mut c = c.clone();
        c.atomics |= atomics;
        let _ = lock.write_all(run_and_render(&c).as_bytes());
      }
    }
    "gen" | "worker" => gen::main(&args[1..]),
    "dfs" => dfs::main(&args[2..]),
    "races" | "races-worker" => races::main(&args[1..]),
    "demo" => gen::demo(),
    _ => usage(),
  }
}

/// Abandoned executions (deadlock / budget) leak their blocked OS threads. A worker process that has
/// accumulated many of them replaces itself (exec) by a fresh worker for the rest of its range, so long
/// explorations do not run the machine out of thread ids (kernel.pid_max). `next` = first index not yet done.
pub fn recycle_if_leaky(next: usize) {
  let threads = std::fs::read_to_string("/proc/self/status")
    .ok()
    .and_then(|s| s.lines().find(|l| l.starts_with("Threads:")).and_then(|l| l[8..].trim().parse::<usize>().ok()))
    .unwrap_or(0);
  let cap = std::env::var("CHANH_THREAD_CAP").ok().and_then(|v| v.parse().ok()).unwrap_or(300usize);
  if threads <= cap {
    return;
  }
  use std::os::unix::process::CommandExt;
  let mut args: Vec<String> = std::env::args().collect();
  match args.iter().position(|a| a == "--lo") {
    Some(p) if p + 1 < args.len() => args[p + 1] = next.to_string(),
    _ => {
      args.push("--lo".into());
      args.push(next.to_string());
    }
  }
  let exe = std::env::current_exe().expect("current_exe");
  let err = std::process::Command::new(exe).args(&args[1..]).exec();
  eprintln!("chanh: re-exec failed: {err}");
}
