//! Case generators and the `gen` mode driver (parallel worker processes).

use crate::prog::{arg_list, Case, Op, FLAVOURS};
use std::io::{Read, Write};
use std::process::{Command, Stdio};

pub struct Rng(pub u64);
impl Rng {
  pub fn next(&mut self) -> u64 {
    self.0 = self.0.wrapping_add(0x9E37_79B9_7F4A_7C15);
    let mut z = self.0;
    z = (z ^ (z >> 30)).wrapping_mul(0xBF58_476D_1CE4_E5B9);
    z = (z ^ (z >> 27)).wrapping_mul(0x94D0_49BB_1331_11EB);
    z ^ (z >> 31)
  }
  pub fn below(&mut self, n: usize) -> usize {
    if n == 0 { 0 } else { (self.next() % n as u64) as usize }
  }
  pub fn range(&mut self, lo: usize, hi: usize) -> usize {
    lo + self.below(hi - lo + 1)
  }
  pub fn chance(&mut self, pct: usize) -> bool {
    self.below(100) < pct
  }
  pub fn pick<'a, T>(&mut self, v: &'a [T]) -> &'a T {
    &v[self.below(v.len())]
  }
  /// weighted choice: index into `w`
  pub fn weighted(&mut self, w: &[usize]) -> usize {
    let total: usize = w.iter().sum();
    let mut k = self.below(total.max(1));
    for (i, x) in w.iter().enumerate() {
      if k < *x {
        return i;
      }
      k -= x;
    }
    0
  }
}

const CAPS: &[usize] = &[1, 1, 2, 2, 2, 3, 3, 4, 5, 7, 8];
/// capacities of the extended ("x") families: non-powers of two, ring seams at 16/32/64, chunk and slab boundaries
pub const CAPS_X: &[usize] = &[1, 2, 3, 5, 6, 7, 8, 15, 16, 17, 31, 33, 64];

/// batch size: the classic 1..=4, or (extended families) up to 40 with a third of the mass at 16..=40
pub fn batch_k(rng: &mut Rng, big: bool) -> usize {
  if !big {
    return rng.range(1, 4);
  }
  match rng.weighted(&[40, 30, 30]) {
    0 => rng.range(1, 4),
    1 => rng.range(5, 16),
    _ => rng.range(16, 40),
  }
}

#[derive(Clone, Copy)]
pub struct Fl {
  pub batch: bool,
  pub s_clone: bool,
  pub r_clone: bool,
  pub has_cap: bool,
  pub scount: bool,
  pub rdv: bool,
  pub oneshot: bool,
  pub spmc: bool,
  pub unbounded: bool,
  pub asyn: bool,
  /// async handle types whose API takes &mut self (one live future per handle)
  pub s_mut: bool,
  pub r_mut: bool,
  pub lock: bool,
}

pub fn fl(name: &str) -> Fl {
  let base = name.trim_end_matches("_async");
  let asyn = name.ends_with("_async");
  let rdv = name.starts_with("rdv_");
  let oneshot = name == "oneshot";
  let spmc = base == "spmc";
  let unbounded = base == "mpsc_u" || base == "mpmc_u";
  Fl {
    batch: !rdv && !oneshot,
    s_clone: matches!(base, "mpsc_b" | "mpsc_u" | "mpmc_b" | "mpmc_u" | "rdv_mpsc" | "rdv_mpmc" | "oneshot"),
    r_clone: matches!(base, "mpmc_b" | "mpmc_u" | "rdv_mpmc" | "spmc"),
    has_cap: base != "mpsc_u" && !oneshot,
    scount: unbounded,
    rdv,
    oneshot,
    spmc,
    unbounded,
    asyn: asyn || oneshot,
    s_mut: matches!(name, "spsc_async" | "mpsc_u_async" | "mpmc_u_async" | "spmc_async"),
    r_mut: matches!(name, "spsc_async" | "mpsc_u_async" | "mpmc_u_async"),
    lock: name == "mutex" || name == "rwlock",
  }
}

#[derive(Clone)]
struct HS {
  name: String,
  is_async: bool,
  closed: bool,
  alive: bool,
  lag: usize, // spmc receivers: items published and not yet read by this receiver
}

struct SeqState {
  f: Fl,
  cap: usize,
  s: Vec<HS>,
  r: Vec<HS>,
  len: usize,
  next_v: u32,
  next_s: usize,
  next_r: usize,
  sent_once: bool,
  big: bool,
}

impl SeqState {
  fn new(f: Fl, cap: usize, big: bool) -> SeqState {
    let h = |n: &str, a: bool| HS { name: n.into(), is_async: a, closed: false, alive: true, lag: 0 };
    SeqState {
      f,
      cap,
      s: vec![h("s0", f.asyn && !f.oneshot)],
      r: vec![h("r0", f.asyn)],
      len: 0,
      next_v: 1,
      next_s: 1,
      next_r: 1,
      sent_once: false,
      big,
    }
  }
  fn vals(&mut self, k: usize) -> Vec<u32> {
    (0..k).map(|_| { let v = self.next_v; self.next_v += 1; v }).collect()
  }
  fn receivers_gone(&self) -> bool {
    self.r.iter().all(|h| !h.alive || h.closed)
  }
  fn senders_gone(&self) -> bool {
    self.s.iter().all(|h| !h.alive || h.closed)
  }
  /// free slots as the generator estimates them
  fn room(&self) -> usize {
    if self.f.unbounded {
      return 1000;
    }
    if self.f.rdv {
      return 0;
    }
    if self.f.oneshot {
      return if self.sent_once { 0 } else { 1 };
    }
    if self.f.spmc {
      let maxlag = self.r.iter().filter(|h| h.alive && !h.closed).map(|h| h.lag).max().unwrap_or(0);
      return self.cap.saturating_sub(maxlag);
    }
    self.cap.saturating_sub(self.len)
  }
  fn avail(&self, ri: usize) -> usize {
    if self.f.spmc { self.r[ri].lag } else { self.len }
  }
  fn push(&mut self, k: usize) {
    if self.f.spmc {
      for h in self.r.iter_mut().filter(|h| h.alive && !h.closed) {
        h.lag += k;
      }
    } else {
      self.len += k;
    }
    if k > 0 {
      self.sent_once = true;
    }
  }
  fn pop(&mut self, ri: usize, k: usize) {
    if self.f.spmc {
      self.r[ri].lag -= k.min(self.r[ri].lag);
    } else {
      self.len -= k.min(self.len);
    }
  }
}

fn alive_idx(v: &[HS], rng: &mut Rng, prefer_open: bool) -> Option<usize> {
  let open: Vec<usize> = v.iter().enumerate().filter(|(_, h)| h.alive && !h.closed).map(|(i, _)| i).collect();
  let alive: Vec<usize> = v.iter().enumerate().filter(|(_, h)| h.alive).map(|(i, _)| i).collect();
  if alive.is_empty() {
    return None;
  }
  if prefer_open && !open.is_empty() && rng.chance(88) {
    return Some(*rng.pick(&open));
  }
  Some(*rng.pick(&alive))
}

fn seq_send(st: &mut SeqState, rng: &mut Rng, malformed: bool) -> Option<Op> {
  let si = alive_idx(&st.s, rng, !malformed)?;
  let h = st.s[si].clone();
  let dead = h.closed || st.receivers_gone();
  let room = st.room();
  if st.f.oneshot {
    let v = st.vals(1);
    st.s[si].alive = false;
    if !dead && room > 0 {
      st.push(1);
    }
    return Some(Op::new(&["send", &h.name, &v[0].to_string()]));
  }
  let forms: &[&str] = if st.f.batch {
    &["try_send", "send", "try_send_batch", "send_batch", "try_send_batch_mut", "send_batch_mut"]
  } else {
    &["try_send", "send"]
  };
  let w: &[usize] = if st.f.batch { &[30, 26, 12, 12, 10, 10] } else { &[55, 45] };
  let mut form = forms[rng.weighted(w)];
  let k = if form.contains("batch") {
    if malformed || rng.chance(6) { 0 } else { batch_k(rng, st.big) }
  } else {
    1
  };
  // blocking forms only when the generator expects them to return
  let blocking = !form.starts_with("try_");
  if blocking && !dead && k > room {
    form = match form {
      "send" => "try_send",
      "send_batch" => "try_send_batch",
      _ => "try_send_batch_mut",
    };
  }
  // known closed-handle defect sites may accept and then wait for space: keep them non-blocking when full
  if blocking && h.closed && k > room && !form.starts_with("try_") {
    form = if form == "send" { "try_send" } else { "try_send_batch" };
  }
  let vs = st.vals(k);
  if !dead {
    let acc = if st.f.rdv { 0 } else { k.min(room) };
    // all-or-nothing vs prefix does not matter for the estimate's purpose
    st.push(acc);
  }
  Some(if form.contains("batch") {
    Op::new(&[form, &h.name, &arg_list(&vs)])
  } else {
    Op::new(&[form, &h.name, &vs[0].to_string()])
  })
}

fn seq_recv(st: &mut SeqState, rng: &mut Rng, malformed: bool) -> Option<Op> {
  let ri = alive_idx(&st.r, rng, !malformed)?;
  let h = st.r[ri].clone();
  if st.f.oneshot {
    let form = if st.avail(ri) > 0 || h.closed || st.senders_gone() { *rng.pick(&["recv", "try_recv"]) } else { "try_recv" };
    if !h.closed {
      st.pop(ri, 1);
    }
    return Some(Op::new(&[form, &h.name]));
  }
  let mut forms: Vec<&str> = vec!["try_recv", "recv"];
  let mut w: Vec<usize> = vec![30, 26];
  if !h.is_async {
    forms.push("recv_timeout0");
    w.push(12);
    // the real timed form: in a sequential program only where it returns without waiting (else the scheduler has to
    // fire the timeout, which costs the real time)
    forms.push("recv_timeout");
    w.push(4);
  }
  if st.f.batch {
    forms.extend(["try_recv_batch", "recv_batch", "try_recv_batch_mut", "recv_batch_mut"]);
    w.extend([10, 10, 8, 8]);
  }
  let mut form = forms[rng.weighted(&w)];
  let n = if form.contains("batch") { if malformed || rng.chance(6) { 0 } else { batch_k(rng, st.big) } } else { 1 };
  let blocking = matches!(form, "recv" | "recv_batch" | "recv_batch_mut" | "recv_timeout");
  let returns = st.avail(ri) > 0 || h.closed || st.senders_gone() || n == 0;
  if blocking && !returns {
    form = match form {
      "recv" => "try_recv",
      "recv_timeout" => "recv_timeout0",
      "recv_batch" => "try_recv_batch",
      _ => "try_recv_batch_mut",
    };
  }
  if !h.closed {
    st.pop(ri, n);
  }
  Some(if form.contains("batch") { Op::new(&[form, &h.name, &n.to_string()]) } else { Op::new(&[form, &h.name]) })
}

fn seq_probe(st: &mut SeqState, rng: &mut Rng) -> Option<Op> {
  let sender = rng.chance(50);
  let v = if sender { &st.s } else { &st.r };
  let i = alive_idx(v, rng, false)?;
  let name = v[i].name.clone();
  let mut forms: Vec<&str> = vec!["is_closed"];
  if !st.f.oneshot {
    forms.extend(["len", "len", "is_empty"]);
    if st.f.has_cap {
      forms.extend(["is_full", "capacity"]);
    }
    if st.f.scount {
      forms.push("sender_count");
    }
  } else if sender {
    forms.push("is_sent");
  }
  let form: &str = *rng.pick(&forms[..]);
  Some(Op::new(&[form, &name]))
}

fn seq_admin(st: &mut SeqState, rng: &mut Rng, late: usize) -> Option<Op> {
  // clone / close / drop / convert
  let choice = rng.weighted(&[18, late / 2 + 4, late / 2 + 2, 12]);
  let sender = rng.chance(50);
  match choice {
    0 => {
      if sender && st.f.s_clone && st.s.iter().filter(|h| h.alive).count() < 3 {
        let i = alive_idx(&st.s, rng, false)?;
        let n = format!("s{}", st.next_s);
        st.next_s += 1;
        let a = st.s[i].is_async;
        let from = st.s[i].name.clone();
        st.s.push(HS { name: n.clone(), is_async: a, closed: false, alive: true, lag: 0 });
        return Some(Op::new(&["clone", &from, &n]));
      }
      if st.f.r_clone && st.r.iter().filter(|h| h.alive).count() < 3 {
        let i = alive_idx(&st.r, rng, false)?;
        let n = format!("r{}", st.next_r);
        st.next_r += 1;
        let (a, lag, from) = (st.r[i].is_async, st.r[i].lag, st.r[i].name.clone());
        st.r.push(HS { name: n.clone(), is_async: a, closed: false, alive: true, lag });
        return Some(Op::new(&["clone", &from, &n]));
      }
      None
    }
    1 => {
      let v = if sender { &mut st.s } else { &mut st.r };
      let i = alive_idx(v, rng, true)?;
      v[i].closed = true;
      Some(Op::new(&["close", &v[i].name.clone()]))
    }
    2 => {
      let v = if sender { &mut st.s } else { &mut st.r };
      let i = alive_idx(v, rng, false)?;
      v[i].alive = false;
      Some(Op::new(&["drop", &v[i].name.clone()]))
    }
    _ => {
      if st.f.oneshot {
        return None;
      }
      let v = if sender { &mut st.s } else { &mut st.r };
      let i = alive_idx(v, rng, false)?;
      let form = if v[i].is_async { "to_sync" } else { "to_async" };
      v[i].is_async = !v[i].is_async;
      Some(Op::new(&[form, &v[i].name.clone()]))
    }
  }
}

/// "Soak": push / pop rounds on `s0` / `r0` (only those two exist yet) that advance ring indices, ticket counters,
/// chunk and slab positions before the interesting operations: rounds of one batch send of k ≤ min(room, 40) items
/// followed by batch receives that take them out again (12 %: a remainder of 1..3 stays). `nonblocking`: only
/// `try_*` forms (setup thread of a concurrent case, manual-poll programs).
fn soak(st: &mut SeqState, rng: &mut Rng, ops: &mut Vec<Op>, nonblocking: bool) {
  if !st.f.batch {
    return;
  }
  let rounds = rng.range(1, if st.f.unbounded { 8 } else { 6 });
  for _ in 0..rounds {
    let room = st.room();
    if room == 0 {
      break;
    }
    let k = batch_k(rng, true).min(room).min(40);
    let vs = st.vals(k);
    let sform = if nonblocking {
      *rng.pick(&["try_send_batch", "try_send_batch_mut"])
    } else {
      *rng.pick(&["try_send_batch", "send_batch", "try_send_batch_mut", "send_batch_mut"])
    };
    ops.push(Op::new(&[sform, "s0", &arg_list(&vs)]));
    st.push(k);
    let leave = if rng.chance(12) { rng.range(1, k.min(3)) } else { 0 };
    let mut left = k - leave.min(k);
    while left > 0 {
      let n = if rng.chance(70) { left } else { rng.range(1, left) };
      let rform = if nonblocking {
        *rng.pick(&["try_recv_batch", "try_recv_batch_mut"])
      } else {
        *rng.pick(&["try_recv_batch", "recv_batch", "try_recv_batch_mut", "recv_batch_mut"])
      };
      ops.push(Op::new(&[rform, "r0", &n.to_string()]));
      st.pop(0, n);
      left -= n;
    }
  }
}

/// soak prefix for the setup thread of concurrent / manual-poll programs: (ops, next value id)
pub fn soak_prefix(rng: &mut Rng, flavour: &str, cap: usize) -> (Vec<Op>, u32) {
  let mut st = SeqState::new(fl(flavour), cap, true);
  let mut ops = Vec::new();
  soak(&mut st, rng, &mut ops, true);
  (ops, st.next_v)
}

fn gen_seq(rng: &mut Rng, flavour: &str, cap: usize, thorough: bool, big: bool) -> Vec<Vec<Op>> {
  let f = fl(flavour);
  if f.lock {
    let n = rng.range(3, 9);
    return vec![gen_lock_thread(rng, flavour, 0, n, true)];
  }
  let mut st = SeqState::new(f, cap, big);
  let n = rng.range(8, if thorough { 40 } else { 30 });
  let mut ops = Vec::new();
  if big && rng.chance(65) {
    soak(&mut st, rng, &mut ops, false);
  }
  for i in 0..n {
    let late = (i * 100) / n;
    let malformed = rng.chance(7);
    // steer towards operations that succeed: send when there is room, receive when there is something
    let room = st.room();
    let avail = if st.f.spmc { st.r.iter().filter(|h| h.alive).map(|h| h.lag).max().unwrap_or(0) } else { st.len };
    let (ws, wr) = if avail == 0 && room > 0 { (52, 20) } else if room == 0 && avail > 0 { (20, 52) } else { (36, 36) };
    let cat = rng.weighted(&[ws, wr, 10, 6 + late / 8]);
    let op = match cat {
      0 => seq_send(&mut st, rng, malformed),
      1 => seq_recv(&mut st, rng, malformed),
      2 => seq_probe(&mut st, rng),
      _ => seq_admin(&mut st, rng, late),
    };
    if let Some(op) = op {
      ops.push(op);
    }
  }
  vec![ops]
}

// ---------------------------------------------------------------- concurrent programs

pub fn sender_ops(rng: &mut Rng, f: Fl, h: &str, is_async: bool, n: usize, next_v: &mut u32, out: &mut Vec<Op>) {
  sender_ops_k(rng, f, h, is_async, n, next_v, out, 3)
}

pub fn sender_ops_k(rng: &mut Rng, f: Fl, h: &str, is_async: bool, n: usize, next_v: &mut u32, out: &mut Vec<Op>, kmax: usize) {
  let _ = is_async;
  for _ in 0..n {
    if f.oneshot {
      let v = *next_v;
      *next_v += 1;
      if rng.chance(15) {
        out.push(Op::new(&[*rng.pick(&["is_closed", "is_sent", "close"]), h]));
      }
      out.push(Op::new(&["send", h, &v.to_string()]));
      return;
    }
    let forms: &[&str] = if f.batch {
      &["send", "try_send", "send_batch", "try_send_batch", "send_batch_mut", "try_send_batch_mut", "len", "close", "is_closed", "is_full"]
    } else {
      &["send", "try_send", "len", "close", "is_closed", "is_full"]
    };
    let w: &[usize] = if f.batch { &[38, 18, 12, 8, 6, 5, 5, 3, 2, 3] } else { &[55, 28, 6, 4, 3, 4] };
    let form = forms[rng.weighted(w)];
    if form.contains("send") {
      let k = if form.contains("batch") { rng.range(1, kmax) } else { 1 };
      let vs: Vec<u32> = (0..k).map(|_| { let v = *next_v; *next_v += 1; v }).collect();
      if form.contains("batch") {
        out.push(Op::new(&[form, h, &arg_list(&vs)]));
      } else {
        out.push(Op::new(&[form, h, &vs[0].to_string()]));
      }
    } else if form == "is_full" && !f.has_cap {
      out.push(Op::new(&["len", h]));
    } else {
      out.push(Op::new(&[form, h]));
    }
  }
}

pub fn receiver_ops(rng: &mut Rng, f: Fl, h: &str, is_async: bool, n: usize, out: &mut Vec<Op>) {
  receiver_ops_k(rng, f, h, is_async, n, out, 3)
}

pub fn receiver_ops_k(rng: &mut Rng, f: Fl, h: &str, is_async: bool, n: usize, out: &mut Vec<Op>, kmax: usize) {
  for _ in 0..n {
    if f.oneshot {
      out.push(Op::new(&[*rng.pick(&["recv", "recv", "try_recv", "is_closed", "close"]), h]));
      continue;
    }
    let mut forms: Vec<&str> = vec!["recv", "try_recv", "len", "close", "is_closed"];
    let mut w: Vec<usize> = vec![40, 16, 5, 3, 2];
    if !is_async {
      forms.push("recv_timeout0");
      w.push(14);
      forms.push("recv_timeout");
      w.push(4);
    }
    if f.batch {
      forms.extend(["recv_batch", "try_recv_batch", "recv_batch_mut", "try_recv_batch_mut"]);
      w.extend([10, 7, 5, 4]);
    }
    let form = forms[rng.weighted(&w)];
    if form.contains("batch") {
      out.push(Op::new(&[form, h, &rng.range(1, kmax).to_string()]));
    } else {
      out.push(Op::new(&[form, h]));
    }
  }
}

fn gen_conc(rng: &mut Rng, flavour: &str, cap: usize, thorough: bool) -> Vec<Vec<Op>> {
  gen_conc_with(rng, flavour, cap, thorough, Vec::new(), 1, 3)
}

/// `pre`: operations the setup thread runs after the clones (soak), `next_v0`: first unused value id,
/// `kmax`: largest batch of the threads
pub fn gen_conc_with(rng: &mut Rng, flavour: &str, cap: usize, thorough: bool, pre: Vec<Op>, next_v0: u32, kmax: usize) -> Vec<Vec<Op>> {
  let f = fl(flavour);
  let max_ops = if thorough { 6 } else { 4 };
  if f.lock {
    let k = if flavour == "rwlock" { rng.range(2, 4) } else { rng.range(2, 3) };
    let mut progs = vec![Vec::new()];
    for t in 1..=k {
      let n = rng.range(1, max_ops.min(3));
      progs.push(gen_lock_thread(rng, flavour, t, n, false));
    }
    return progs;
  }
  let (ns, nr) = {
    let opts: Vec<(usize, usize)> = match (f.s_clone, f.r_clone) {
      (true, true) => vec![(1, 1), (2, 1), (1, 2), (1, 1)],
      (true, false) => vec![(1, 1), (2, 1), (2, 1)],
      (false, true) => vec![(1, 1), (1, 2), (1, 2)],
      (false, false) => vec![(1, 1)],
    };
    *rng.pick(&opts)
  };
  let mut next_v = next_v0;
  let mut setup: Vec<Op> = Vec::new();
  let base_async = f.asyn && !f.oneshot;
  let mut snames = vec!["s0".to_string()];
  let mut rnames = vec!["r0".to_string()];
  // (the soak runs before the clones: a clone made now would be a second live receiver of a broadcast channel)
  let soaked = !pre.is_empty();
  setup.extend(pre);
  for i in 1..ns {
    setup.push(Op::new(&["clone", "s0", &format!("s{}", i)]));
    snames.push(format!("s{}", i));
  }
  for i in 1..nr {
    setup.push(Op::new(&["clone", "r0", &format!("r{}", i)]));
    rnames.push(format!("r{}", i));
  }
  // optional prefill by the setup thread (never blocks)
  if !f.rdv && !f.oneshot && !soaked && rng.chance(25) {
    let k = rng.range(1, cap.min(3).max(1));
    for _ in 0..k {
      setup.push(Op::new(&["try_send", "s0", &next_v.to_string()]));
      next_v += 1;
    }
  }
  let mut progs = vec![setup];
  for s in &snames {
    let mut p = Vec::new();
    let mut is_async = base_async;
    if !f.oneshot && rng.chance(6) {
      p.push(Op::new(&[if is_async { "to_sync" } else { "to_async" }, s]));
      is_async = !is_async;
    }
    let n = rng.range(1, max_ops);
    sender_ops_k(rng, f, s, is_async, n, &mut next_v, &mut p, kmax);
    if !f.oneshot && rng.chance(85) {
      p.push(Op::new(&["drop", s]));
    }
    progs.push(p);
  }
  for r in &rnames {
    let mut p = Vec::new();
    let mut is_async = f.asyn;
    if !f.oneshot && rng.chance(6) {
      p.push(Op::new(&[if is_async { "to_sync" } else { "to_async" }, r]));
      is_async = !is_async;
    }
    let n = rng.range(1, max_ops);
    receiver_ops_k(rng, f, r, is_async, n, &mut p, kmax);
    if rng.chance(85) {
      p.push(Op::new(&["drop", r]));
    }
    progs.push(p);
  }
  progs
}

// ---------------------------------------------------------------- manual-poll programs

fn gen_async(rng: &mut Rng, flavour: &str, cap: usize, thorough: bool) -> Vec<Vec<Op>> {
  gen_async_with(rng, flavour, cap, thorough, Vec::new(), 1)
}

pub fn gen_async_with(rng: &mut Rng, flavour: &str, cap: usize, thorough: bool, pre: Vec<Op>, next_v0: u32) -> Vec<Vec<Op>> {
  let f = fl(flavour);
  if f.lock {
    return gen_lock_async(rng, flavour);
  }
  let _ = cap;
  let mut ops: Vec<Op> = pre;
  let mut snames = vec!["s0".to_string()];
  let mut rnames = vec!["r0".to_string()];
  if f.s_clone && rng.chance(60) {
    ops.push(Op::new(&["clone", "s0", "s1"]));
    snames.push("s1".into());
  }
  if f.r_clone && rng.chance(70) {
    ops.push(Op::new(&["clone", "r0", "r1"]));
    rnames.push("r1".into());
  }
  let two_threads = rng.chance(30);
  let mut next_v = next_v0;
  let mut next_f = 0usize;
  // live futures: (name, handle, is_send)
  let mut live: Vec<(String, String, bool)> = Vec::new();
  let mut gone: Vec<String> = Vec::new();
  let n = rng.range(6, if thorough { 20 } else { 14 });
  let mut manual: Vec<Op> = Vec::new();
  // in the two-thread variant the manual thread owns the receivers, the other thread the senders
  for i in 0..n {
    let late = i * 100 / n;
    let busy = |h: &str, live: &Vec<(String, String, bool)>| live.iter().any(|(_, hh, _)| hh == h);
    let cat = rng.weighted(&[26, 30, 10, 8, 20, 3 + late / 10]);
    match cat {
      0 => {
        // create a future
        let send_side = if two_threads { false } else { rng.chance(45) && !f.oneshot };
        let hs: Vec<&String> = (if send_side { &snames } else { &rnames }).iter().filter(|h| !gone.contains(h)).collect();
        if hs.is_empty() {
          continue;
        }
        let h = (*rng.pick(&hs)).clone();
        // one task per handle: at most one live future on a handle (clones give concurrency)
        if busy(&h, &live) {
          continue;
        }
        let fname = format!("f{}", next_f);
        next_f += 1;
        if send_side {
          if f.batch && rng.chance(20) {
            let k = rng.range(1, 3);
            let vs: Vec<u32> = (0..k).map(|_| { let v = next_v; next_v += 1; v }).collect();
            manual.push(Op::new(&["fut", &fname, "=", "send_batch_fut", &h, &arg_list(&vs)]));
          } else {
            manual.push(Op::new(&["fut", &fname, "=", "send_fut", &h, &next_v.to_string()]));
            next_v += 1;
          }
        } else if f.batch && rng.chance(20) {
          manual.push(Op::new(&["fut", &fname, "=", "recv_batch_fut", &h, &rng.range(1, 3).to_string()]));
        } else {
          manual.push(Op::new(&["fut", &fname, "=", "recv_fut", &h]));
        }
        live.push((fname, h, send_side));
      }
      1 => {
        if live.is_empty() {
          continue;
        }
        let k = rng.below(live.len());
        manual.push(Op::new(&["poll", &live[k].0]));
        // the generator cannot know whether it completed; polling a finished future yields invalid:done (harmless),
        // so retire futures after a second poll
        if rng.chance(35) {
          let (fname, _, _) = live.remove(k);
          manual.push(Op::new(&["dropfut", &fname]));
        }
      }
      2 => {
        if live.is_empty() {
          continue;
        }
        let k = rng.below(live.len());
        let (fname, _, _) = live.remove(k);
        manual.push(Op::new(&["dropfut", &fname]));
      }
      3 => {
        if live.is_empty() {
          continue;
        }
        let k = rng.below(live.len());
        manual.push(Op::new(&["wakes", &live[k].0]));
      }
      4 => {
        // a non-blocking op on some handle
        let send_side = if two_threads { false } else { rng.chance(55) };
        let hs: Vec<&String> = (if send_side { &snames } else { &rnames }).iter().filter(|h| !gone.contains(h)).collect();
        if hs.is_empty() {
          continue;
        }
        let h = (*rng.pick(&hs)).clone();
        let excl = if send_side { f.s_mut } else { f.r_mut };
        if excl && busy(&h, &live) {
          continue;
        }
        if send_side {
          if f.oneshot {
            if busy(&h, &live) {
              continue;
            }
            manual.push(Op::new(&["send", &h, &next_v.to_string()]));
            next_v += 1;
            gone.push(h);
          } else if f.batch && rng.chance(20) {
            let k = rng.range(1, 3);
            let vs: Vec<u32> = (0..k).map(|_| { let v = next_v; next_v += 1; v }).collect();
            manual.push(Op::new(&["try_send_batch", &h, &arg_list(&vs)]));
          } else {
            manual.push(Op::new(&["try_send", &h, &next_v.to_string()]));
            next_v += 1;
          }
        } else if f.batch && rng.chance(20) {
          manual.push(Op::new(&["try_recv_batch", &h, &rng.range(1, 3).to_string()]));
        } else {
          manual.push(Op::new(&[*rng.pick(&["try_recv", "try_recv", "len"]), &h]));
        }
      }
      _ => {
        let send_side = if two_threads { false } else { rng.chance(50) };
        let hs: Vec<&String> = (if send_side { &snames } else { &rnames }).iter().filter(|h| !gone.contains(h)).collect();
        if hs.is_empty() {
          continue;
        }
        let h = (*rng.pick(&hs)).clone();
        if busy(&h, &live) {
          continue;
        }
        if rng.chance(50) && !f.oneshot {
          manual.push(Op::new(&["close", &h]));
        } else {
          manual.push(Op::new(&["drop", &h]));
          gone.push(h);
        }
      }
    }
  }
  if two_threads {
    let mut other: Vec<Op> = Vec::new();
    for s in &snames {
      let n = rng.range(1, 3);
      sender_ops(rng, f, s, true, n, &mut next_v, &mut other);
      if !f.oneshot && rng.chance(70) {
        other.push(Op::new(&["drop", s]));
      }
    }
    vec![ops, manual, other]
  } else {
    ops.extend(manual);
    vec![ops]
  }
}

// ---------------------------------------------------------------- locks

fn gen_lock_thread(rng: &mut Rng, flavour: &str, tid: usize, n: usize, seq: bool) -> Vec<Op> {
  // A thread's program is a list of episodes; it never blocks while it holds (or may hold) a guard.
  // Guard names g<tid>_<k>, future names f<tid>_<k> (unique per case).
  let rw = flavour == "rwlock";
  let mut ops = Vec::new();
  let mut k = 0usize;
  let mut fk = 0usize;
  let mut episodes = 0usize;
  while episodes < n {
    episodes += 1;
    let g = format!("g{}_{}", tid, k);
    k += 1;
    let kind = rng.weighted(&[30, 18, 16, if seq { 8 } else { 22 }, 8]);
    match kind {
      0 | 2 => {
        // blocking acquire (sync / on the executor), optional probes while held, release
        let asy = kind == 2;
        let form = if rw {
          if rng.chance(45) { if asy { "write_async" } else { "write" } } else if asy { "read_async" } else { "read" }
        } else if asy {
          "lock_async"
        } else {
          "lock"
        };
        ops.push(Op::new(&[form, &g]));
        if rng.chance(30) {
          // a try form while holding: mutex -> none; rwlock try_read may succeed next to a read guard
          let g2 = format!("g{}_{}", tid, k);
          k += 1;
          let tform = if rw { *rng.pick(&["try_read", "try_write"]) } else { "try_lock" };
          ops.push(Op::new(&[tform, &g2]));
          ops.push(Op::new(&["unlock", &g2]));
        }
        ops.push(Op::new(&["unlock", &g]));
      }
      1 => {
        let form = if rw { *rng.pick(&["try_read", "try_write"]) } else { "try_lock" };
        ops.push(Op::new(&[form, &g]));
        // released right away; `invalid:noguard` when the try failed
        ops.push(Op::new(&["unlock", &g]));
      }
      3 => {
        // manual future: polled 1-3 times, dropped pending / woken / after completion
        let f = format!("f{}_{}", tid, fk);
        fk += 1;
        let kindf = if rw { *rng.pick(&["read_fut", "write_fut"]) } else { "lock_fut" };
        ops.push(Op::new(&["fut", &f, "=", kindf, &g]));
        let polls = rng.range(0, 3);
        for _ in 0..polls {
          ops.push(Op::new(&["poll", &f]));
          if rng.chance(30) {
            ops.push(Op::new(&["wakes", &f]));
          }
        }
        ops.push(Op::new(&["dropfut", &f]));
        ops.push(Op::new(&["unlock", &g]));
      }
      _ => {
        // two read guards at once (rwlock), or a plain lock/unlock pair
        if rw {
          let g2 = format!("g{}_{}", tid, k);
          k += 1;
          ops.push(Op::new(&["read", &g]));
          ops.push(Op::new(&["try_read", &g2]));
          ops.push(Op::new(&["unlock", &g]));
          ops.push(Op::new(&["unlock", &g2]));
        } else {
          ops.push(Op::new(&["lock", &g]));
          ops.push(Op::new(&["unlock", &g]));
        }
      }
    }
  }
  ops
}

fn gen_lock_async(rng: &mut Rng, flavour: &str) -> Vec<Vec<Op>> {
  let rw = flavour == "rwlock";
  let mut ops: Vec<Op> = Vec::new();
  let mut live: Vec<String> = Vec::new();
  let mut guards: Vec<String> = Vec::new();
  let mut nf = 0;
  let mut ng = 0;
  let n = rng.range(6, 14);
  for _ in 0..n {
    match rng.weighted(&[22, 30, 10, 8, 14, 16]) {
      0 => {
        let f = format!("f0_{}", nf);
        nf += 1;
        let g = format!("g0_{}", ng);
        ng += 1;
        let kind = if rw { *rng.pick(&["read_fut", "write_fut"]) } else { "lock_fut" };
        ops.push(Op::new(&["fut", &f, "=", kind, &g]));
        live.push(f);
        guards.push(g);
      }
      1 if !live.is_empty() => {
        let f = rng.pick(&live).clone();
        ops.push(Op::new(&["poll", &f]));
      }
      2 if !live.is_empty() => {
        let i = rng.below(live.len());
        let f = live.remove(i);
        ops.push(Op::new(&["dropfut", &f]));
      }
      3 if !live.is_empty() => {
        let f = rng.pick(&live).clone();
        ops.push(Op::new(&["wakes", &f]));
      }
      4 => {
        let g = format!("g0_{}", ng);
        ng += 1;
        let form = if rw { *rng.pick(&["try_read", "try_write"]) } else { "try_lock" };
        ops.push(Op::new(&[form, &g]));
        guards.push(g);
      }
      _ => {
        if !guards.is_empty() {
          let i = rng.below(guards.len());
          let g = guards.remove(i);
          ops.push(Op::new(&["unlock", &g]));
        }
      }
    }
  }
  vec![ops]
}

// ---------------------------------------------------------------- driver

struct Opts {
  seed: u64,
  cases: usize,
  tier: String,
  flavours: Vec<String>,
  mode: String,
  jobs: usize,
  lo: usize,
  hi: usize,
  atomics: bool,
  /// print the generated cases (`#case` + `P` lines) without running them
  dry: bool,
}

fn parse_opts(args: &[String]) -> Opts {
  let mut o = Opts {
    seed: 1,
    cases: 100,
    tier: "quick".into(),
    flavours: Vec::new(),
    mode: "conc".into(),
    // default worker count: `CHANH_JOBS` (shared machines), else the number of cpus; `--jobs` overrides both
    jobs: std::env::var("CHANH_JOBS").ok().and_then(|v| v.parse::<usize>().ok()).filter(|n| *n >= 1)
      .unwrap_or_else(|| std::thread::available_parallelism().map(|n| n.get()).unwrap_or(4)),
    lo: 0,
    hi: usize::MAX,
    atomics: false,
    dry: false,
  };
  let mut i = 1;
  while i < args.len() {
    let val = |i: usize| args.get(i + 1).cloned().unwrap_or_default();
    match args[i].as_str() {
      "--seed" => o.seed = val(i).parse().unwrap_or(1),
      "--cases" => o.cases = val(i).parse().unwrap_or(100),
      "--tier" => o.tier = val(i),
      "--flavours" => o.flavours = val(i).split(',').filter(|s| !s.is_empty()).map(|s| s.to_string()).collect(),
      "--mode" => o.mode = val(i),
      "--jobs" => o.jobs = val(i).parse().unwrap_or(1),
      "--atomics" => {
        o.atomics = true;
        i += 1;
        continue;
      }
      "--dry" => {
        o.dry = true;
        i += 1;
        continue;
      }
      "--lo" => o.lo = val(i).parse().unwrap_or(0),
      "--hi" => o.hi = val(i).parse().unwrap_or(usize::MAX),
      x => {
        eprintln!("chanh gen: unknown option {}", x);
        std::process::exit(2);
      }
    }
    i += 2;
  }
  if o.flavours.is_empty() {
    o.flavours = FLAVOURS
      .iter()
      .filter(|f| match o.mode.as_str() {
        "async" => fl(f).asyn || fl(f).lock,
        _ => true,
      })
      .map(|s| s.to_string())
      .collect();
  }
  for f in &o.flavours {
    if !FLAVOURS.contains(&f.as_str()) {
      eprintln!("chanh gen: unknown flavour {}", f);
      std::process::exit(2);
    }
  }
  o
}

pub fn make_case(seed: u64, idx: usize, mode: &str, tier: &str, flavours: &[String]) -> Case {
  let mode_salt = match mode {
    "seq" => 11,
    "conc" => 23,
    _ => 37,
  };
  let mut rng = Rng(seed.wrapping_mul(0x2545_F491_4F6C_DD1D) ^ ((idx as u64) << 20) ^ mode_salt);
  rng.next();
  let flavour = flavours[idx % flavours.len()].clone();
  let f = fl(&flavour);
  let nocap = f.rdv || f.unbounded || f.oneshot || f.lock;
  let mut cap = if nocap { 0 } else { *rng.pick(CAPS) };
  let thorough = tier == "thorough";
  // extended ("x") families — size / contention diversity (README "Extended generator families"): about a
  // quarter of the cases of the flavours that have batches; the rest is the classic generator
  let ext = !f.lock && (f.batch || (f.rdv && !f.asyn && mode == "conc" && rng.chance(35))) && rng.chance(if thorough { 30 } else { 26 });
  let mut fam = "";
  let programs = if ext {
    let (c, p, name) = crate::genx::gen_x(&mut rng, mode, &flavour, thorough);
    cap = if nocap { 0 } else { c };
    fam = name;
    p
  } else {
    match mode {
      "seq" => gen_seq(&mut rng, &flavour, cap, thorough, false),
      "async" => gen_async(&mut rng, &flavour, cap, thorough),
      _ => gen_conc(&mut rng, &flavour, cap, thorough),
    }
  };
  let multi = programs.len() > 1;
  let strategy = if !multi { "replay" } else if idx % 2 == 0 { "rand" } else { "pct" };
  Case {
    id: format!("{}-{}-{}", mode, seed, idx),
    flavour,
    cap,
    strategy: strategy.into(),
    seed: rng.next() >> 16,
    mode: mode.into(),
    programs,
    schedule: None,
    budget: if ext { 60_000 } else { 20_000 },
    prefer: Vec::new(),
    atomics: false,
    fam: fam.into(),
  }
}

/// big sequential program (extended family `big`): capacity from `CAPS_X`, batches up to 40, optional soak
pub fn gen_seq_big(rng: &mut Rng, flavour: &str, cap: usize, thorough: bool) -> Vec<Vec<Op>> {
  gen_seq(rng, flavour, cap, thorough, true)
}

pub fn main(args: &[String]) {
  let o = parse_opts(args);
  let worker = args[0] == "worker";
  if worker || o.jobs <= 1 || o.cases < 8 || o.dry {
    let stdout = std::io::stdout();
    let mut lock = std::io::BufWriter::new(stdout.lock());
    let hi = o.hi.min(o.cases);
    for i in o.lo..hi {
      let mut c = make_case(o.seed, i, &o.mode, &o.tier, &o.flavours);
      c.atomics = o.atomics;
      if worker && std::env::var("CHANH_TEST_CRASH_AT").ok().and_then(|v| v.parse::<usize>().ok()) == Some(i) {
        std::process::abort(); // self-test of the parent's crash recovery
      }
      if o.dry {
        let _ = lock.write_all(format!("{}\n{}\n#end\n", c.header(), c.program_lines().join("\n")).as_bytes());
        continue;
      }
      let _ = lock.write_all(crate::run_and_render(&c).as_bytes());
      if worker {
        // a case that crashes the process (memory unsafety in the code under test) must not take the finished
        // cases with it: the parent counts the `#end` lines it got and restarts behind the crashed case
        let _ = lock.flush();
        crate::recycle_if_leaky(i + 1);
      }
    }
    let _ = lock.flush();
    return;
  }
  // parent: contiguous slices, one worker process each, output concatenated in case order
  let jobs = o.jobs.min(o.cases);
  let exe = std::env::current_exe().expect("current_exe");
  let chunk = (o.cases + jobs - 1) / jobs;
  let spawn = |lo: usize, hi: usize| {
    Command::new(&exe)
      .arg("worker")
      .args(["--seed", &o.seed.to_string(), "--cases", &o.cases.to_string(), "--tier", &o.tier, "--mode", &o.mode])
      .args(["--flavours", &o.flavours.join(","), "--lo", &lo.to_string(), "--hi", &hi.to_string()])
      .args(if o.atomics { vec!["--atomics"] } else { vec![] })
      .stdout(Stdio::piped())
      .stderr(Stdio::inherit())
      .spawn()
      .expect("spawn worker")
  };
  let mut kids = Vec::new();
  let mut ranges = Vec::new();
  for j in 0..jobs {
    let (lo, hi) = (j * chunk, ((j + 1) * chunk).min(o.cases));
    if lo >= hi {
      break;
    }
    kids.push(spawn(lo, hi));
    ranges.push((lo, hi));
  }
  // drain all pipes concurrently so no worker blocks on a full pipe
  let readers: Vec<std::thread::JoinHandle<Vec<u8>>> = kids
    .iter_mut()
    .map(|k| {
      let mut out = k.stdout.take().unwrap();
      std::thread::spawn(move || {
        let mut buf = Vec::new();
        let _ = out.read_to_end(&mut buf);
        buf
      })
    })
    .collect();
  let stdout = std::io::stdout();
  let mut lock = stdout.lock();
  let mut rc = 0;
  for ((r, mut k), (lo, hi)) in readers.into_iter().zip(kids.into_iter()).zip(ranges.into_iter()) {
    let mut buf = r.join().unwrap_or_default();
    let mut status = k.wait();
    let mut lo = lo;
    loop {
      match &status {
        Ok(st) if st.success() => {
          let _ = lock.write_all(&buf);
          break;
        }
        Ok(st) if st.code().is_none() => {
          // killed by a signal (SIGSEGV / SIGABRT: memory unsafety reached by this case): keep the complete cases,
          // report the crashed one as a transcript block of its own, restart behind it
          let text = String::from_utf8_lossy(&buf).to_string();
          let done = text.lines().filter(|l| l.starts_with("#end")).count();
          let keep = match text.rfind("#end\n") {
            Some(i) => &text[..i + 5],
            None => "",
          };
          let _ = lock.write_all(keep.as_bytes());
          let crashed = lo + done;
          if crashed >= hi {
            break;
          }
          let c = make_case(o.seed, crashed, &o.mode, &o.tier, &o.flavours);
          let sig = {
            use std::os::unix::process::ExitStatusExt;
            format!("signal-{}", st.signal().unwrap_or(0))
          };
          eprintln!("chanh gen: worker died ({}) in case {}; continuing behind it", st, c.id);
          let _ = lock.write_all(
            format!(
              "{}\n{}\nS\nX crash:{}\n!monitor {}:crash:process-killed-by-signal | the worker process died while running this case ({}): memory unsafety in the code under test\n#end\n",
              c.header(),
              c.program_lines().join("\n"),
              sig,
              c.flavour,
              st
            )
            .as_bytes(),
          );
          lo = crashed + 1;
          if lo >= hi {
            break;
          }
          let mut k2 = spawn(lo, hi);
          let mut out = k2.stdout.take().unwrap();
          buf = Vec::new();
          let _ = out.read_to_end(&mut buf);
          status = k2.wait();
        }
        Ok(st) => {
          let _ = lock.write_all(&buf);
          eprintln!("chanh gen: worker exited with {}", st);
          rc = 1;
          break;
        }
        Err(e) => {
          let _ = lock.write_all(&buf);
          eprintln!("chanh gen: worker wait failed: {}", e);
          rc = 1;
          break;
        }
      }
    }
  }
  let _ = lock.flush();
  std::process::exit(rc);
}

/// Quick sanity: one basic round trip per flavour under a random schedule.
pub fn demo() {
  let stdout = std::io::stdout();
  let mut lock = stdout.lock();
  for (i, f) in FLAVOURS.iter().enumerate() {
    let ff = fl(f);
    let programs: Vec<Vec<Op>> = if ff.lock {
      let (a, b) = if *f == "mutex" { ("lock", "lock") } else { ("write", "read") };
      vec![
        vec![],
        vec![Op::new(&[a, "g1a"]), Op::new(&["unlock", "g1a"])],
        vec![Op::new(&[b, "g2a"]), Op::new(&["unlock", "g2a"])],
      ]
    } else if ff.oneshot {
      vec![vec![], vec![Op::new(&["send", "s0", "1"])], vec![Op::new(&["recv", "r0"]), Op::new(&["drop", "r0"])]]
    } else {
      vec![
        vec![],
        vec![Op::new(&["send", "s0", "1"]), Op::new(&["send", "s0", "2"]), Op::new(&["drop", "s0"])],
        vec![Op::new(&["recv", "r0"]), Op::new(&["recv", "r0"]), Op::new(&["recv", "r0"]), Op::new(&["drop", "r0"])],
      ]
    };
    let c = Case {
      id: format!("demo-{}", f),
      flavour: f.to_string(),
      cap: if ff.rdv || ff.unbounded || ff.oneshot || ff.lock { 0 } else { 1 },
      strategy: "rand".into(),
      seed: 100 + i as u64,
      mode: "conc".into(),
      programs,
      schedule: None,
      budget: 20_000,
      prefer: Vec::new(),
      atomics: false,
      fam: String::new(),
    };
    let _ = lock.write_all(crate::run_and_render(&c).as_bytes());
  }
}
