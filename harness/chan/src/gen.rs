//! Case generators and the `gen` mode driver.

pub fn main(_args: &[String]) {
  eprintln!("chanh gen: not implemented yet");
  std::process::exit(2);
}

pub fn demo() {}
