//! Harness-side monitors: evaluate the properties on the implementation's own
//! history, independent of any model. Each failure has a *specific* signature
//! `<flavour>:<form or site>:<shape>`.

use crate::exec::{Ev, RunResult};
use crate::prog::{parse_list, Case};
use std::collections::{BTreeMap, BTreeSet};

#[derive(Clone, Debug)]
struct LOp {
  tid: usize,
  form: String,
  handle: String,
  vals: Vec<u32>,
  n: usize,
  call: usize,
  ret: Option<usize>,
  res: Option<String>,
  fut: Option<String>,
  polled_pending: bool,
  /// event index of the first `poll` that returned pending
  first_pending: Option<usize>,
  cancelled: Option<usize>,
  cancel_woken: bool,
  /// handle was locally closed (own `close` returned ok) when the op was invoked
  closed_at_call: bool,
  converted_after_close: bool,
  all_receivers_gone_at_call: bool,
  all_senders_gone_at_call: bool,
  isolated: bool,
  /// flavour token for signatures: constructor flavour adjusted to the handle's CURRENT kind
  sfl: String,
  /// "" | "-after-conversion" | "-after-clone-of-closed-handle": the history already contains a
  /// closed handle that was converted / cloned (known defect families whose consequences are not re-reported plainly)
  taint: &'static str,
}

#[derive(Clone, Debug, Default)]
struct HState {
  side: char,
  is_async: bool,
  closed: bool,
  dropped: bool,
  converted_after_close: bool,
  disconnected_seen: Option<usize>,
  consumed: bool,
}

const SEND_FORMS: &[&str] = &[
  "send", "try_send", "send_batch", "try_send_batch", "send_batch_mut", "try_send_batch_mut", "send_fut", "send_batch_fut",
];
const RECV_FORMS: &[&str] = &[
  "recv", "try_recv", "recv_timeout0", "recv_timeout", "recv_batch", "try_recv_batch", "recv_batch_mut", "try_recv_batch_mut", "recv_fut",
  "recv_batch_fut",
];
const BLOCKING_SEND: &[&str] = &["send", "send_batch", "send_batch_mut"];
const BLOCKING_RECV: &[&str] = &["recv", "recv_batch", "recv_batch_mut"];

fn is_send(f: &str) -> bool {
  SEND_FORMS.contains(&f)
}
fn is_recv(f: &str) -> bool {
  RECV_FORMS.contains(&f)
}

/// values named inside a result token: `ok:5`, `ok:[1,2]`, `out=[..]`, `unsent=[..]`, `left=[..]`, `err:full:5`
fn field_list(res: &str, key: &str) -> Option<Vec<u32>> {
  let i = res.find(key)?;
  let rest = &res[i + key.len()..];
  let end = rest.find(']')?;
  Some(parse_list(&rest[..=end]))
}

fn received_values(res: &str) -> Vec<u32> {
  if let Some(v) = field_list(res, "out=") {
    return v;
  }
  if let Some(r) = res.strip_prefix("ok:") {
    if r.starts_with('[') {
      return parse_list(r);
    }
    if let Ok(v) = r.parse::<u32>() {
      return vec![v];
    }
  }
  Vec::new()
}

/// (sent ok, handed back, consumed-without-return, partition_ok)
fn send_outcome(form: &str, vals: &[u32], res: &str) -> (Vec<u32>, Vec<u32>, Vec<u32>, bool) {
  let single = matches!(form, "send" | "try_send" | "send_fut");
  if single {
    let v = vals.first().copied().unwrap_or(0);
    if res == "ok" {
      return (vec![v], vec![], vec![], true);
    }
    // err:full:5 / err:closed:5 / err:sent:5 hand the value back; err:closed does not
    let parts: Vec<&str> = res.split(':').collect();
    if parts.len() == 3 {
      let back: u32 = parts[2].parse().unwrap_or(u32::MAX);
      return (vec![], vec![back], vec![], back == v);
    }
    return (vec![], vec![], vec![v], true);
  }
  if let Some(r) = res.strip_prefix("n:") {
    let k: usize = r.split(':').next().unwrap_or("0").parse().unwrap_or(0);
    let k = k.min(vals.len());
    if let Some(left) = field_list(res, "left=") {
      let ok = left == vals[k..];
      return (vals[..k].to_vec(), left, vec![], ok);
    }
    let ok = r.split(':').next().unwrap_or("0").parse::<usize>().ok() == Some(vals.len());
    return (vals[..k].to_vec(), vec![], vec![], ok);
  }
  if let Some(unsent) = field_list(res, "unsent=") {
    let sent = field_list(res, "sent=").unwrap_or_default();
    let ok = sent.len() + unsent.len() == vals.len() && vals[..sent.len().min(vals.len())] == sent[..] && vals[sent.len().min(vals.len())..] == unsent[..];
    return (sent, unsent, vec![], ok);
  }
  if let Some(left) = field_list(res, "left=") {
    let k = vals.len().saturating_sub(left.len());
    let ok = vals[k..] == left[..];
    return (vals[..k].to_vec(), left, vec![], ok);
  }
  (vec![], vec![], vals.to_vec(), true)
}

pub fn check(case: &Case, res: &RunResult, status: &str) -> Vec<(String, String)> {
  let mut out: Vec<(String, String)> = Vec::new();
  let fl = case.flavour.as_str();
  let is_lock = fl == "mutex" || fl == "rwlock";
  let mut fire = |sig: String, msg: String| {
    if !out.iter().any(|(s, _)| *s == sig) {
      out.push((sig, msg));
    }
  };
  if res.invalid.is_some() {
    return out;
  }
  let evs = &res.events;
  if is_lock {
    check_locks(fl, evs, status, &mut fire);
    return out;
  }
  let spmc = fl.starts_with("spmc");
  let rdv = fl.starts_with("rdv_");
  let oneshot = fl == "oneshot";
  let cap: Option<usize> = if oneshot {
    Some(1)
  } else if rdv || fl.contains("_u") {
    None
  } else {
    Some(case.cap)
  };

  // ------------------------------------------------------------ pass 1: logical ops + handle states
  let mut hs: BTreeMap<String, HState> = BTreeMap::new();
  let base_fl = fl.trim_end_matches("_async").to_string();
  let ctor_async = fl.ends_with("_async");
  hs.insert("s0".into(), HState { side: 's', is_async: ctor_async, ..Default::default() });
  hs.insert("r0".into(), HState { side: 'r', is_async: ctor_async, ..Default::default() });
  let mut taint: &'static str = "";
  let sig_fl = |h: Option<&HState>| -> String {
    match h {
      Some(h) if !oneshot => if h.is_async { format!("{}_async", base_fl) } else { base_fl.clone() },
      _ => fl.to_string(),
    }
  };
  let mut ops: Vec<LOp> = Vec::new();
  let mut pending: BTreeMap<usize, usize> = BTreeMap::new(); // tid -> index into ops (direct op in flight)
  let mut raw_pending: BTreeMap<usize, (usize, crate::prog::Op)> = BTreeMap::new();
  let mut futs: BTreeMap<String, usize> = BTreeMap::new(); // live future name -> ops index
  let mut inflight: BTreeSet<usize> = BTreeSet::new(); // tids with a direct op in flight
  let mut foreign_event: BTreeMap<usize, bool> = BTreeMap::new(); // tid -> another thread acted during its op
  // shared handles: event index of the first `close h` INVOKED per handle (its flag may be set from then on, before
  // the close returns: operations of other threads on that handle then answer as on a closed handle)
  let mut close_called: BTreeMap<String, usize> = BTreeMap::new();
  // sender handles: event at which the handle exists (0 / return of its `clone`) and the first event at which an
  // operation that ends its life was INVOKED (`close`, `drop`, oneshot `send`)
  let mut s_born: BTreeMap<String, usize> = BTreeMap::new();
  let mut s_gone: BTreeMap<String, usize> = BTreeMap::new();
  s_born.insert("s0".into(), 0);

  let gone = |hs: &BTreeMap<String, HState>, side: char| {
    // a closed handle that was converted afterwards is in an unknown state (known defect family:
    // conversions reset the flag): draw no "everybody is gone" conclusions from it
    hs.values().filter(|h| h.side == side).all(|h| !h.converted_after_close && (h.closed || h.dropped || h.consumed))
  };

  for (i, e) in evs.iter().enumerate() {
    match e {
      Ev::Call { tid, op } => {
        for (t, f) in foreign_event.iter_mut() {
          if t != tid {
            *f = true;
          }
        }
        raw_pending.insert(*tid, (i, op.clone()));
        if op.name() == "close" {
          close_called.entry(op.arg(1).to_string()).or_insert(i);
        }
        if matches!(op.name(), "close" | "drop") || (oneshot && op.name() == "send") {
          s_gone.entry(op.arg(1).to_string()).or_insert(i);
        }
        let form = op.form().to_string();
        let direct = op.name() != "fut" && (is_send(&form) || is_recv(&form));
        if direct || op.name() == "fut" {
          let hn = op.h().to_string();
          let st = hs.get(&hn).cloned().unwrap_or_default();
          let lop = LOp {
            tid: *tid,
            form: form.clone(),
            handle: hn,
            vals: if is_send(&form) {
              if form.contains("batch") { op.vals() } else { vec![op.v0()] }
            } else {
              vec![]
            },
            n: if is_recv(&form) && form.contains("batch") { op.n() } else { 0 },
            call: i,
            ret: None,
            res: None,
            fut: if op.name() == "fut" { Some(op.arg(1).to_string()) } else { None },
            polled_pending: false,
            first_pending: None,
            cancelled: None,
            cancel_woken: false,
            closed_at_call: st.closed,
            converted_after_close: st.converted_after_close,
            all_receivers_gone_at_call: gone(&hs, 'r'),
            all_senders_gone_at_call: gone(&hs, 's'),
            isolated: inflight.iter().all(|t| t == tid),
            sfl: sig_fl(hs.get(op.h())),
            taint,
          };
          ops.push(lop);
          if direct {
            pending.insert(*tid, ops.len() - 1);
            foreign_event.insert(*tid, false);
          }
        }
        inflight.insert(*tid);
      }
      Ev::Ret { tid, res: r, .. } => {
        for (t, f) in foreign_event.iter_mut() {
          if t != tid {
            *f = true;
          }
        }
        inflight.remove(tid);
        let Some((_ci, op)) = raw_pending.remove(tid) else { continue };
        if let Some(k) = pending.remove(tid) {
          ops[k].ret = Some(i);
          ops[k].res = Some(r.clone());
          if foreign_event.remove(tid).unwrap_or(false) {
            ops[k].isolated = false;
          }
          if oneshot && ops[k].form == "send" && r != "unsupported" && !r.starts_with("invalid") {
            if let Some(h) = hs.get_mut(&ops[k].handle) {
              h.consumed = true;
            }
          }
        }
        let ok = r == "ok" || r.starts_with("ok:");
        match op.name() {
          "fut" => {
            if ok {
              futs.insert(op.arg(1).to_string(), ops.len() - 1);
            } else {
              ops.pop();
            }
          }
          "poll" => {
            if let Some(&k) = futs.get(op.arg(1)) {
              if let Some(rr) = r.strip_prefix("ready:") {
                ops[k].ret = Some(i);
                ops[k].res = Some(rr.to_string());
                futs.remove(op.arg(1));
              } else if r == "pending" {
                ops[k].polled_pending = true;
                ops[k].first_pending.get_or_insert(i);
              }
            }
          }
          "dropfut" | "drop" if futs.contains_key(op.arg(1)) => {
            let k = futs.remove(op.arg(1)).unwrap();
            ops[k].cancelled = Some(i);
            ops[k].cancel_woken = r == "ok:woken";
          }
          "drop" if ok => {
            if let Some(h) = hs.get_mut(op.arg(1)) {
              h.dropped = true;
            }
          }
          "close" => {
            if let Some(h) = hs.get_mut(op.arg(1)) {
              if ok {
                if h.closed {
                  let sf = if h.is_async { format!("{}_async", base_fl) } else { base_fl.clone() };
                  let suffix = if h.converted_after_close { "-after-conversion" } else { "" };
                  fire(format!("{}:close:second-close-ok{}", if oneshot { fl.to_string() } else { sf }, suffix), format!("close {} returned ok twice (event {})", op.arg(1), i));
                }
                h.closed = true;
              }
            }
          }
          "clone" if ok => {
            let (side, is_async, was_closed) = hs.get(op.arg(1)).map(|h| (h.side, h.is_async, h.closed)).unwrap_or(('s', false, false));
            if was_closed && taint.is_empty() {
              taint = "-after-clone-of-closed-handle";
            }
            hs.insert(op.arg(2).to_string(), HState { side, is_async, ..Default::default() });
            if side == 's' {
              s_born.insert(op.arg(2).to_string(), i);
            }
          }
          "to_async" | "to_sync" if ok => {
            if let Some(h) = hs.get_mut(op.arg(1)) {
              h.is_async = op.name() == "to_async";
              if h.closed {
                h.converted_after_close = true;
                taint = "-after-conversion";
              }
            }
          }
          "len" => {
            if let (Some(c), Some(n)) = (cap, r.strip_prefix("n:").and_then(|x| x.parse::<usize>().ok())) {
              if n > c {
                fire(format!("{}:len:exceeds-capacity", fl), format!("len {} = {} > capacity {} (event {})", op.arg(1), n, c, i));
              }
            }
          }
          _ => {}
        }
      }
      Ev::Panic { tid, .. } => {
        inflight.remove(tid);
      }
    }
  }

  // ------------------------------------------------------------ pass 2: value accounting
  // offered: value -> op index ; outcomes from completed ops
  let mut offered: BTreeMap<u32, usize> = BTreeMap::new();
  let mut sent_ok: BTreeMap<u32, (usize, usize)> = BTreeMap::new(); // v -> (ret idx, op idx)
  let mut returned: BTreeSet<u32> = BTreeSet::new();
  let mut failed: BTreeSet<u32> = BTreeSet::new();
  let mut recv_by: BTreeMap<u32, Vec<usize>> = BTreeMap::new(); // v -> op idxs that returned it
  for (k, o) in ops.iter().enumerate() {
    if is_send(&o.form) {
      for v in &o.vals {
        offered.insert(*v, k);
      }
      if let (Some(r), Some(ri)) = (&o.res, o.ret) {
        let (s, b, f, part_ok) = send_outcome(&o.form, &o.vals, r);
        if !part_ok {
          fire(
            format!("{}:{}:error-does-not-return-the-unsent-input", o.sfl, o.form),
            format!("{} {:?} => {} does not partition its input (event {})", o.form, o.vals, r, ri),
          );
        }
        for v in s {
          sent_ok.insert(v, (ri, k));
        }
        returned.extend(b);
        failed.extend(f);
      } else if o.cancelled.is_some() {
        failed.extend(o.vals.iter().copied());
      }
    }
  }
  for (k, o) in ops.iter().enumerate() {
    if is_recv(&o.form) {
      if let Some(r) = &o.res {
        for v in received_values(r) {
          recv_by.entry(v).or_default().push(k);
        }
      }
    }
  }
  // C01: received values were sent, at most once, never also handed back
  for (v, ks) in &recv_by {
    let k0 = ks[0];
    let at = ops[k0].ret.unwrap_or(0);
    if !offered.contains_key(v) {
      fire(format!("{}:{}:value-never-sent", ops[k0].sfl, ops[k0].form), format!("received value {} that no send offered (event {})", v, at));
      continue;
    }
    if returned.contains(v) {
      let sf = &ops[offered[v]].form;
      fire(
        format!("{}:{}:value-returned-in-error-and-received", ops[offered[v]].sfl, sf),
        format!("value {} was handed back by {} and also received (event {})", v, sf, at),
      );
    }
    if !spmc && ks.len() > 1 {
      fire(format!("{}:{}:value-received-twice", ops[ks[1]].sfl, ops[ks[1]].form), format!("value {} received {} times", v, ks.len()));
    }
    if spmc {
      let mut seen: BTreeSet<&str> = BTreeSet::new();
      for k in ks {
        if !seen.insert(ops[*k].handle.as_str()) {
          // a stale cursor (receiver cloned from / converted out of a closed, unregistered receiver: SpmcB-N1 / N2)
          // re-reads slots: named as a consequence of that defect
          fire(format!("{}:{}:value-received-twice-by-one-receiver{}", ops[*k].sfl, ops[*k].form, ops[*k].taint), format!("value {} twice on {}", v, ops[*k].handle));
        }
      }
    }
  }

  // C02 / C07: order
  {
    // producer order: per sender handle, offered values in program order
    let mut prod_pos: BTreeMap<u32, (String, usize)> = BTreeMap::new();
    let mut counters: BTreeMap<String, usize> = BTreeMap::new();
    // program order of a producer = order in which its sends take effect: invocation order for direct
    // calls, completion order for manually polled futures (creation does nothing)
    let mut sends: Vec<&LOp> = ops.iter().filter(|o| is_send(&o.form)).collect();
    sends.sort_by_key(|o| if o.fut.is_some() { o.ret.unwrap_or(usize::MAX) } else { o.call });
    for o in sends {
      // a manually polled BATCH future that was Pending at least once (or was dropped) hands its values over
      // across several polls: when each took effect is not observable from the call/return log, so its
      // values are left out of the per-producer order judgement (single-value futures and direct calls stay)
      if o.fut.is_some() && o.vals.len() > 1 && (o.polled_pending || o.cancelled.is_some()) {
        continue;
      }
      // likewise a send future that never returned Ready (dropped, or simply not polled again: a rendezvous
      // receiver may have taken its value from the registered waiter long before), and any rendezvous send
      // future that was Pending once (the hand-off happens at the RECEIVER's time, not at the completing poll)
      if o.fut.is_some() && (o.ret.is_none() || (rdv && o.polled_pending)) {
        continue;
      }
      for v in &o.vals {
        // broadcast contiguity is judged on the values that were actually sent
        if spmc && !sent_ok.contains_key(v) {
          continue;
        }
        let c = counters.entry(o.handle.clone()).or_insert(0);
        prod_pos.insert(*v, (o.handle.clone(), *c));
        *c += 1;
      }
    }
    let mut per_recv: BTreeMap<String, Vec<(u32, usize, &'static str)>> = BTreeMap::new();
    let mut rops: Vec<&LOp> = ops.iter().filter(|o| is_recv(&o.form) && o.ret.is_some()).collect();
    rops.sort_by_key(|o| o.ret.unwrap());
    // a manually polled receive future that overlaps other receives on the same handle has no defined
    // position in that handle's program order: leave it out of the order check
    let overlapped = |o: &LOp| {
      o.fut.is_some() && ops.iter().any(|p| is_recv(&p.form) && p.handle == o.handle && p.call > o.call && p.call < o.ret.unwrap_or(usize::MAX))
    };
    // handles with such a left-out future: contiguity (gap) is not judged on them, order still is
    let mut holes: BTreeSet<String> = BTreeSet::new();
    for o in rops {
      if overlapped(o) {
        holes.insert(o.handle.clone());
        continue;
      }
      for v in received_values(o.res.as_ref().unwrap()) {
        per_recv.entry(o.handle.clone()).or_default().push((v, o.ret.unwrap(), o.taint));
      }
    }
    for (rh, seq) in &per_recv {
      let mut last: BTreeMap<&str, (usize, u32)> = BTreeMap::new();
      for (v, at, taint) in seq {
        if let Some((ph, pos)) = prod_pos.get(v) {
          if let Some((lp, lv)) = last.get(ph.as_str()) {
            if *pos < *lp {
              // broadcast: a receiver cloned from a closed (unregistered) receiver starts at the parent's stale
              // cursor and reads overwritten slots (SpmcB-N1): a consequence of that defect, named as such
              fire(
                format!("{}:order:per-producer-fifo-violated{}", fl, if spmc { *taint } else { "" }),
                format!("receiver {} got {} after {} but producer {} sent {} first (event {})", rh, v, lv, ph, v, at),
              );
            } else if spmc && *pos != *lp + 1 && !holes.contains(rh) {
              fire(
                format!("{}:order:broadcast-sequence-gap{}", fl, *taint),
                format!("receiver {} got {} right after {}: not contiguous in the sent sequence (event {})", rh, v, lv, at),
              );
            }
          }
          last.insert(ph.as_str(), (*pos, *v));
        }
      }
    }
  }

  // C03 (broadcast): the sender is held back by every live receiver: when a send of the value at position p of
  // the sent sequence has RETURNED ok, a receiver that was registered (created before that send was invoked) and is
  // not closed/dropped (close/drop invoked only after that return, or never) must already have TAKEN position
  // p − cap — by a receive invoked before the send returned (the cursor store of that receive is what made room).
  // A clone's start position is the first position it ever received (unknown if it never received anything).
  if let (Some(c), true) = (cap, spmc && taint.is_empty()) {
    let mut pos: BTreeMap<u32, usize> = BTreeMap::new();
    let mut seq: Vec<(u32, usize, usize)> = Vec::new(); // (value, send call, send ret) in send order
    let mut sends: Vec<&LOp> = ops.iter().filter(|o| is_send(&o.form) && o.ret.is_some()).collect();
    sends.sort_by_key(|o| if o.fut.is_some() { o.ret.unwrap_or(usize::MAX) } else { o.call });
    for o in sends {
      for v in &o.vals {
        if sent_ok.contains_key(v) {
          pos.insert(*v, seq.len());
          seq.push((*v, if o.fut.is_some() { o.first_pending.unwrap_or(o.call) } else { o.call }, o.ret.unwrap()));
        }
      }
    }
    // receiver lifetimes: (created-at event, closed/dropped-at call event)
    let mut life: BTreeMap<String, (usize, usize)> = BTreeMap::new();
    life.insert("r0".into(), (0, usize::MAX));
    let mut calls: BTreeMap<usize, (usize, crate::prog::Op)> = BTreeMap::new();
    for (i, e) in evs.iter().enumerate() {
      match e {
        Ev::Call { tid, op } => {
          if matches!(op.name(), "close" | "drop" | "to_async" | "to_sync") {
            if let Some(l) = life.get_mut(op.arg(1)) {
              l.1 = l.1.min(i);
            }
          }
          calls.insert(*tid, (i, op.clone()));
        }
        Ev::Ret { tid, res: r, .. } => {
          if let Some((_, op)) = calls.remove(tid) {
            if op.name() == "clone" && r == "ok" && op.arg(1).starts_with('r') {
              life.insert(op.arg(2).to_string(), (i, usize::MAX));
            }
          }
        }
        _ => {}
      }
    }
    'outer: for (rh, (born, gone_at)) in &life {
      // positions this receiver took: position -> call event of the receive that returned it
      let mut took: BTreeMap<usize, usize> = BTreeMap::new();
      for o in ops.iter().filter(|o| is_recv(&o.form) && &o.handle == rh && o.ret.is_some()) {
        for v in received_values(o.res.as_ref().unwrap()) {
          if let Some(p) = pos.get(&v) {
            let at = if o.fut.is_some() { o.first_pending.unwrap_or(o.call) } else { o.call };
            took.entry(*p).or_insert(at);
          }
        }
      }
      let start = if rh == "r0" { Some(0) } else { took.keys().next().copied() };
      let Some(start) = start else { continue };
      for (p, (v, scall, sret)) in seq.iter().enumerate() {
        if p < c || p - c < start || *born >= *scall || *gone_at <= *sret {
          continue;
        }
        let q = p - c;
        if took.get(&q).map_or(true, |at| *at > *sret) {
          fire(
            format!("{}:occupancy:send-completed-over-unread-value", fl),
            format!("send of value {} (position {}) returned ok (event {}) while live receiver {} had not taken position {} (value {}), capacity {}", v, p, sret, rh, q, seq[q].0, c),
          );
          break 'outer;
        }
      }
    }
  }

  // C03: occupancy lower bound = completed sends − receives already invoked
  if let (Some(c), false) = (cap, spmc) {
    let mut deltas: Vec<(usize, i64)> = Vec::new();
    for (v, (ri, _)) in &sent_ok {
      deltas.push((*ri, 1));
      if let Some(ks) = recv_by.get(v) {
        deltas.push((ops[ks[0]].call, -1));
      }
    }
    deltas.sort();
    let mut lb: i64 = 0;
    for (at, d) in deltas {
      lb += d;
      if lb > c as i64 {
        fire(
          format!("{}:occupancy:completed-sends-exceed-capacity", fl),
          format!("{} values sent-ok and not yet being received with capacity {} (event {})", lb, c, at),
        );
        break;
      }
    }
  }

  // C04 per-op checks
  let first_closed_accept: Option<usize> = ops
    .iter()
    .filter(|o| o.closed_at_call && (is_send(&o.form) || is_recv(&o.form)))
    .filter(|o| match &o.res {
      Some(r) => !(r.starts_with("err:closed") || r.starts_with("err:disconnected") || r == "unsupported" || r.starts_with("invalid")),
      None => true,
    })
    .map(|o| o.call)
    .min();
  {
    let tn = |o: &LOp| -> &'static str {
      if !o.taint.is_empty() {
        o.taint
      } else if first_closed_accept.map_or(false, |c| c < o.ret.unwrap_or(usize::MAX)) {
        "-after-closed-handle-accepted"
      } else {
        ""
      }
    };
    let mut disc_seen: BTreeMap<String, usize> = BTreeMap::new();
    let mut by_ret: Vec<&LOp> = ops.iter().filter(|o| o.ret.is_some()).collect();
    by_ret.sort_by_key(|o| o.ret.unwrap());
    for o in by_ret {
      let r = o.res.as_ref().unwrap();
      let at = o.ret.unwrap();
      if r == "unsupported" || r.starts_with("invalid") {
        continue;
      }
      let zero = (is_send(&o.form) && o.form.contains("batch") && o.vals.is_empty()) || (is_recv(&o.form) && o.form.contains("batch") && o.n == 0);
      if o.closed_at_call && zero {
        // zero-size request on a closed handle: either answer (n:0 or the closed error) is acceptable, and no
        // other conclusion is drawn from it
        continue;
      }
      if o.closed_at_call && !zero {
        let want = if is_send(&o.form) { "err:closed" } else { "err:disconnected" };
        if !r.starts_with(want) {
          let suffix = if o.converted_after_close { "-after-conversion" } else { "" };
          fire(
            format!("{}:{}:closed-handle-accepted{}", o.sfl, o.form, suffix),
            format!("{} on {} after its close() returned {} (event {})", o.form, o.handle, r, at),
          );
        }
        continue;
      }
      if is_send(&o.form) && o.all_receivers_gone_at_call && !spmc && !zero && !r.starts_with("err:closed") {
        fire(
          format!("{}:{}:accepted-after-all-receivers-gone{}", o.sfl, o.form, tn(o)),
          format!("{} on {} returned {} although every receiver was closed/dropped (event {})", o.form, o.handle, r, at),
        );
      }
      if is_recv(&o.form) {
        if let Some(d) = disc_seen.get(&o.handle).filter(|d| o.call > **d) {
          if !received_values(r).is_empty() {
            fire(
              format!("{}:{}:value-after-disconnected{}", o.sfl, o.form, tn(o)),
              format!("{} returned {} after {} had observed Disconnected at event {} (event {})", o.handle, r, o.handle, d, at),
            );
          } else if r.starts_with("err:empty") || r.starts_with("err:timeout") {
            fire(
              format!("{}:{}:not-disconnected-after-disconnected{}", o.sfl, o.form, tn(o)),
              format!("{} returned {} after it had observed Disconnected at event {} (event {})", o.handle, r, d, at),
            );
          }
        }
        if r.starts_with("err:disconnected") {
          // nothing disconnects while a handle of the other side is alive: a sender handle that existed before this
          // receive was invoked and on which no close / drop (oneshot: send) had even been invoked when it returned
          if tn(o).is_empty() && close_called.get(&o.handle).map_or(true, |c| *c > at) {
            if let Some((sh, _)) = s_born.iter().find(|(h, b)| **b <= o.call && s_gone.get(*h).map_or(true, |g| *g > at)) {
              fire(
                format!("{}:{}:disconnected-while-sender-alive", o.sfl, o.form),
                format!("{} returned Disconnected on {} although sender handle {} was alive and open during the whole call (event {})", o.form, o.handle, sh, at),
              );
            }
          }
          disc_seen.entry(o.handle.clone()).or_insert(at);
          // drain-then-Disconnected: every send that completed before this op was invoked must be received
          // (not judged when a close of this very handle had been invoked by then: the answer of a closed handle)
          if !spmc && !rdv && close_called.get(&o.handle).map_or(true, |c| *c > at) {
            for (v, (ri, sk)) in &sent_ok {
              // still buffered when Disconnected was returned: sent before, and received (if ever) only by an
              // operation invoked afterwards
              let later_or_never = recv_by.get(v).map_or(true, |ks| ks.iter().all(|k| ops[*k].call > at));
              if *ri < at && later_or_never {
                fire(
                  format!("{}:{}:disconnected-before-drain{}", o.sfl, o.form, tn(o)),
                  format!("{} returned Disconnected while value {} ({} ok at event {}) was still buffered (event {})", o.handle, v, ops[*sk].form, ri, at),
                );
                break;
              }
            }
          }
        }
        // sequential expectation when the op ran alone
        if o.isolated && o.all_senders_gone_at_call && !spmc && r.starts_with("err:empty") {
          fire(
            format!("{}:{}:empty-after-all-senders-gone{}", o.sfl, o.form, tn(o)),
            format!("{} returned Empty although every sender was closed/dropped (event {})", o.handle, at),
          );
        }
      }
    }
  }

  for o in ops.iter().filter(|o| o.fut.is_some() && o.closed_at_call && o.polled_pending && o.ret.is_none()) {
    let suffix = if o.converted_after_close { "-after-conversion" } else { "" };
    fire(
      format!("{}:{}:closed-handle-blocks{}", o.sfl, o.form, suffix),
      format!("future {} ({} on {}) created after the handle's close() returned Pending", o.fut.as_deref().unwrap_or("?"), o.form, o.handle),
    );
  }

  let complete = status == "ok";
  // C01 (rendezvous): an ok send means a receiver has the value
  // (also judged at a deadlock: a parked rendezvous receive holds no value)
  if rdv && (complete || status.starts_with("deadlock")) {
    for (v, (ri, sk)) in &sent_ok {
      if !recv_by.contains_key(v) {
        let s = &ops[*sk];
        let timed = ops.iter().any(|o| (o.form == "recv_timeout0" || o.form == "recv_timeout") && o.res.as_deref() == Some("err:timeout") && o.call < *ri && o.ret.unwrap_or(usize::MAX) > s.call);
        let dropped = ops.iter().any(|o| o.form == "recv_fut" && o.cancelled.is_some() && o.call < *ri);
        let shape = if timed { ":timed-recv-cancel-race" } else if dropped { ":dropped-recv-future-race" } else { "" };
        // an abandoned run (deadlock: no teardown) may leave a manual-poll recv future that was Pending when the
        // sender handed the value over and that the program never polled again: the value sits in that future,
        // which is a receive in progress, not a lost value
        if !complete && ops.iter().any(|o| (o.form == "recv_fut" || o.form == "recv_batch_fut") && o.polled_pending && o.ret.is_none() && o.cancelled.is_none() && o.call < *ri) {
          continue;
        }
        fire(
          format!("{}:{}:ok-value-never-received{}", s.sfl, s.form, shape),
          format!("{} of value {} returned ok (event {}) but no receive ever returned it", s.form, v, ri),
        );
      }
    }
  }

  // C05 / C06: blocked although enabled (quiescent deadlock)
  if status.starts_with("deadlock") {
    let unreceived: Vec<u32> = sent_ok.keys().filter(|v| !recv_by.contains_key(v)).copied().collect();
    let pend: Vec<&LOp> = ops.iter().filter(|o| o.ret.is_none() && o.fut.is_none()).collect();
    let pending_batch_room: usize = pend.iter().filter(|o| is_send(&o.form) && o.form.contains("batch")).map(|o| o.vals.len()).sum::<usize>()
      + ops.iter().filter(|o| o.form == "send_batch_fut" && o.ret.is_none() && o.polled_pending).map(|o| o.vals.len()).sum::<usize>();
    let senders_gone = gone(&hs, 's');
    let receivers_gone = gone(&hs, 'r');
    for o in &pend {
      let (polls, wakes) = res.stats.get(o.tid).copied().unwrap_or((0, 0));
      let extra = format!("thread {} polls={} wakes={}", o.tid, polls, wakes);
      if o.closed_at_call {
        let suffix = if o.converted_after_close { "-after-conversion" } else { "" };
        fire(
          format!("{}:{}:closed-handle-blocks{}", o.sfl, o.form, suffix),
          format!("{} on {} after its close() never returned; {}", o.form, o.handle, extra),
        );
        continue;
      }
      if BLOCKING_RECV.contains(&o.form.as_str()) {
        if !spmc && !rdv && !unreceived.is_empty() {
          fire(
            format!("{}:{}:blocked-with-item-available", o.sfl, o.form),
            format!("{} on {} never returned although value(s) {:?} were sent ok and never received; {}", o.form, o.handle, unreceived, extra),
          );
        } else if senders_gone {
          fire(
            format!("{}:{}:blocked-after-all-senders-gone{}", o.sfl, o.form, o.taint),
            format!("{} on {} never returned although every sender was closed/dropped; {}", o.form, o.handle, extra),
          );
        }
      }
      if BLOCKING_SEND.contains(&o.form.as_str()) {
        if receivers_gone && !spmc {
          fire(
            format!("{}:{}:blocked-after-all-receivers-gone{}", o.sfl, o.form, o.taint),
            format!("{} on {} never returned although every receiver was closed/dropped; {}", o.form, o.handle, extra),
          );
        } else if let (Some(c), false, "send") = (cap, spmc, o.form.as_str()) {
          // (a parked batch send may already have pushed part of its batch: not judged)
          let ub = unreceived.len() + pending_batch_room;
          if ub + 1 <= c && !oneshot {
            fire(
              format!("{}:{}:blocked-with-space-available", o.sfl, o.form),
              format!("{} on {} never returned although at most {} of {} slots are occupied; {}", o.form, o.handle, ub, c, extra),
            );
          }
        } else if rdv && pend.iter().any(|p| BLOCKING_RECV.contains(&p.form.as_str())) {
          fire(
            format!("{}:{}:blocked-with-receiver-waiting", o.sfl, o.form),
            format!("{} on {} and a blocking receive are both parked; {}", o.form, o.handle, extra),
          );
        }
      }
    }
  }

  // C06 manual-poll: a pending, enabled future that was not woken. Only for
  // purely sequential programs (exact accounting).
  if case.threads() == 0 {
    let mut swallowed = false;
    // walk the raw events for `wakes f` probes and teardown drops
    let mut calls: BTreeMap<usize, crate::prog::Op> = BTreeMap::new();
    for (i, e) in evs.iter().enumerate() {
      match e {
        Ev::Call { tid, op } => {
          calls.insert(*tid, op.clone());
        }
        Ev::Ret { tid, res: r, aux } => {
          let Some(op) = calls.remove(tid) else { continue };
          let probe = match op.name() {
            "wakes" if r == "n:0" => true,
            "drop" | "dropfut" if r == "ok" => true,
            _ => false,
          };
          if matches!(op.name(), "drop" | "dropfut") && r == "ok:woken" {
            swallowed = true;
          }
          if !probe {
            continue;
          }
          let Some(o) = ops.iter().find(|o| o.fut.as_deref() == Some(op.arg(1)) && o.call < i && o.ret.map_or(true, |x| x > i) && o.cancelled.map_or(true, |x| x >= i)) else {
            continue;
          };
          if !o.first_pending.map_or(false, |fp| fp < i) || o.form.contains("batch") {
            continue;
          }
          // batch send futures that were polled and did not complete may have pushed part of their batch
          let partial: usize = ops
            .iter()
            .filter(|p| p.form == "send_batch_fut" && p.first_pending.map_or(false, |fp| fp < i) && p.ret.map_or(true, |x| x > i))
            .map(|p| p.vals.len())
            .sum();
          // state at event i
          let sent_now: Vec<u32> = sent_ok.iter().filter(|(_, (ri, _))| *ri < i).map(|(v, _)| *v).collect();
          let unrecv: Vec<u32> = sent_now
            .iter()
            .filter(|v| recv_by.get(v).map_or(true, |ks| ks.iter().all(|k| ops[*k].ret.unwrap_or(usize::MAX) > i)))
            .copied()
            .collect();
          let shape = if swallowed { ":after-woken-future-dropped" } else { "" };
          // wakes owed to other live futures of the same direction (wake-one went to them)
          let owed = aux
            .split(',')
            .filter_map(|kv| kv.split_once('='))
            .filter(|(n, w)| {
              *w != "0" && ops.iter().any(|p| p.fut.as_deref() == Some(*n) && p.form.starts_with(&o.form[..4]) && p.call < i && p.ret.map_or(true, |x| x > i) && p.cancelled.map_or(true, |x| x > i))
            })
            .count();
          if o.form.starts_with("recv") && !spmc && !rdv && unrecv.len() > owed {
            fire(
              format!("{}:{}:pending-enabled-not-woken{}", o.sfl, o.form, shape),
              format!("future {} ({} on {}) is Pending with 0 wakes while value(s) {:?} are available (event {})", op.arg(1), o.form, o.handle, unrecv, i),
            );
          }
          if o.form.starts_with("send") && !spmc {
            if let Some(c) = cap {
              if unrecv.len() + partial + 1 + owed <= c && !rdv {
                fire(
                  format!("{}:{}:pending-enabled-not-woken{}", o.sfl, o.form, shape),
                  format!("future {} ({} on {}) is Pending with 0 wakes while only {} of {} slots are occupied (event {})", op.arg(1), o.form, o.handle, unrecv.len(), c, i),
                );
              }
            }
          }
        }
        _ => {}
      }
    }
  }

  // C09: drop counters after full teardown
  if complete {
    for (id, created, dropped) in &res.drops {
      let cat = if recv_by.contains_key(id) {
        "received"
      } else if returned.contains(id) {
        "returned"
      } else if sent_ok.contains_key(id) {
        "buffered"
      } else if failed.contains(id) {
        "failed-send"
      } else {
        "other"
      };
      if dropped < created {
        fire(
          format!("{}:drop:{}-value-leaked", fl, cat),
          format!("value {} created {} time(s), dropped {} time(s) after teardown", id, created, dropped),
        );
      } else if dropped > created {
        fire(
          format!("{}:drop:{}-value-dropped-twice", fl, cat),
          format!("value {} created {} time(s), dropped {} time(s) after teardown", id, created, dropped),
        );
      }
    }
  }
  if status.starts_with("panic:") {
    // the never-returned op of the thread that panicked (status = panic:<tid>:<msg>), else the first one
    let ptid = status.splitn(3, ':').nth(1).and_then(|t| t.parse::<usize>().ok());
    let pend1 = ops
      .iter()
      .find(|o| o.ret.is_none() && o.fut.is_none() && Some(o.tid) == ptid)
      .or_else(|| ops.iter().find(|o| o.ret.is_none() && o.fut.is_none()));
    let site = pend1.map(|o| o.form.clone()).unwrap_or_else(|| "teardown".into());
    let fl = pend1.map(|o| o.sfl.as_str()).unwrap_or(fl);
    let msg = status.splitn(3, ':').nth(2).unwrap_or("");
    let short: String = msg.chars().take(60).collect();
    fire(format!("{}:{}:panic:{}", fl, site, short), format!("operation panicked: {}", status));
  }
  out
}

fn check_locks(fl: &str, evs: &[Ev], status: &str, fire: &mut dyn FnMut(String, String)) {
  let mut calls: BTreeMap<usize, crate::prog::Op> = BTreeMap::new();
  let mut held = 0usize;
  for (i, e) in evs.iter().enumerate() {
    match e {
      Ev::Call { tid, op } => {
        calls.insert(*tid, op.clone());
      }
      Ev::Ret { tid, res, .. } => {
        let Some(op) = calls.remove(tid) else { continue };
        if res.contains("coexist") {
          fire(format!("{}:{}:guard-coexistence", fl, op.form()), format!("{} => {} (event {})", op.text(), res, i));
        }
        if res == "ok" || res == "ready:ok" {
          match op.name() {
            "unlock" | "unread" | "unwrite" => held = held.saturating_sub(1),
            "lock" | "lock_async" | "try_lock" | "read" | "read_async" | "try_read" | "write" | "write_async" | "try_write" | "poll" => held += 1,
            _ => {}
          }
        }
      }
      Ev::Panic { tid, .. } => {
        calls.remove(tid);
      }
    }
  }
  if status.starts_with("deadlock") && held == 0 {
    for (tid, op) in &calls {
      if matches!(op.name(), "lock" | "read" | "write" | "lock_async" | "read_async" | "write_async") {
        fire(format!("{}:{}:blocked-while-free", fl, op.name()), format!("thread {} is parked in {} although no guard is held", tid, op.text()));
      }
    }
  }
  if status.starts_with("panic:") {
    fire(format!("{}:panic", fl), status.to_string());
  }
}
