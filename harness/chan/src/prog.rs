//! Program language, case files, transcript parsing.

use std::fmt::Write as _;

#[derive(Clone, Debug, PartialEq, Eq)]
pub struct Op {
  pub toks: Vec<String>,
}

impl Op {
  pub fn parse(s: &str) -> Option<Op> {
    let toks: Vec<String> = s.split_whitespace().map(|t| t.to_string()).collect();
    if toks.is_empty() { None } else { Some(Op { toks }) }
  }
  pub fn new(parts: &[&str]) -> Op {
    Op { toks: parts.iter().map(|s| s.to_string()).collect() }
  }
  pub fn text(&self) -> String {
    self.toks.join(" ")
  }
  /// `fut f0 = recv_fut r0` → "fut"
  pub fn name(&self) -> &str {
    &self.toks[0]
  }
  pub fn arg(&self, i: usize) -> &str {
    self.toks.get(i).map(|s| s.as_str()).unwrap_or("")
  }
  /// handle (or future / guard) name the op acts on
  pub fn h(&self) -> &str {
    if self.name() == "fut" { self.arg(4) } else { self.arg(1) }
  }
  /// for `fut f = kind h args`: the future kind
  pub fn fut_kind(&self) -> &str {
    self.arg(3)
  }
  /// index of the first argument after the handle
  fn a0(&self) -> usize {
    if self.name() == "fut" { 5 } else { 2 }
  }
  pub fn v0(&self) -> u32 {
    self.arg(self.a0()).parse().unwrap_or(0)
  }
  pub fn vals(&self) -> Vec<u32> {
    parse_list(self.arg(self.a0()))
  }
  pub fn n(&self) -> usize {
    self.arg(self.a0()).parse().unwrap_or(0)
  }
  /// the operation form as used in signatures (`send`, `recv_fut`, ...)
  pub fn form(&self) -> &str {
    if self.name() == "fut" { self.fut_kind() } else { self.name() }
  }
}

pub fn parse_list(s: &str) -> Vec<u32> {
  let t = s.trim_matches(|c| c == '[' || c == ']');
  if t.is_empty() || t == "-" {
    return Vec::new();
  }
  t.split(',').filter_map(|x| x.trim().parse().ok()).collect()
}

pub fn show_list(v: &[u32]) -> String {
  let mut s = String::from("[");
  for (i, x) in v.iter().enumerate() {
    if i > 0 {
      s.push(',');
    }
    let _ = write!(s, "{}", x);
  }
  s.push(']');
  s
}

pub fn arg_list(v: &[u32]) -> String {
  if v.is_empty() {
    "-".to_string()
  } else {
    v.iter().map(|x| x.to_string()).collect::<Vec<_>>().join(",")
  }
}

pub const FLAVOURS: &[&str] = &[
  "spsc", "spsc_async", "mpsc_b", "mpsc_b_async", "mpsc_u", "mpsc_u_async", "mpmc_b", "mpmc_b_async",
  "mpmc_u", "mpmc_u_async", "rdv_spsc", "rdv_spsc_async", "rdv_mpsc", "rdv_mpsc_async", "rdv_mpmc",
  "rdv_mpmc_async", "oneshot", "spmc", "spmc_async", "mutex", "rwlock",
];

#[derive(Clone, Debug)]
pub struct Case {
  pub id: String,
  pub flavour: String,
  pub cap: usize,
  pub strategy: String, // replay | rand | pct
  pub seed: u64,
  pub mode: String, // seq | conc | async | dfs | witness
  /// programs[0] = setup thread (tid 0); programs[t] = thread t
  pub programs: Vec<Vec<Op>>,
  /// explicit schedule (from `S` lines); None = use strategy
  pub schedule: Option<Vec<usize>>,
  pub budget: usize,
  /// replay default refinement (search aid): preferred thread order, see shim `Config::prefer`
  pub prefer: Vec<usize>,
  /// log every visible action (`A`/`L` lines)
  pub atomics: bool,
  /// generator family (`fam=<name>` in the header; informative, shows in the evidence TAGs)
  pub fam: String,
}

impl Case {
  pub fn threads(&self) -> usize {
    self.programs.len().saturating_sub(1)
  }

  pub fn header(&self) -> String {
    let mut h = format!(
      "#case {} flavour={} cap={} threads={} strategy={} seed={} mode={}",
      self.id,
      self.flavour,
      self.cap,
      self.threads(),
      self.strategy,
      self.seed,
      self.mode
    );
    if self.budget != 20_000 {
      h.push_str(&format!(" budget={}", self.budget));
    }
    if self.atomics {
      h.push_str(" atomics=1");
    }
    if !self.fam.is_empty() {
      h.push_str(&format!(" fam={}", self.fam));
    }
    h
  }

  pub fn program_lines(&self) -> Vec<String> {
    self
      .programs
      .iter()
      .enumerate()
      .map(|(t, p)| {
        let body: Vec<String> = p.iter().map(|o| o.text()).collect();
        format!("P {} {}", t, body.join(" ; "))
      })
      .collect()
  }
}

/// Parse every `#case … #end` block; `C`/`R`/`X`/`D`/`!monitor` lines are ignored.
pub fn parse_cases(text: &str) -> Result<Vec<Case>, String> {
  let mut out = Vec::new();
  let mut cur: Option<Case> = None;
  for (ln, raw) in text.lines().enumerate() {
    let l = raw.trim();
    if l.starts_with("#case ") {
      let ws: Vec<&str> = l.split_whitespace().collect();
      let mut c = Case {
        id: ws.get(1).unwrap_or(&"?").to_string(),
        flavour: String::new(),
        cap: 0,
        strategy: "replay".into(),
        seed: 0,
        mode: "witness".into(),
        programs: Vec::new(),
        schedule: None,
        budget: 20_000,
        prefer: Vec::new(),
        atomics: false,
        fam: String::new(),
      };
      for kv in &ws[2..] {
        if let Some((k, v)) = kv.split_once('=') {
          match k {
            "flavour" => c.flavour = v.to_string(),
            "cap" => c.cap = v.parse().map_err(|_| format!("line {}: bad cap", ln + 1))?,
            "strategy" => c.strategy = v.to_string(),
            "seed" => c.seed = v.parse().map_err(|_| format!("line {}: bad seed", ln + 1))?,
            "mode" => c.mode = v.to_string(),
            "budget" => c.budget = v.parse().map_err(|_| format!("line {}: bad budget", ln + 1))?,
            "atomics" => c.atomics = v == "1" || v == "true",
            "prefer" => c.prefer = v.split(',').filter_map(|x| x.parse().ok()).collect(),
            "fam" => c.fam = v.to_string(),
            _ => {}
          }
        }
      }
      cur = Some(c);
    } else if l.starts_with("#end") {
      if let Some(c) = cur.take() {
        out.push(c);
      }
    } else if let Some(c) = cur.as_mut() {
      if let Some(rest) = l.strip_prefix("P ") {
        let (tid, body) = rest.trim().split_once(' ').unwrap_or((rest.trim(), ""));
        let t: usize = tid.parse().map_err(|_| format!("line {}: bad tid in P line", ln + 1))?;
        while c.programs.len() <= t {
          c.programs.push(Vec::new());
        }
        for part in body.split(';') {
          if let Some(op) = Op::parse(part) {
            c.programs[t].push(op);
          }
        }
      } else if let Some(rest) = l.strip_prefix("S ") {
        let sched = c.schedule.get_or_insert_with(Vec::new);
        for t in rest.split(|ch: char| ch == ',' || ch.is_whitespace()) {
          if !t.is_empty() {
            sched.push(t.parse().map_err(|_| format!("line {}: bad S entry", ln + 1))?);
          }
        }
      } else if l == "S" {
        c.schedule.get_or_insert_with(Vec::new);
      }
    }
  }
  if let Some(c) = cur.take() {
    out.push(c);
  }
  for c in &mut out {
    if c.programs.is_empty() {
      c.programs.push(Vec::new());
    }
  }
  Ok(out)
}
