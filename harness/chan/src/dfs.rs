//! Bounded exhaustive schedule exploration (stateless DFS with a preemption bound).

pub fn main(_args: &[String]) {
  eprintln!("chanh dfs: not implemented yet");
  std::process::exit(2);
}
