//! Bounded exhaustive schedule exploration: stateless DFS over the scheduler's
//! decisions with a preemption bound, driven from outside through schedule
//! prefixes (`Strategy::Replay`: prefix, then "continue the current thread,
//! else lowest tid").
//!
//! Every complete schedule is reached exactly once: a run with forced prefix
//! `p` takes default choices after `p`; its children are, for every decision
//! index `i >= len(p)` and every non-chosen candidate `c`, the prefix
//! `chosen[..i] ++ [c]` — provided the number of preemptions stays within the
//! bound. A preemption is a decision that switches away from the baton holder
//! while the holder is itself a candidate (yields and blocking are free).

use crate::exec;
use crate::prog::{self, Case};
use loom::rt;
use std::io::Write;

pub fn main(args: &[String]) {
  let mut path: Option<String> = None;
  let mut preempt: usize = 2;
  let mut max_runs: usize = 5000;
  let mut all = false;
  let mut atomics = false;
  let mut i = 0;
  while i < args.len() {
    match args[i].as_str() {
      "--preempt" => {
        preempt = args.get(i + 1).and_then(|s| s.parse().ok()).unwrap_or(2);
        i += 1;
      }
      "--max-runs" => {
        max_runs = args.get(i + 1).and_then(|s| s.parse().ok()).unwrap_or(5000);
        i += 1;
      }
      "--all" => all = true,
      "--atomics" => atomics = true,
      x if path.is_none() => path = Some(x.to_string()),
      x => {
        eprintln!("chanh dfs: unexpected argument {}", x);
        std::process::exit(2);
      }
    }
    i += 1;
  }
  let Some(path) = path else {
    eprintln!("usage: chanh dfs <casefile> [--preempt K] [--max-runs N] [--all]");
    std::process::exit(2)
  };
  let text = std::fs::read_to_string(&path).unwrap_or_else(|e| {
    eprintln!("chanh dfs: cannot read {}: {}", path, e);
    std::process::exit(2)
  });
  let cases = prog::parse_cases(&text).unwrap_or_else(|e| {
    eprintln!("chanh dfs: {}", e);
    std::process::exit(2)
  });
  let stdout = std::io::stdout();
  let mut out = stdout.lock();
  for base in &cases {
    let mut base = base.clone();
    base.atomics |= atomics;
    explore(&base, preempt, max_runs, all, &mut out);
  }
}

struct Frame {
  chosen: Vec<usize>,
  cands: Vec<u32>,
  cur: Vec<Option<usize>>,
  /// pre[i] = preemptions spent in decisions[..i]
  pre: Vec<usize>,
  lo: usize,
  /// next decision index to branch at is `i - 1` (iterating downwards), candidate cursor `c`
  i: usize,
  c: usize,
}

impl Frame {
  fn new(ds: &[rt::Decision], lo: usize) -> Frame {
    let mut pre = vec![0usize; ds.len() + 1];
    for (i, d) in ds.iter().enumerate() {
      let p = match d.current {
        Some(cur) if cur != d.chosen => 1,
        _ => 0,
      };
      pre[i + 1] = pre[i] + p;
    }
    Frame {
      chosen: ds.iter().map(|d| d.chosen).collect(),
      cands: ds.iter().map(|d| d.candidates).collect(),
      cur: ds.iter().map(|d| d.current).collect(),
      pre,
      lo,
      i: ds.len(),
      c: 0,
    }
  }

  /// next unexplored child prefix within the preemption bound
  fn next_child(&mut self, bound: usize) -> Option<Vec<usize>> {
    while self.i > self.lo {
      let i = self.i - 1;
      while self.c < 32 {
        let cand = self.c;
        self.c += 1;
        if self.cands[i] & (1 << cand) == 0 || cand == self.chosen[i] {
          continue;
        }
        let cost = match self.cur[i] {
          Some(cur) if cur != cand => 1,
          _ => 0,
        };
        if self.pre[i] + cost > bound {
          continue;
        }
        let mut p = self.chosen[..i].to_vec();
        p.push(cand);
        return Some(p);
      }
      self.i -= 1;
      self.c = 0;
    }
    None
  }
}

/// Best-first variant of `explore` (used by `chanh races`): the same prefix tree — every complete schedule within
/// the bound is reached exactly once — but pending prefixes are visited in order of the preemptions they have spent
/// (all schedules without preemption first, then those with one, then two), so a run budget that ends the
/// exploration early cuts off the many-preemption tail instead of everything that differs early from the default
/// schedule.
pub fn explore_bf(base: &Case, bound: usize, max_runs: usize, all: bool, out: &mut dyn Write) -> (usize, bool) {
  use std::collections::VecDeque;
  let mut queues: Vec<VecDeque<Vec<usize>>> = (0..=bound).map(|_| VecDeque::new()).collect();
  queues[0].push_back(Vec::new());
  let mut runs = 0usize;
  let mut with_monitor = 0usize;
  let mut deadlocks = 0usize;
  let mut sigs: std::collections::BTreeMap<String, usize> = Default::default();
  let mut complete = true;
  loop {
    let Some(prefix) = queues.iter_mut().find_map(|q| q.pop_front()) else { break };
    if runs >= max_runs {
      complete = false;
      break;
    }
    let mut c = base.clone();
    c.id = format!("{}.d{}", base.id, runs);
    c.mode = "dfs".into();
    c.strategy = "replay".into();
    c.schedule = Some(prefix.clone());
    let res = exec::run_case(&c, crate::config_for(&c));
    runs += 1;
    let text = crate::render(&c, &res);
    let mut hit = false;
    for l in text.lines() {
      if let Some(rest) = l.strip_prefix("!monitor ") {
        hit = true;
        *sigs.entry(rest.split(" | ").next().unwrap_or("").to_string()).or_insert(0) += 1;
      }
    }
    if hit {
      with_monitor += 1;
    }
    if matches!(res.outcome.status, rt::Status::Deadlock(_)) {
      deadlocks += 1;
    }
    if all || hit {
      let _ = out.write_all(text.as_bytes());
    }
    let mut f = Frame::new(&res.outcome.decisions, prefix.len());
    while let Some(p) = f.next_child(bound) {
      // preemptions spent by the child prefix = those of the shared part + the cost of its last (forced) decision
      let i = p.len() - 1;
      let cost = match f.cur[i] {
        Some(cur) if cur != p[i] => 1,
        _ => 0,
      };
      let k = (f.pre[i] + cost).min(bound);
      queues[k].push_back(p);
    }
  }
  let _ = writeln!(
    out,
    "#dfs case={} preempt={} order=bf runs={} complete={} deadlocks={} runs-with-monitor={}",
    base.id, bound, runs, complete, deadlocks, with_monitor
  );
  for (s, n) in sigs {
    let _ = writeln!(out, "#dfs-signature {} {}", n, s);
  }
  (runs, complete)
}

pub fn explore(base: &Case, bound: usize, max_runs: usize, all: bool, out: &mut dyn Write) {
  let mut runs = 0usize;
  let mut with_monitor = 0usize;
  let mut deadlocks = 0usize;
  let mut sigs: std::collections::BTreeMap<String, usize> = Default::default();
  let mut complete = true;
  let mut stack: Vec<Frame> = Vec::new();
  let mut next: Option<Vec<usize>> = Some(Vec::new());
  loop {
    let prefix = match next.take() {
      Some(p) => p,
      None => {
        let Some(top) = stack.last_mut() else { break };
        match top.next_child(bound) {
          Some(p) => p,
          None => {
            stack.pop();
            continue;
          }
        }
      }
    };
    if runs >= max_runs {
      complete = false;
      break;
    }
    let mut c = base.clone();
    c.id = format!("{}.d{}", base.id, runs);
    c.mode = "dfs".into();
    c.strategy = "replay".into();
    c.schedule = Some(prefix.clone());
    let res = exec::run_case(&c, crate::config_for(&c));
    runs += 1;
    let text = crate::render(&c, &res);
    let mut hit = false;
    for l in text.lines() {
      if let Some(rest) = l.strip_prefix("!monitor ") {
        hit = true;
        let sig = rest.split(" | ").next().unwrap_or("").to_string();
        *sigs.entry(sig).or_insert(0) += 1;
      }
    }
    if hit {
      with_monitor += 1;
    }
    if matches!(res.outcome.status, rt::Status::Deadlock(_)) {
      deadlocks += 1;
    }
    if all || hit {
      let _ = out.write_all(text.as_bytes());
    }
    stack.push(Frame::new(&res.outcome.decisions, prefix.len()));
  }
  let _ = writeln!(
    out,
    "#dfs case={} preempt={} runs={} complete={} deadlocks={} runs-with-monitor={}",
    base.id, bound, runs, complete, deadlocks, with_monitor
  );
  for (s, n) in sigs {
    let _ = writeln!(out, "#dfs-signature {} {}", n, s);
  }
}
