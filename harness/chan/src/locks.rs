//! Hybrid locks (C10): one shared lock object per case, named guards, an
//! instrumented protected value that records guard coexistence.

use crate::exec::{block_on, CountWaker};
use crate::prog::Op;
use fibre::sync::{HybridMutex, HybridRwLock, MutexGuard, ReadGuard, WriteGuard};
use std::collections::BTreeMap;
use std::future::Future;
use std::pin::Pin;
use std::sync::atomic::{AtomicUsize, Ordering};
#[allow(unused_imports)]
use std::sync::atomic::AtomicBool;
use std::sync::Arc;
use std::task::{Context, Poll, Waker};

/// The protected value. Counters are std atomics: touching them is not a
/// scheduling point, so `enter` happens atomically with the acquisition's
/// return and `exit` atomically with the start of the release.
#[derive(Default)]
pub struct Probe {
  writers: AtomicUsize,
  readers: AtomicUsize,
}

impl Probe {
  fn enter(&self, exclusive: bool) -> String {
    let (w, r) = (self.writers.load(Ordering::Relaxed), self.readers.load(Ordering::Relaxed));
    let bad = if exclusive { w + r > 0 } else { w > 0 };
    if exclusive {
      self.writers.fetch_add(1, Ordering::Relaxed);
    } else {
      self.readers.fetch_add(1, Ordering::Relaxed);
    }
    if bad { format!("ok:coexist:w{}r{}", w, r) } else { "ok".into() }
  }
  fn exit(&self, exclusive: bool) {
    if exclusive {
      self.writers.fetch_sub(1, Ordering::Relaxed);
    } else {
      self.readers.fetch_sub(1, Ordering::Relaxed);
    }
  }
}

pub enum LockObj {
  M(HybridMutex<Probe>),
  R(HybridRwLock<Probe>),
}

pub enum Guard {
  M(MutexGuard<'static, Probe>),
  Rd(ReadGuard<'static, Probe>),
  Wr(WriteGuard<'static, Probe>),
}

impl Guard {
  fn exclusive(&self) -> bool {
    !matches!(self, Guard::Rd(_))
  }
  fn probe(&self) -> &Probe {
    match self {
      Guard::M(g) => g,
      Guard::Rd(g) => g,
      Guard::Wr(g) => g,
    }
  }
}

struct LFut {
  fut: Option<Pin<Box<dyn Future<Output = Guard>>>>,
  gname: String,
  cw: Arc<CountWaker>,
}

pub struct LockEnv {
  // drop order: futures, guards, then the lock
  futs: BTreeMap<String, LFut>,
  guards: BTreeMap<String, Guard>,
  obj: Arc<LockObj>,
}

impl LockEnv {
  pub fn new(flavour: &str) -> LockEnv {
    let obj = if flavour == "mutex" {
      LockObj::M(HybridMutex::new(Probe::default()))
    } else {
      LockObj::R(HybridRwLock::new(Probe::default()))
    };
    LockEnv { futs: BTreeMap::new(), guards: BTreeMap::new(), obj: Arc::new(obj) }
  }
  pub fn share(&self) -> LockEnv {
    LockEnv { futs: BTreeMap::new(), guards: BTreeMap::new(), obj: self.obj.clone() }
  }
  pub fn absorb(&mut self, other: LockEnv) {
    let LockEnv { futs, guards, obj: _ } = other;
    self.futs.extend(futs);
    self.guards.extend(guards);
  }
  pub fn leftovers(&self) -> Vec<String> {
    let mut v: Vec<String> = self.futs.keys().cloned().collect();
    v.extend(self.guards.keys().cloned());
    v
  }
  pub fn is_guard(&self, n: &str) -> bool {
    self.guards.contains_key(n)
  }
  fn obj(&self) -> &'static LockObj {
    // SAFETY: every guard/future borrowing the lock is dropped before the
    // last Arc (field order here and in `Env`; threads hand their LockEnv
    // back to tid 0, which holds the original Arc until teardown is over).
    unsafe { &*(Arc::as_ptr(&self.obj)) }
  }
  fn store(&mut self, name: &str, g: Guard) -> String {
    let r = g.probe().enter(g.exclusive());
    self.guards.insert(name.to_string(), g);
    r
  }
}

/// Some(result) if `op` is a lock op.
pub fn exec(le: &mut LockEnv, op: &Op) -> Option<String> {
  let g = op.arg(1).to_string();
  let obj = le.obj();
  let fresh = |le: &LockEnv| !g.is_empty() && !le.guards.contains_key(&g);
  Some(match (op.name(), obj) {
    ("lock", LockObj::M(m)) => {
      if !fresh(le) { return Some("invalid:exists".into()); }
      let gd = m.lock();
      le.store(&g, Guard::M(gd))
    }
    ("lock_async", LockObj::M(m)) => {
      if !fresh(le) { return Some("invalid:exists".into()); }
      let gd = block_on(m.lock_async());
      le.store(&g, Guard::M(gd))
    }
    ("try_lock", LockObj::M(m)) => {
      if !fresh(le) { return Some("invalid:exists".into()); }
      match m.try_lock() {
        Some(gd) => le.store(&g, Guard::M(gd)),
        None => "none".into(),
      }
    }
    ("read", LockObj::R(l)) => {
      if !fresh(le) { return Some("invalid:exists".into()); }
      let gd = l.read();
      le.store(&g, Guard::Rd(gd))
    }
    ("read_async", LockObj::R(l)) => {
      if !fresh(le) { return Some("invalid:exists".into()); }
      let gd = block_on(l.read_async());
      le.store(&g, Guard::Rd(gd))
    }
    ("try_read", LockObj::R(l)) => {
      if !fresh(le) { return Some("invalid:exists".into()); }
      match l.try_read() {
        Some(gd) => le.store(&g, Guard::Rd(gd)),
        None => "none".into(),
      }
    }
    ("write", LockObj::R(l)) => {
      if !fresh(le) { return Some("invalid:exists".into()); }
      let gd = l.write();
      le.store(&g, Guard::Wr(gd))
    }
    ("write_async", LockObj::R(l)) => {
      if !fresh(le) { return Some("invalid:exists".into()); }
      let gd = block_on(l.write_async());
      le.store(&g, Guard::Wr(gd))
    }
    ("try_write", LockObj::R(l)) => {
      if !fresh(le) { return Some("invalid:exists".into()); }
      match l.try_write() {
        Some(gd) => le.store(&g, Guard::Wr(gd)),
        None => "none".into(),
      }
    }
    ("unlock", _) | ("unread", _) | ("unwrite", _) => match le.guards.remove(&g) {
      Some(gd) => {
        gd.probe().exit(gd.exclusive());
        drop(gd);
        "ok".into()
      }
      None => "invalid:noguard".into(),
    },
    ("fut", _) => {
      let f = op.arg(1).to_string();
      let gname = op.arg(4).to_string();
      if op.arg(2) != "=" || f.is_empty() || le.futs.contains_key(&f) || gname.is_empty() {
        return Some("invalid:syntax".into());
      }
      let fut: Pin<Box<dyn Future<Output = Guard>>> = match (op.arg(3), obj) {
        ("lock_fut", LockObj::M(m)) => Box::pin(async move { Guard::M(m.lock_async().await) }),
        ("read_fut", LockObj::R(l)) => Box::pin(async move { Guard::Rd(l.read_async().await) }),
        ("write_fut", LockObj::R(l)) => Box::pin(async move { Guard::Wr(l.write_async().await) }),
        _ => return Some("unsupported".into()),
      };
      let cw = CountWaker::new(&f);
      le.futs.insert(f, LFut { fut: Some(fut), gname, cw });
      "ok".into()
    }
    ("poll", _) => {
      let Some(slot) = le.futs.get_mut(op.arg(1)) else { return Some("invalid:nofut".into()) };
      let Some(fut) = slot.fut.as_mut() else { return Some("invalid:done".into()) };
      slot.cw.wakes.store(0, Ordering::Relaxed);
      let waker = Waker::from(slot.cw.clone());
      let mut cx = Context::from_waker(&waker);
      match fut.as_mut().poll(&mut cx) {
        Poll::Pending => "pending".into(),
        Poll::Ready(gd) => {
          slot.fut = None;
          let gname = slot.gname.clone();
          if le.guards.contains_key(&gname) {
            gd.probe().enter(gd.exclusive());
            gd.probe().exit(gd.exclusive());
            drop(gd);
            "ready:invalid:exists".into()
          } else {
            format!("ready:{}", le.store(&gname, gd))
          }
        }
      }
    }
    ("wakes", _) => match le.futs.get(op.arg(1)) {
      Some(s) => format!("n:{}", s.cw.wakes.load(Ordering::Relaxed)),
      None => "invalid:nofut".into(),
    },
    ("dropfut", _) | ("drop", _) => match le.futs.remove(op.arg(1)) {
      Some(s) => {
        let woken = s.fut.is_some() && s.cw.wakes.load(Ordering::Relaxed) > 0;
        drop(s);
        if woken { "ok:woken".into() } else { "ok".into() }
      }
      None => "invalid:nofut".into(),
    },
    _ => "unsupported".into(),
  })
}
