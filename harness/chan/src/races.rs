//! `chanh races`: the systematic pairwise race family (README "Race pairs").
//!
//! For every flavour, every admin operation A ∈ {clone, close, drop, to_async / to_sync} on either side runs in one
//! thread against every data / probe operation D of the OTHER side — and of the same side on a clone, and (where the
//! handle type is `Sync`) of the SAME handle shared by both threads — in a second thread. Programs are tiny (≤ 3 ops
//! per thread, ≤ 2-op prefix that puts the channel into the empty / one-item / full state); each is explored with the
//! stateless search of `dfs.rs` in best-first order (fewest preemptions first), preemption bound ≤ 2, bounded runs.
//! Every run is printed like any concurrent case (`mode=dfs`), so the histories go through `fvdrv_chan` and the
//! monitors.

use crate::dfs;
use crate::gen::{fl, Fl, Rng};
use crate::handles::make_channel;
use crate::prog::{Case, Op, FLAVOURS};
use std::io::{Read, Write};
use std::process::{Command, Stdio};

pub struct Prog {
  pub flavour: String,
  pub cap: usize,
  pub core: bool,
  pub tag: String,
  pub programs: Vec<Vec<Op>>,
}

fn op(parts: &[&str]) -> Op {
  Op::new(parts)
}

/// Does the handle type of `side` of `flavour` offer `form` through a shared reference? (asked of the handle
/// implementation itself, on a throw-away channel built outside any scheduled execution; only non-blocking forms)
fn share_ok(flavour: &str, side: char, form: &str) -> bool {
  let Ok((s, r)) = make_channel(flavour, 2) else { return false };
  let h = if side == 's' { &s } else { &r };
  if !h.is_sync() {
    return false;
  }
  let probe = match form {
    "try_send" | "send" => op(&["try_send", "x", "4000"]),
    "try_recv" | "recv" => op(&["try_recv", "x"]),
    f => op(&[f, "x"]),
  };
  h.call_shared(&probe).is_some()
}

struct Ids(u32);
impl Ids {
  fn next(&mut self) -> String {
    self.0 += 1;
    self.0.to_string()
  }
  fn two(&mut self) -> String {
    let a = self.next();
    let b = self.next();
    format!("{},{}", a, b)
  }
}

/// data / probe forms of a side: (form, kind) with kind 'd' = moves data, 'p' = probe
fn d_forms(f: Fl, side: char, is_async: bool) -> Vec<&'static str> {
  let mut v: Vec<&'static str> = Vec::new();
  if side == 's' {
    if f.oneshot {
      return vec!["send", "is_closed"];
    }
    v.extend(["try_send", "send"]);
    if f.batch {
      v.push("try_send_batch");
    }
  } else {
    v.extend(["try_recv", "recv"]);
    if !is_async && !f.oneshot {
      v.push("recv_timeout0");
    }
    if f.batch {
      v.push("try_recv_batch");
    }
  }
  if !f.oneshot {
    v.push("len");
  }
  v.push("is_closed");
  v
}

fn is_data(form: &str) -> bool {
  form.contains("send") || form.contains("recv")
}

fn d_op(form: &str, h: &str, ids: &mut Ids) -> Op {
  match form {
    "try_send" | "send" => op(&[form, h, &ids.next()]),
    "try_send_batch" => op(&[form, h, &ids.two()]),
    "try_recv_batch" => op(&[form, h, "2"]),
    _ => op(&[form, h]),
  }
}

/// the non-blocking data form of a side (observer / follow-up)
fn try_form(f: Fl, side: char) -> &'static str {
  if side == 's' {
    if f.oneshot { "send" } else { "try_send" }
  } else {
    "try_recv"
  }
}

fn prefix(f: Fl, kind: &str, cap: usize, ids: &mut Ids) -> Vec<Op> {
  let n = match kind {
    "one" => 1,
    "full" => cap.max(1),
    _ => 0,
  };
  if f.rdv || n == 0 {
    return Vec::new();
  }
  if f.oneshot {
    // the one sender is consumed by its send: prefill through a clone
    return vec![op(&["clone", "s0", "s8"]), op(&["send", "s8", &ids.next()])];
  }
  (0..n).map(|_| op(&["try_send", "s0", &ids.next()])).collect()
}

/// every program of the family for one flavour
pub fn family(flavour: &str) -> Vec<Prog> {
  let f = fl(flavour);
  let mut out = Vec::new();
  if f.lock {
    return out;
  }
  let cap = if f.rdv || f.unbounded || f.oneshot { 0 } else { 2 };
  let base_async = f.asyn && !f.oneshot;
  let mut push = |tag: String, core: bool, p0: Vec<Op>, t1: Vec<Op>, t2: Vec<Op>| {
    out.push(Prog { flavour: flavour.to_string(), cap, core, tag, programs: vec![p0, t1, t2] });
  };
  for x in ['s', 'r'] {
    let y = if x == 's' { 'r' } else { 's' };
    let hx = format!("{}0", x);
    let hy = format!("{}0", y);
    let x_clone = if x == 's' { f.s_clone } else { f.r_clone };
    let mut admins: Vec<&str> = Vec::new();
    if x_clone {
      admins.push("clone");
    }
    admins.extend(["close", "drop"]);
    if !f.oneshot {
      admins.push(if base_async { "to_sync" } else { "to_async" });
    }
    for a in &admins {
      // thread 1: the admin op and an observer on the handle it leaves behind
      let t1_of = |ids: &mut Ids| -> Vec<Op> {
        let mut t = Vec::new();
        match *a {
          "clone" => {
            let c = format!("{}9", x);
            t.push(op(&["clone", &hx, &c]));
            if !(f.oneshot && x == 's') {
              t.push(d_op(try_form(f, x), &c, ids));
            }
          }
          "drop" => t.push(op(&["drop", &hx])),
          other => {
            t.push(op(&[other, &hx]));
            if !(f.oneshot && x == 's' && other == "close") {
              t.push(d_op(try_form(f, x), &hx, ids));
            }
          }
        }
        t
      };
      // --- against the OTHER side
      let y_async = base_async || (f.oneshot && y == 'r');
      for d in d_forms(f, y, y_async) {
        let kinds: Vec<&str> = if !is_data(d) {
          vec!["one"]
        } else if d.contains("recv") {
          vec!["empty", "one"]
        } else if cap > 0 {
          vec!["empty", "full"]
        } else {
          vec!["empty"]
        };
        for k in kinds {
          if (f.rdv || (f.oneshot && y == 's')) && k != "empty" {
            continue;
          }
          let mut ids = Ids(0);
          let p0 = prefix(f, k, cap, &mut ids);
          let t1 = t1_of(&mut ids);
          let mut t2 = vec![d_op(d, &hy, &mut ids)];
          if !(f.oneshot && y == 's') {
            t2.push(d_op(try_form(f, y), &hy, &mut ids));
          }
          let core = (d == "try_recv" && k == "empty") || (d == "try_send" && (k == "full" || cap == 0)) || (f.oneshot && is_data(d) && k == "empty");
          push(format!("{}-{}-vs-{}-{}", a, x, d, k), core, p0, t1, t2);
        }
      }
      // --- against the SAME side on a clone
      if x_clone && !(f.oneshot && x == 's' && *a == "clone") {
        let x_async = base_async || (f.oneshot && x == 'r');
        for d in d_forms(f, x, x_async) {
          let k = if !is_data(d) { "one" } else if d.contains("recv") { "one" } else if cap > 0 { "full" } else { "empty" };
          if f.rdv && k != "empty" {
            continue;
          }
          let mut ids = Ids(0);
          let mut p0 = prefix(f, if f.rdv { "empty" } else { k }, cap, &mut ids);
          let c = format!("{}1", x);
          p0.insert(0, op(&["clone", &hx, &c]));
          let t1 = t1_of(&mut ids);
          let mut t2 = vec![d_op(d, &c, &mut ids)];
          if !(f.oneshot && x == 's') {
            t2.push(d_op(try_form(f, x), &c, &mut ids));
          }
          push(format!("{}-{}-vs-clone-{}-{}", a, x, d, k), d == try_form(f, x), p0, t1, t2);
        }
      }
    }
    // --- the SAME handle shared by both threads (`&self` methods of a `Sync` handle type)
    if share_ok(flavour, x, "close") {
      let tf = try_form(f, x);
      let mut others: Vec<&str> = vec!["close", "is_closed"];
      if share_ok(flavour, x, tf) && !(f.oneshot && x == 's') {
        others.push(tf);
        // (the blocking `send` is left out: its Closed error drops the value, see the driver's shared-close note)
        if x == 'r' {
          others.push("recv");
        }
      }
      if share_ok(flavour, x, "len") {
        others.push("len");
      }
      for d in others {
        for k in ["empty", "one"] {
          if (f.rdv || f.oneshot) && k != "empty" {
            continue;
          }
          if !is_data(d) && k == "one" {
            continue;
          }
          let mut ids = Ids(0);
          let mut p0 = prefix(f, k, cap, &mut ids);
          if x_clone && !(f.oneshot) {
            p0.insert(0, op(&["clone", &hx, &format!("{}1", x)]));
          }
          p0.push(op(&["share", &hx]));
          let mut t1 = vec![op(&["close", &hx])];
          let mut t2 = vec![d_op(d, &hx, &mut ids)];
          if share_ok(flavour, x, tf) && !(f.oneshot && x == 's') {
            t1.push(d_op(tf, &hx, &mut ids));
            if d != "close" {
              t2.push(op(&["close", &hx]));
            }
          } else {
            t1.push(op(&["is_closed", &hx]));
          }
          // the other side observes whether anything was disconnected while a handle of this side is alive
          if !(f.oneshot && y == 's') {
            t2.push(d_op(try_form(f, y), &hy, &mut ids));
          }
          push(format!("shared-{}-close-vs-{}-{}", x, d, k), true, p0, t1, t2);
        }
      }
    }
  }
  // --- timed parking (README "Timed parking"): the consumer parks in the TIMED receive on an empty channel, the
  // producer sends cap+1 items (the first wakes the consumer, the rest fill the ring, the last parks the producer);
  // every decision also offers "fire the consumer's timeout"
  if !f.asyn && !f.oneshot {
    let n = if f.rdv || f.unbounded { 1 } else { cap.min(1) + 1 };
    let tcap = if cap > 0 { 1 } else { 0 };
    for (tag, second) in [("alone", None), ("then-try_recv", Some("try_recv"))] {
      let mut ids = Ids(0);
      let mut t1 = vec![op(&["recv_timeout", "r0"])];
      if let Some(x) = second {
        t1.push(op(&[x, "r0"]));
      }
      let t2: Vec<Op> = (0..n).map(|_| op(&["send", "s0", &ids.next()])).collect();
      out.push(Prog { flavour: flavour.to_string(), cap: tcap, core: true, tag: format!("timed-park-{}", tag), programs: vec![Vec::new(), t1, t2] });
    }
  }
  out
}

fn to_case(p: &Prog, idx: usize) -> Case {
  Case {
    id: format!("race-{}-{}-{}", p.flavour, idx, p.tag),
    flavour: p.flavour.clone(),
    cap: p.cap,
    strategy: "replay".into(),
    seed: 0,
    mode: "dfs".into(),
    programs: p.programs.clone(),
    schedule: None,
    budget: 20_000,
    prefer: Vec::new(),
    atomics: false,
    fam: "race".into(),
  }
}

struct Opts {
  seed: u64,
  tier: String,
  flavours: Vec<String>,
  sample: usize,
  max_runs: usize,
  core_runs: usize,
  preempt: usize,
  jobs: usize,
  list: bool,
  lo: usize,
  hi: usize,
}

/// the selected programs, in a fixed order: quick = every core pair + `sample` others chosen by seed; thorough = all
fn select(o: &Opts) -> Vec<(Prog, usize)> {
  let mut all: Vec<Prog> = Vec::new();
  for f in &o.flavours {
    all.extend(family(f));
  }
  let n = all.len();
  let mut rng = Rng(o.seed.wrapping_mul(0x9E37_79B9_7F4A_7C15) ^ 0x7ace);
  rng.next();
  let thorough = o.tier == "thorough";
  let rest: Vec<usize> = (0..n).filter(|i| !all[*i].core).collect();
  let mut pick = vec![false; n];
  if thorough {
    pick.iter_mut().for_each(|p| *p = true);
  } else {
    for (i, p) in all.iter().enumerate() {
      pick[i] = p.core;
    }
    let mut pool = rest.clone();
    for _ in 0..o.sample.min(pool.len()) {
      let k = rng.below(pool.len());
      pick[pool.swap_remove(k)] = true;
    }
  }
  all.into_iter().enumerate().filter(|(i, _)| pick[*i]).map(|(i, p)| (p, i)).collect()
}

pub fn main(args: &[String]) {
  let worker = args[0] == "races-worker";
  let mut o = Opts {
    seed: 1,
    tier: "quick".into(),
    flavours: Vec::new(),
    sample: 40,
    max_runs: 0,
    core_runs: 0,
    preempt: 2,
    jobs: std::env::var("CHANH_JOBS").ok().and_then(|v| v.parse::<usize>().ok()).filter(|n| *n >= 1)
      .unwrap_or_else(|| std::thread::available_parallelism().map(|n| n.get()).unwrap_or(4)),
    list: false,
    lo: 0,
    hi: usize::MAX,
  };
  let mut i = 1;
  while i < args.len() {
    let val = |i: usize| args.get(i + 1).cloned().unwrap_or_default();
    match args[i].as_str() {
      "--seed" => o.seed = val(i).parse().unwrap_or(1),
      "--tier" => o.tier = val(i),
      "--flavours" => o.flavours = val(i).split(',').filter(|s| !s.is_empty()).map(|s| s.to_string()).collect(),
      "--sample" => o.sample = val(i).parse().unwrap_or(60),
      "--max-runs" => o.max_runs = val(i).parse().unwrap_or(0),
      "--core-runs" => o.core_runs = val(i).parse().unwrap_or(0),
      "--preempt" => o.preempt = val(i).parse().unwrap_or(2),
      "--jobs" => o.jobs = val(i).parse().unwrap_or(1),
      "--lo" => o.lo = val(i).parse().unwrap_or(0),
      "--hi" => o.hi = val(i).parse().unwrap_or(usize::MAX),
      "--list" => {
        o.list = true;
        i += 1;
        continue;
      }
      x => {
        eprintln!("chanh races: unknown option {}", x);
        std::process::exit(2);
      }
    }
    i += 2;
  }
  if o.flavours.is_empty() {
    o.flavours = FLAVOURS.iter().filter(|f| !fl(f).lock).map(|s| s.to_string()).collect();
  }
  let thorough = o.tier == "thorough";
  if o.max_runs == 0 {
    o.max_runs = if thorough { 400 } else { 60 };
  }
  if o.core_runs == 0 {
    o.core_runs = if thorough { 1200 } else { 120 };
  }
  let sel = select(&o);
  if o.list {
    for (p, i) in &sel {
      let c = to_case(p, *i);
      println!("{}{}\n{}\n#end", c.header(), if p.core { " core=1" } else { "" }, c.program_lines().join("\n"));
    }
    return;
  }
  let stdout = std::io::stdout();
  if worker || o.jobs <= 1 {
    let mut lock = std::io::BufWriter::new(stdout.lock());
    let hi = o.hi.min(sel.len());
    for (k, (p, i)) in sel.iter().enumerate().take(hi).skip(o.lo) {
      let c = to_case(p, *i);
      dfs::explore_bf(&c, o.preempt, if p.core { o.core_runs } else { o.max_runs }, true, &mut lock);
      if worker {
        let _ = lock.flush();
        crate::recycle_if_leaky(k + 1);
      }
    }
    let _ = lock.flush();
    return;
  }
  // parent: interleaved slices would balance better, but contiguous ones keep the output order = selection order
  let jobs = o.jobs.min(sel.len().max(1));
  let exe = std::env::current_exe().expect("current_exe");
  let chunk = (sel.len() + jobs - 1) / jobs.max(1);
  let mut kids = Vec::new();
  for j in 0..jobs {
    let (lo, hi) = (j * chunk, ((j + 1) * chunk).min(sel.len()));
    if lo >= hi {
      break;
    }
    let child = Command::new(&exe)
      .arg("races-worker")
      .args(["--seed", &o.seed.to_string(), "--tier", &o.tier, "--flavours", &o.flavours.join(",")])
      .args(["--sample", &o.sample.to_string(), "--max-runs", &o.max_runs.to_string(), "--core-runs", &o.core_runs.to_string()])
      .args(["--preempt", &o.preempt.to_string(), "--lo", &lo.to_string(), "--hi", &hi.to_string()])
      .stdout(Stdio::piped())
      .stderr(Stdio::inherit())
      .spawn()
      .expect("spawn races worker");
    kids.push(child);
  }
  let readers: Vec<std::thread::JoinHandle<Vec<u8>>> = kids
    .iter_mut()
    .map(|k| {
      let mut out = k.stdout.take().unwrap();
      std::thread::spawn(move || {
        let mut buf = Vec::new();
        let _ = out.read_to_end(&mut buf);
        buf
      })
    })
    .collect();
  let mut lock = stdout.lock();
  let mut rc = 0;
  for (r, mut k) in readers.into_iter().zip(kids.into_iter()) {
    let buf = r.join().unwrap_or_default();
    let _ = lock.write_all(&buf);
    match k.wait() {
      Ok(st) if st.success() => {}
      other => {
        eprintln!("chanh races: worker ended with {:?}", other);
        rc = 1;
      }
    }
  }
  let _ = lock.flush();
  std::process::exit(rc);
}
