//! Running one case under the scheduler: environments, executor, event log.

use crate::handles::{make_channel, BoxFut, SharedBox, SharedH, H};
use crate::locks::{self, LockEnv};
use crate::prog::{Case, Op};
use crate::val;
use loom::rt;
use std::cell::RefCell;
use std::collections::BTreeMap;
use std::future::Future;
use std::panic::{catch_unwind, AssertUnwindSafe};
use std::pin::pin;
use std::sync::atomic::{AtomicUsize, Ordering};
use std::sync::{Arc, Mutex};
use std::task::{Context, Poll, Wake, Waker};

// ---------------------------------------------------------------- event log

#[derive(Clone, Debug)]
pub enum Ev {
  Call { tid: usize, op: Op },
  /// `aux`: not printed; for `wakes`/`drop`/`dropfut`: wake counts of the OTHER live unresolved futures (`f1=0,f2=1`)
  Ret { tid: usize, res: String, aux: String },
  Panic { tid: usize, msg: String },
}

pub const MAX_T: usize = 16;

pub struct TaskStat {
  pub polls: AtomicUsize,
  pub wakes: AtomicUsize,
}

pub struct Shared {
  /// (event, number of shim trace lines recorded before it)
  pub log: Mutex<Vec<(Ev, usize)>>,
  pub stats: Vec<TaskStat>,
}

impl Shared {
  fn new() -> Shared {
    Shared {
      log: Mutex::new(Vec::new()),
      stats: (0..MAX_T).map(|_| TaskStat { polls: AtomicUsize::new(0), wakes: AtomicUsize::new(0) }).collect(),
    }
  }
  fn push(&self, e: Ev) {
    let pos = rt::trace_len();
    self.log.lock().unwrap_or_else(|e| e.into_inner()).push((e, pos));
  }
}

thread_local! {
  static CTX: RefCell<Option<(Arc<Shared>, usize)>> = const { RefCell::new(None) };
}

fn set_ctx(sh: &Arc<Shared>, tid: usize) {
  CTX.with(|c| *c.borrow_mut() = Some((sh.clone(), tid)));
}

// ---------------------------------------------------------------- executor

struct TaskWaker {
  thread: loom::thread::Thread,
  shared: Option<(Arc<Shared>, usize)>,
  /// set by every wake (before the unpark), cleared by the executor: the thread's park token alone cannot carry the
  /// wake-up, because the code under test parks the same thread inside `poll` (HybridMutex wait queue of the bounded
  /// mpmc / rendezvous cores) and that park loop consumes a token it did not wait for
  notified: std::sync::atomic::AtomicBool,
}

impl Wake for TaskWaker {
  fn wake(self: Arc<Self>) {
    self.wake_by_ref();
  }
  fn wake_by_ref(self: &Arc<Self>) {
    if let Some((sh, tid)) = &self.shared {
      sh.stats[*tid].wakes.fetch_add(1, Ordering::Relaxed);
      rt::note("wake", &format!("t{}", tid));
    }
    // (the token first: `unpark` begins with a scheduling point; flag and token then change in one scheduler slice,
    // so the executor never sees the flag without the token unless the token was really consumed)
    self.thread.unpark();
    self.notified.store(true, Ordering::SeqCst);
  }
}

/// Hand-rolled executor: poll; when Pending, park through the shim until the
/// waker unparks this scheduler thread.
pub fn block_on<F: Future>(f: F) -> F::Output {
  let mut f = pin!(f);
  let shared = CTX.with(|c| c.borrow().clone());
  let tw = Arc::new(TaskWaker { thread: loom::thread::current(), shared: shared.clone(), notified: std::sync::atomic::AtomicBool::new(false) });
  let waker = Waker::from(tw.clone());
  let mut cx = Context::from_waker(&waker);
  loop {
    if let Some((sh, tid)) = &shared {
      sh.stats[*tid].polls.fetch_add(1, Ordering::Relaxed);
    }
    match f.as_mut().poll(&mut cx) {
      Poll::Ready(x) => return x,
      Poll::Pending => {
        if tw.notified.swap(false, Ordering::SeqCst) {
          // woken since this poll started. Normally the wake's token is still there: park consumes it (the same
          // visible action as ever). If it is gone, a park of the code under test inside `poll` took it: the wake-up
          // must not be lost with it — poll again.
          if rt::has_token() {
            loom::thread::park();
          }
        } else {
          loom::thread::park();
          tw.notified.store(false, Ordering::SeqCst);
        }
      }
    }
  }
}

/// Waker for manual-poll futures: only counts.
pub struct CountWaker {
  pub wakes: AtomicUsize,
  pub name: String,
}

impl CountWaker {
  pub fn new(name: &str) -> Arc<CountWaker> {
    Arc::new(CountWaker { wakes: AtomicUsize::new(0), name: name.to_string() })
  }
}

impl Wake for CountWaker {
  fn wake(self: Arc<Self>) {
    self.wake_by_ref();
  }
  fn wake_by_ref(self: &Arc<Self>) {
    self.wakes.fetch_add(1, Ordering::Relaxed);
    rt::note("wake", &self.name);
  }
}

// ---------------------------------------------------------------- environment

pub struct FutSlot {
  pub fut: Option<BoxFut>,
  pub handle: String,
  pub cw: Arc<CountWaker>,
  pub done: bool,
}

#[derive(Default)]
pub struct Env {
  // NB field order = drop order: futures must go before the handles they borrow
  pub futs: BTreeMap<String, FutSlot>,
  pub handles: BTreeMap<String, Box<dyn H>>,
  pub locks: Option<LockEnv>,
  /// the setup thread is running the teardown ops (shared handles may be dropped now)
  pub teardown: bool,
}

/// The baton discipline (one scheduler thread runs at a time, handoffs are
/// synchronised) makes moving an environment between threads sound even though
/// some fibre futures are not `Send`.
pub struct SendEnv(pub Env);
unsafe impl Send for SendEnv {}

impl Env {
  fn busy(&self, h: &str) -> bool {
    self.futs.values().any(|f| f.handle == h && f.fut.is_some())
  }

  /// wake counts of live unresolved futures other than `except`
  pub fn fut_snapshot(&self, except: &str) -> String {
    self
      .futs
      .iter()
      .filter(|(n, s)| n.as_str() != except && s.fut.is_some())
      .map(|(n, s)| format!("{}={}", n, s.cw.wakes.load(Ordering::Relaxed)))
      .collect::<Vec<_>>()
      .join(",")
  }

  fn drop_fut(slot: FutSlot) -> String {
    let woken = slot.fut.is_some() && slot.cw.wakes.load(Ordering::Relaxed) > 0;
    drop(slot);
    if woken { "ok:woken".into() } else { "ok".into() }
  }

  /// Execute one op; the result token.
  pub fn exec(&mut self, op: &Op) -> String {
    if let Some(le) = self.locks.as_mut() {
      if let Some(r) = locks::exec(le, op) {
        return r;
      }
    }
    match op.name() {
      "fut" => {
        let f = op.arg(1).to_string();
        if op.arg(2) != "=" || f.is_empty() {
          return "invalid:syntax".into();
        }
        if self.futs.contains_key(&f) {
          return "invalid:exists".into();
        }
        let hn = op.h().to_string();
        let Some(h) = self.handles.get(&hn) else { return "invalid:nohandle".into() };
        if h.mut_api() && self.busy(&hn) {
          return "invalid:busy".into();
        }
        match h.make_fut(op) {
          Some(fut) => {
            self.futs.insert(
              f.clone(),
              FutSlot { fut: Some(fut), handle: hn, cw: CountWaker::new(&f), done: false },
            );
            "ok".into()
          }
          None => "unsupported".into(),
        }
      }
      "poll" => {
        let Some(slot) = self.futs.get_mut(op.arg(1)) else { return "invalid:nofut".into() };
        let Some(fut) = slot.fut.as_mut() else { return "invalid:done".into() };
        // `wakes` counts waker invocations since creation / the last poll
        slot.cw.wakes.store(0, Ordering::Relaxed);
        let waker = Waker::from(slot.cw.clone());
        let mut cx = Context::from_waker(&waker);
        match fut.as_mut().poll(&mut cx) {
          Poll::Pending => "pending".into(),
          Poll::Ready(r) => {
            slot.fut = None;
            slot.done = true;
            format!("ready:{}", r)
          }
        }
      }
      "wakes" => match self.futs.get(op.arg(1)) {
        Some(slot) => format!("n:{}", slot.cw.wakes.load(Ordering::Relaxed)),
        None => "invalid:nofut".into(),
      },
      "dropfut" => match self.futs.remove(op.arg(1)) {
        Some(slot) => Self::drop_fut(slot),
        None => "invalid:nofut".into(),
      },
      "drop" => {
        let hn = op.arg(1);
        if let Some(slot) = self.futs.remove(hn) {
          return Self::drop_fut(slot);
        }
        if self.busy(hn) {
          return "invalid:busy".into();
        }
        // a shared handle is dropped by the setup thread at teardown (when it holds the last reference)
        if self.handles.get(hn).map_or(false, |h| h.is_shared()) && !self.teardown {
          return "invalid:shared".into();
        }
        match self.handles.remove(hn) {
          Some(h) => {
            drop(h);
            "ok".into()
          }
          None => "invalid:nohandle".into(),
        }
      }
      "clone" => {
        let (hn, nn) = (op.arg(1), op.arg(2).to_string());
        if nn.is_empty() || self.handles.contains_key(&nn) {
          return "invalid:exists".into();
        }
        let Some(h) = self.handles.get(hn) else { return "invalid:nohandle".into() };
        if h.mut_api() && self.busy(hn) {
          return "invalid:busy".into();
        }
        match h.clone_h() {
          Some(n) => {
            self.handles.insert(nn, n);
            "ok".into()
          }
          None => "unsupported".into(),
        }
      }
      "to_async" | "to_sync" => {
        let hn = op.arg(1).to_string();
        if self.busy(&hn) {
          return "invalid:busy".into();
        }
        let Some(h) = self.handles.remove(&hn) else { return "invalid:nohandle".into() };
        match h.convert(op.name() == "to_async") {
          Ok(n) => {
            self.handles.insert(hn, n);
            "ok".into()
          }
          Err(old) => {
            self.handles.insert(hn, old);
            "unsupported".into()
          }
        }
      }
      _ => {
        let hn = op.arg(1).to_string();
        let Some(h) = self.handles.get(&hn) else { return "invalid:nohandle".into() };
        if h.mut_api() && self.busy(&hn) {
          return "invalid:busy".into();
        }
        let r = h.call(op);
        if r != "unsupported" {
          return r;
        }
        // consuming forms (oneshot send)
        if self.busy(&hn) {
          return "invalid:busy".into();
        }
        let h = self.handles.remove(&hn).unwrap();
        match h.consume(op) {
          Ok(r) => r,
          Err(h) => {
            self.handles.insert(hn, h);
            "unsupported".into()
          }
        }
      }
    }
  }

  /// Names in teardown order: futures first, then handles (both ascending).
  pub fn leftovers(&self) -> Vec<String> {
    let mut v: Vec<String> = self.futs.keys().cloned().collect();
    if let Some(le) = &self.locks {
      v.extend(le.leftovers());
    }
    v.extend(self.handles.keys().cloned());
    v
  }

  /// `share h` (setup thread, not logged): from now on every thread that names `h` gets a reference to the same
  /// handle object and calls its `&self` methods; `false` if the type is not `Sync`
  pub fn share(&mut self, hn: &str) -> bool {
    let Some(h) = self.handles.remove(hn) else { return false };
    if h.is_shared() {
      self.handles.insert(hn.to_string(), h);
      return true;
    }
    if !h.is_sync() || self.busy(hn) {
      self.handles.insert(hn.to_string(), h);
      return false;
    }
    self.handles.insert(hn.to_string(), Box::new(SharedH(std::sync::Arc::new(SharedBox(h)))));
    true
  }

  fn absorb(&mut self, other: Env) {
    let Env { futs, handles, locks, .. } = other;
    self.futs.extend(futs);
    self.handles.extend(handles);
    if let (Some(mine), Some(theirs)) = (self.locks.as_mut(), locks) {
      mine.absorb(theirs);
    }
  }
}

// ---------------------------------------------------------------- running

fn run_ops(env: &mut Env, sh: &Arc<Shared>, tid: usize, ops: &[Op]) -> bool {
  let r = catch_unwind(AssertUnwindSafe(|| {
    for op in ops {
      if op.name() == "share" {
        // harness-level, no event: see `Env::share`
        if !env.share(op.arg(1)) {
          sh.push(Ev::Panic { tid, msg: format!("share-{}-refused-type-is-not-Sync", op.arg(1)) });
          return;
        }
        continue;
      }
      rt::sched_point();
      sh.push(Ev::Call { tid, op: op.clone() });
      sh.stats[tid].polls.store(0, Ordering::Relaxed);
      sh.stats[tid].wakes.store(0, Ordering::Relaxed);
      let aux = if matches!(op.name(), "wakes" | "drop" | "dropfut") { env.fut_snapshot(op.arg(1)) } else { String::new() };
      let res = env.exec(op);
      sh.push(Ev::Ret { tid, res, aux });
    }
  }));
  match r {
    Ok(()) => true,
    Err(p) => {
      sh.push(Ev::Panic { tid, msg: panic_msg(p) });
      false
    }
  }
}

fn panic_msg(p: Box<dyn std::any::Any + Send>) -> String {
  let s = if let Some(s) = p.downcast_ref::<&str>() {
    s.to_string()
  } else if let Some(s) = p.downcast_ref::<String>() {
    s.clone()
  } else {
    "non-string-panic".to_string()
  };
  let first = s.lines().next().unwrap_or("");
  let mut out: String = first
    .chars()
    .map(|c| if c.is_ascii_alphanumeric() || "_-.:!'".contains(c) { c } else { '_' })
    .collect();
  out.truncate(100);
  out
}

/// Which thread (≥ 1) owns each pre-existing handle name: names a thread's
/// program uses without creating them.
fn handle_uses(prog: &[Op]) -> Vec<String> {
  let mut created: Vec<String> = Vec::new();
  let mut used: Vec<String> = Vec::new();
  for op in prog {
    let mut names: Vec<&str> = Vec::new();
    match op.name() {
      "fut" => {
        created.push(op.arg(1).to_string());
        names.push(op.h());
      }
      "poll" | "wakes" | "dropfut" => {}
      "clone" => {
        names.push(op.arg(1));
        created.push(op.arg(2).to_string());
      }
      "lock" | "try_lock" | "read" | "try_read" | "write" | "try_write" | "unlock" => {}
      _ => names.push(op.arg(1)),
    }
    for n in names {
      if !n.is_empty() && !created.iter().any(|c| c == n) && !used.iter().any(|u| u == n) {
        used.push(n.to_string());
      }
    }
  }
  used
}

pub struct RunResult {
  pub events: Vec<Ev>,
  /// per event: number of shim trace lines that precede it
  pub apos: Vec<usize>,
  pub outcome: rt::Outcome,
  /// (polls, wakes) per tid as seen at the end (meaningful at deadlock)
  pub stats: Vec<(usize, usize)>,
  pub invalid: Option<String>,
  /// (id, created, dropped) after teardown; empty unless the run completed
  pub drops: Vec<(u32, u32, u32)>,
}

pub fn run_case(case: &Case, cfg: rt::Config) -> RunResult {
  val::reset();
  let sh = Arc::new(Shared::new());
  // static validation: every pre-existing handle used by at most one thread ≥ 1
  let mut owner: BTreeMap<String, usize> = BTreeMap::new();
  let shared_names: Vec<String> = case.programs[0].iter().filter(|o| o.name() == "share").map(|o| o.arg(1).to_string()).collect();
  for (t, p) in case.programs.iter().enumerate().skip(1) {
    for n in handle_uses(p) {
      if shared_names.contains(&n) {
        continue;
      }
      if let Some(o) = owner.insert(n.clone(), t) {
        if o != t {
          return RunResult {
            events: Vec::new(),
            apos: Vec::new(),
            outcome: rt::Outcome { status: rt::Status::Ok, decisions: Vec::new(), steps: 0, diverged: false, threads: 0, trace: Vec::new() },
            stats: Vec::new(),
            invalid: Some(format!("handle-{}-used-by-threads-{}-and-{}", n, o, t)),
            drops: Vec::new(),
          };
        }
      }
    }
  }
  let invalid: Arc<Mutex<Option<String>>> = Arc::new(Mutex::new(None));
  let (sh2, inv2, case2) = (sh.clone(), invalid.clone(), case.clone());
  let outcome = rt::run(cfg, move || {
    let sh = sh2;
    let case = case2;
    set_ctx(&sh, 0);
    let mut env = Env::default();
    if case.flavour == "mutex" || case.flavour == "rwlock" {
      env.locks = Some(LockEnv::new(&case.flavour));
    } else {
      match make_channel(&case.flavour, case.cap) {
        Ok((s, r)) => {
          env.handles.insert("s0".into(), s);
          env.handles.insert("r0".into(), r);
        }
        Err(e) => {
          *inv2.lock().unwrap() = Some(e.replace(' ', "-"));
          return;
        }
      }
    }
    let ok0 = run_ops(&mut env, &sh, 0, &case.programs[0]);
    let mut joins = Vec::new();
    if ok0 {
      for (t, p) in case.programs.iter().enumerate().skip(1) {
        let mut tenv = Env::default();
        if let Some(le) = env.locks.as_ref() {
          tenv.locks = Some(le.share());
        }
        for n in handle_uses(p) {
          // shared handle: the setup thread keeps its reference, the thread gets another one
          if let Some(r) = env.handles.get(&n).and_then(|h| h.share_ref()) {
            tenv.handles.insert(n, r);
            continue;
          }
          if let Some(h) = env.handles.remove(&n) {
            tenv.handles.insert(n, h);
          }
        }
        let prog = p.clone();
        let sh3 = sh.clone();
        let senv = SendEnv(tenv);
        joins.push(loom::thread::spawn(move || {
          let mut senv = senv;
          set_ctx(&sh3, t);
          run_ops(&mut senv.0, &sh3, t, &prog);
          senv
        }));
      }
    }
    for j in joins {
      if let Ok(senv) = j.join() {
        env.absorb(senv.0);
      }
    }
    // teardown, logged like ordinary ops of tid 0
    let names = env.leftovers();
    let ops: Vec<Op> = names
      .iter()
      .map(|n| if env.locks.as_ref().map_or(false, |l| l.is_guard(n)) { Op::new(&["unlock", n]) } else { Op::new(&["drop", n]) })
      .collect();
    env.teardown = true;
    run_ops(&mut env, &sh, 0, &ops);
    drop(env);
  });
  let logged = sh.log.lock().unwrap_or_else(|e| e.into_inner()).clone();
  let events: Vec<Ev> = logged.iter().map(|(e, _)| e.clone()).collect();
  let apos: Vec<usize> = logged.iter().map(|(_, p)| *p).collect();
  let stats = sh.stats.iter().map(|s| (s.polls.load(Ordering::Relaxed), s.wakes.load(Ordering::Relaxed))).collect();
  let drops = if outcome.status == rt::Status::Ok { val::snapshot() } else { Vec::new() };
  let invalid = invalid.lock().unwrap().clone();
  RunResult { events, apos, outcome, stats, invalid, drops }
}
