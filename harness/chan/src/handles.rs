//! Uniform handle interface over every fibre channel end.
//!
//! Each concrete handle type is wrapped in `W<T>` and driven through the `H`
//! trait by op name. Results are rendered as canonical tokens (README.md).

use crate::exec::block_on;
use crate::prog::{show_list, Op};
use crate::val::V;
use fibre::error::{
  BatchSendErrorReason, CloseError, RecvError, RecvErrorTimeout, SendBatchError, SendError, TryRecvError,
  TrySendBatchError, TrySendError,
};
use fibre::{mpmc, mpsc, oneshot, spmc, spsc};
use std::cell::UnsafeCell;
use std::future::Future;
use std::pin::Pin;
use std::time::Duration;

pub type BoxFut = Pin<Box<dyn Future<Output = String>>>;

pub trait H {
  /// 's' (sender) or 'r' (receiver)
  fn side(&self) -> char;
  fn is_async(&self) -> bool;
  /// some API of this type takes `&mut self`: no op while one of its futures is alive
  fn mut_api(&self) -> bool;
  fn call(&self, op: &Op) -> String;
  fn make_fut(&self, _op: &Op) -> Option<BoxFut> {
    None
  }
  fn clone_h(&self) -> Option<Box<dyn H>> {
    None
  }
  fn convert(self: Box<Self>, to_async: bool) -> Result<Box<dyn H>, Box<dyn H>>;
  /// ops that consume the handle (oneshot `send`)
  fn consume(self: Box<Self>, _op: &Op) -> Result<String, Box<dyn H>>;
  /// Is the wrapped fibre type `Sync` (may several threads call its `&self` methods at once)?
  fn is_sync(&self) -> bool {
    false
  }
  /// Shared-handle call: the op through a plain `&T` (only forms whose method takes `&self`); `None` = the form
  /// needs `&mut self` on this type, or does not exist.
  fn call_shared(&self, _op: &Op) -> Option<String> {
    None
  }
  fn is_shared(&self) -> bool {
    false
  }
  /// another reference to a shared handle
  fn share_ref(&self) -> Option<Box<dyn H>> {
    None
  }
}

/// compile-time `T: Sync` test for concrete types (inherent associated const shadows the blanket trait const)
pub trait NotSyncDefault {
  const IS_SYNC: bool = false;
}
impl<T: ?Sized> NotSyncDefault for T {}
pub struct SyncProbe<T: ?Sized>(std::marker::PhantomData<T>);
#[allow(dead_code)]
impl<T: ?Sized + Sync> SyncProbe<T> {
  pub const IS_SYNC: bool = true;
}

/// A handle shared by several threads (`share h` in `P 0`): every thread that names it holds one of these. Only
/// `&self` forms are offered (`call_shared`); `drop` / conversions / consuming forms are refused while it is shared.
pub struct SharedH(pub std::sync::Arc<SharedBox>);
pub struct SharedBox(pub Box<dyn H>);
// the baton discipline runs one scheduler thread at a time; the wrapped type is `Sync` (checked by `share`)
unsafe impl Send for SharedBox {}
unsafe impl Sync for SharedBox {}

impl H for SharedH {
  fn side(&self) -> char {
    self.0 .0.side()
  }
  fn is_async(&self) -> bool {
    self.0 .0.is_async()
  }
  fn mut_api(&self) -> bool {
    false
  }
  fn call(&self, op: &Op) -> String {
    self.0 .0.call_shared(op).unwrap_or_else(|| "unsupported".to_string())
  }
  fn make_fut(&self, _op: &Op) -> Option<BoxFut> {
    None
  }
  fn clone_h(&self) -> Option<Box<dyn H>> {
    self.0 .0.clone_h()
  }
  fn convert(self: Box<Self>, _to_async: bool) -> Result<Box<dyn H>, Box<dyn H>> {
    Err(self)
  }
  fn consume(self: Box<Self>, _op: &Op) -> Result<String, Box<dyn H>> {
    Err(self)
  }
  fn is_sync(&self) -> bool {
    true
  }
  fn is_shared(&self) -> bool {
    true
  }
  fn share_ref(&self) -> Option<Box<dyn H>> {
    Some(Box::new(SharedH(self.0.clone())))
  }
}

pub struct W<T>(UnsafeCell<T>);

impl<T> W<T> {
  pub fn new(t: T) -> Self {
    W(UnsafeCell::new(t))
  }
}

fn boxed<T>(t: T) -> Box<dyn H>
where
  W<T>: H + 'static,
{
  Box::new(W::new(t))
}

// ---------------------------------------------------------------- rendering

fn ids(vs: &[V]) -> Vec<u32> {
  vs.iter().map(|v| v.id).collect()
}

fn mk(vs: &[u32]) -> Vec<V> {
  vs.iter().map(|i| V::new(*i)).collect()
}

pub fn fmt_send(r: Result<(), SendError>) -> String {
  match r {
    Ok(()) => "ok".into(),
    Err(SendError::Closed) => "err:closed".into(),
    Err(SendError::Sent) => "err:sent".into(),
  }
}

pub fn fmt_try_send(r: Result<(), TrySendError<V>>) -> String {
  match r {
    Ok(()) => "ok".into(),
    Err(TrySendError::Full(v)) => format!("err:full:{}", v.id),
    Err(TrySendError::Closed(v)) => format!("err:closed:{}", v.id),
    Err(TrySendError::Sent(v)) => format!("err:sent:{}", v.id),
  }
}

fn sent_prefix(input: &[u32], sent: usize) -> String {
  if sent <= input.len() { show_list(&input[..sent]) } else { format!("#{}", sent) }
}

pub fn fmt_send_batch(input: &[u32], r: Result<usize, SendBatchError<V>>) -> String {
  match r {
    Ok(n) => format!("n:{}", n),
    Err(e) => format!("err:closed:sent={}:unsent={}", sent_prefix(input, e.sent), show_list(&ids(&e.unsent))),
  }
}

pub fn fmt_try_send_batch(input: &[u32], r: Result<usize, TrySendBatchError<V>>) -> String {
  match r {
    Ok(n) => format!("n:{}", n),
    Err(e) => {
      let why = match e.reason {
        BatchSendErrorReason::Full => "full",
        BatchSendErrorReason::Closed => "closed",
      };
      format!("err:{}:sent={}:unsent={}", why, sent_prefix(input, e.sent), show_list(&ids(&e.unsent)))
    }
  }
}

pub fn fmt_send_mut(r: Result<usize, SendError>, left: &[V]) -> String {
  match r {
    Ok(n) => format!("n:{}:left={}", n, show_list(&ids(left))),
    Err(SendError::Closed) => format!("err:closed:left={}", show_list(&ids(left))),
    Err(SendError::Sent) => format!("err:sent:left={}", show_list(&ids(left))),
  }
}

pub fn fmt_recv(r: Result<V, RecvError>) -> String {
  match r {
    Ok(v) => format!("ok:{}", v.id),
    Err(RecvError::Disconnected) => "err:disconnected".into(),
  }
}

pub fn fmt_try_recv(r: Result<V, TryRecvError>) -> String {
  match r {
    Ok(v) => format!("ok:{}", v.id),
    Err(TryRecvError::Empty) => "err:empty".into(),
    Err(TryRecvError::Disconnected) => "err:disconnected".into(),
  }
}

pub fn fmt_recv_to(r: Result<V, RecvErrorTimeout>) -> String {
  match r {
    Ok(v) => format!("ok:{}", v.id),
    Err(RecvErrorTimeout::Timeout) => "err:timeout".into(),
    Err(RecvErrorTimeout::Disconnected) => "err:disconnected".into(),
  }
}

pub fn fmt_recv_batch(r: Result<Vec<V>, RecvError>) -> String {
  match r {
    Ok(vs) => format!("ok:{}", show_list(&ids(&vs))),
    Err(RecvError::Disconnected) => "err:disconnected".into(),
  }
}

pub fn fmt_try_recv_batch(r: Result<Vec<V>, TryRecvError>) -> String {
  match r {
    Ok(vs) => format!("ok:{}", show_list(&ids(&vs))),
    Err(TryRecvError::Empty) => "err:empty".into(),
    Err(TryRecvError::Disconnected) => "err:disconnected".into(),
  }
}

fn out_suffix(out: &[V]) -> String {
  if out.is_empty() { String::new() } else { format!(":out={}", show_list(&ids(out))) }
}

pub fn fmt_recv_mut(r: Result<usize, RecvError>, out: &[V]) -> String {
  match r {
    Ok(n) => format!("n:{}:out={}", n, show_list(&ids(out))),
    Err(RecvError::Disconnected) => format!("err:disconnected{}", out_suffix(out)),
  }
}

pub fn fmt_try_recv_mut(r: Result<usize, TryRecvError>, out: &[V]) -> String {
  match r {
    Ok(n) => format!("n:{}:out={}", n, show_list(&ids(out))),
    Err(TryRecvError::Empty) => format!("err:empty{}", out_suffix(out)),
    Err(TryRecvError::Disconnected) => format!("err:disconnected{}", out_suffix(out)),
  }
}

pub fn fmt_close(r: Result<(), CloseError>) -> String {
  match r {
    Ok(()) => "ok".into(),
    Err(CloseError) => "err:close".into(),
  }
}

fn fmt_cap(c: usize) -> String {
  if c == usize::MAX { "n:max".into() } else { format!("n:{}", c) }
}

fn fmt_cap_opt(c: Option<usize>) -> String {
  match c {
    Some(n) => format!("some:{}", n),
    None => "none".into(),
  }
}

// ---------------------------------------------------------------- op groups
// Each group is an expression of type Option<String>: Some(result) when the op
// name belongs to the group.

macro_rules! g_send_sync {
  ($h:expr, $op:expr) => {
    match $op.name() {
      "send" => Some(fmt_send($h.send(V::new($op.v0())))),
      "try_send" => Some(fmt_try_send($h.try_send(V::new($op.v0())))),
      _ => None,
    }
  };
}

macro_rules! g_send_async {
  ($h:expr, $op:expr) => {
    match $op.name() {
      "send" => Some(fmt_send(block_on($h.send(V::new($op.v0()))))),
      "try_send" => Some(fmt_try_send($h.try_send(V::new($op.v0())))),
      _ => None,
    }
  };
}

macro_rules! g_bsend_sync {
  ($h:expr, $op:expr) => {
    match $op.name() {
      "send_batch" => {
        let i = $op.vals();
        Some(fmt_send_batch(&i, $h.send_batch(mk(&i))))
      }
      "try_send_batch" => {
        let i = $op.vals();
        Some(fmt_try_send_batch(&i, $h.try_send_batch(mk(&i))))
      }
      "send_batch_mut" => {
        let mut items = mk(&$op.vals());
        let r = $h.send_batch_mut(&mut items);
        Some(fmt_send_mut(r, &items))
      }
      "try_send_batch_mut" => {
        let mut items = mk(&$op.vals());
        let r = $h.try_send_batch_mut(&mut items);
        Some(fmt_send_mut(r, &items))
      }
      _ => None,
    }
  };
}

macro_rules! g_bsend_async {
  ($h:expr, $op:expr) => {
    match $op.name() {
      "send_batch" => {
        let i = $op.vals();
        Some(fmt_send_batch(&i, block_on($h.send_batch(mk(&i)))))
      }
      "try_send_batch" => {
        let i = $op.vals();
        Some(fmt_try_send_batch(&i, $h.try_send_batch(mk(&i))))
      }
      "send_batch_mut" => {
        let mut items = mk(&$op.vals());
        let r = block_on($h.send_batch_mut(&mut items));
        Some(fmt_send_mut(r, &items))
      }
      "try_send_batch_mut" => {
        let mut items = mk(&$op.vals());
        let r = $h.try_send_batch_mut(&mut items);
        Some(fmt_send_mut(r, &items))
      }
      _ => None,
    }
  };
}

macro_rules! g_recv_sync {
  ($h:expr, $op:expr) => {
    match $op.name() {
      "recv" => Some(fmt_recv($h.recv())),
      "try_recv" => Some(fmt_try_recv($h.try_recv())),
      _ => None,
    }
  };
}

macro_rules! g_recv_async {
  ($h:expr, $op:expr) => {
    match $op.name() {
      "recv" => Some(fmt_recv(block_on($h.recv()))),
      "try_recv" => Some(fmt_try_recv($h.try_recv())),
      _ => None,
    }
  };
}

/// timeout of the `recv_timeout` op in milliseconds (`CHANH_TIMEOUT_MS`, default 40): small, because a timeout that
/// the scheduler fires costs the remaining REAL time (shim `park_timeout`); large enough that it does not pass by
/// itself during a run of a few hundred microseconds
pub fn timeout_ms() -> u64 {
  static T: std::sync::OnceLock<u64> = std::sync::OnceLock::new();
  *T.get_or_init(|| std::env::var("CHANH_TIMEOUT_MS").ok().and_then(|v| v.parse().ok()).filter(|v| *v >= 1).unwrap_or(40))
}

macro_rules! g_timeout {
  ($h:expr, $op:expr) => {
    match $op.name() {
      "recv_timeout0" => Some(fmt_recv_to($h.recv_timeout(Duration::ZERO))),
      "recv_timeout" => Some(fmt_recv_to($h.recv_timeout(Duration::from_millis(timeout_ms())))),
      _ => None,
    }
  };
}

macro_rules! g_brecv_sync {
  ($h:expr, $op:expr) => {
    match $op.name() {
      "recv_batch" => Some(fmt_recv_batch($h.recv_batch($op.n()))),
      "try_recv_batch" => Some(fmt_try_recv_batch($h.try_recv_batch($op.n()))),
      "recv_batch_mut" => {
        let mut out: Vec<V> = Vec::new();
        let r = $h.recv_batch_mut(&mut out, $op.n());
        Some(fmt_recv_mut(r, &out))
      }
      "try_recv_batch_mut" => {
        let mut out: Vec<V> = Vec::new();
        let r = $h.try_recv_batch_mut(&mut out, $op.n());
        Some(fmt_try_recv_mut(r, &out))
      }
      _ => None,
    }
  };
}

macro_rules! g_brecv_async {
  ($h:expr, $op:expr) => {
    match $op.name() {
      "recv_batch" => Some(fmt_recv_batch(block_on($h.recv_batch($op.n())))),
      "try_recv_batch" => Some(fmt_try_recv_batch($h.try_recv_batch($op.n()))),
      "recv_batch_mut" => {
        let mut out: Vec<V> = Vec::new();
        let r = block_on($h.recv_batch_mut(&mut out, $op.n()));
        Some(fmt_recv_mut(r, &out))
      }
      "try_recv_batch_mut" => {
        let mut out: Vec<V> = Vec::new();
        let r = $h.try_recv_batch_mut(&mut out, $op.n());
        Some(fmt_try_recv_mut(r, &out))
      }
      _ => None,
    }
  };
}

macro_rules! g_probe {
  ($h:expr, $op:expr) => {
    match $op.name() {
      "close" => Some(fmt_close($h.close())),
      "is_closed" => Some($h.is_closed().to_string()),
      "len" => Some(format!("n:{}", $h.len())),
      "is_empty" => Some($h.is_empty().to_string()),
      _ => None,
    }
  };
}

macro_rules! g_cap {
  ($h:expr, $op:expr) => {
    match $op.name() {
      "capacity" => Some(fmt_cap($h.capacity())),
      "is_full" => Some($h.is_full().to_string()),
      _ => None,
    }
  };
}

macro_rules! g_capopt {
  ($h:expr, $op:expr) => {
    match $op.name() {
      "capacity" => Some(fmt_cap_opt($h.capacity())),
      "is_full" => Some($h.is_full().to_string()),
      _ => None,
    }
  };
}

macro_rules! g_scount {
  ($h:expr, $op:expr) => {
    match $op.name() {
      "sender_count" => Some(format!("n:{}", $h.sender_count())),
      _ => None,
    }
  };
}

macro_rules! g_oneshot_s {
  ($h:expr, $op:expr) => {
    match $op.name() {
      "close" => Some(fmt_close($h.close())),
      "is_closed" => Some($h.is_closed().to_string()),
      "is_sent" => Some($h.is_sent().to_string()),
      _ => None,
    }
  };
}

macro_rules! g_oneshot_r {
  ($h:expr, $op:expr) => {
    match $op.name() {
      "recv" => Some(fmt_recv(block_on($h.recv()))),
      "try_recv" => Some(fmt_try_recv($h.try_recv())),
      "close" => Some(fmt_close($h.close())),
      "is_closed" => Some($h.is_closed().to_string()),
      _ => None,
    }
  };
}

// future groups: expression of type Option<BoxFut>; `$h` is a `'static` reference
macro_rules! f_send {
  ($h:expr, $op:expr) => {
    match $op.fut_kind() {
      "send_fut" => {
        let f = $h.send(V::new($op.v0()));
        Some(Box::pin(async move { fmt_send(f.await) }) as BoxFut)
      }
      _ => None,
    }
  };
}

macro_rules! f_bsend {
  ($h:expr, $op:expr) => {
    match $op.fut_kind() {
      "send_batch_fut" => {
        let i = $op.vals();
        let f = $h.send_batch(mk(&i));
        Some(Box::pin(async move { fmt_send_batch(&i, f.await) }) as BoxFut)
      }
      _ => None,
    }
  };
}

macro_rules! f_recv {
  ($h:expr, $op:expr) => {
    match $op.fut_kind() {
      "recv_fut" => {
        let f = $h.recv();
        Some(Box::pin(async move { fmt_recv(f.await) }) as BoxFut)
      }
      _ => None,
    }
  };
}

macro_rules! f_brecv {
  ($h:expr, $op:expr) => {
    match $op.fut_kind() {
      "recv_batch_fut" => {
        let f = $h.recv_batch($op.n());
        Some(Box::pin(async move { fmt_recv_batch(f.await) }) as BoxFut)
      }
      _ => None,
    }
  };
}

macro_rules! imp {
  ($ty:ty, $side:expr, $asyn:expr, $mutapi:ident, [$($g:ident),*], [$($f:ident),*], clone: $cl:expr, conv: $cv:expr) => {
    imp!($ty, $side, $asyn, $mutapi, [$($g),*], [$($f),*], clone: $cl, conv: $cv, shared: []);
  };
  ($ty:ty, $side:expr, $asyn:expr, $mutapi:ident, [$($g:ident),*], [$($f:ident),*], clone: $cl:expr, conv: $cv:expr, shared: [$($sg:ident),*]) => {
    impl H for W<$ty> {
      fn is_sync(&self) -> bool {
        #[allow(unused_imports)]
        use crate::handles::NotSyncDefault;
        <SyncProbe<$ty>>::IS_SYNC
      }
      #[allow(unused_variables)]
      fn call_shared(&self, op: &Op) -> Option<String> {
        if !self.is_sync() {
          return None;
        }
        // plain shared reference: compiles only for methods that take `&self`
        let h: &$ty = unsafe { &*self.0.get() };
        $( if let Some(r) = $sg!(h, op) { return Some(r); } )*
        None
      }
      fn side(&self) -> char { $side }
      fn is_async(&self) -> bool { $asyn }
      fn mut_api(&self) -> bool { imp!(@bool $mutapi) }
      #[allow(unused_mut, unused_variables)]
      fn call(&self, op: &Op) -> String {
        // SAFETY: the environment guarantees exclusivity for mutyes types
        // (no live future, single owner thread); mutno types only use `&T`.
        let h = imp!(@get $mutapi self);
        $( if let Some(r) = $g!(h, op) { return r; } )*
        "unsupported".to_string()
      }
      #[allow(unused_mut, unused_variables)]
      fn make_fut(&self, op: &Op) -> Option<BoxFut> {
        $( {
          // SAFETY: the handle lives in a Box that outlives every future made
          // from it (env drops futures first; drop/convert refuse while busy).
          let h = imp!(@getstatic $mutapi self, $ty);
          if let Some(r) = $f!(h, op) { return Some(r); }
        } )*
        None
      }
      fn clone_h(&self) -> Option<Box<dyn H>> {
        let f: fn(&$ty) -> Option<Box<dyn H>> = $cl;
        f(unsafe { &*self.0.get() })
      }
      fn convert(self: Box<Self>, to_async: bool) -> Result<Box<dyn H>, Box<dyn H>> {
        let f: fn($ty, bool) -> Result<Box<dyn H>, $ty> = $cv;
        match f(self.0.into_inner(), to_async) {
          Ok(b) => Ok(b),
          Err(t) => Err(Box::new(W::new(t))),
        }
      }
      fn consume(self: Box<Self>, _op: &Op) -> Result<String, Box<dyn H>> { Err(self) }
    }
  };
  (@bool mutyes) => { true };
  (@bool mutno) => { false };
  (@get mutyes $s:expr) => { unsafe { &mut *$s.0.get() } };
  (@get mutno $s:expr) => { unsafe { &*$s.0.get() } };
  (@getstatic mutyes $s:expr, $ty:ty) => { unsafe { &mut *($s.0.get() as *mut $ty) as &'static mut $ty } };
  (@getstatic mutno $s:expr, $ty:ty) => { unsafe { &*($s.0.get() as *const $ty) as &'static $ty } };
}

fn no_clone<T>(_: &T) -> Option<Box<dyn H>> {
  None
}

// ---------------------------------------------------------------- spsc
imp!(spsc::BoundedSyncSender<V>, 's', false, mutyes, [g_send_sync, g_bsend_sync, g_probe, g_cap], [],
  clone: no_clone, conv: |h, ta| if ta { Ok(boxed(h.to_async())) } else { Err(h) }, shared: [g_send_sync, g_bsend_sync, g_probe, g_cap]);
imp!(spsc::BoundedSyncReceiver<V>, 'r', false, mutyes, [g_recv_sync, g_timeout, g_brecv_sync, g_probe, g_cap], [],
  clone: no_clone, conv: |h, ta| if ta { Ok(boxed(h.to_async())) } else { Err(h) }, shared: [g_probe, g_cap]);
imp!(spsc::BoundedAsyncSender<V>, 's', true, mutyes, [g_send_async, g_bsend_async, g_probe, g_cap], [f_send, f_bsend],
  clone: no_clone, conv: |h, ta| if !ta { Ok(boxed(h.to_sync())) } else { Err(h) }, shared: [g_probe, g_cap]);
imp!(spsc::BoundedAsyncReceiver<V>, 'r', true, mutyes, [g_recv_async, g_brecv_async, g_probe, g_cap], [f_recv, f_brecv],
  clone: no_clone, conv: |h, ta| if !ta { Ok(boxed(h.to_sync())) } else { Err(h) }, shared: [g_probe, g_cap]);

// ---------------------------------------------------------------- mpsc bounded (v3)
imp!(mpsc::BoundedSyncSender<V>, 's', false, mutyes, [g_send_sync, g_bsend_sync, g_probe, g_cap], [],
  clone: |h| Some(boxed(h.clone())), conv: |h, ta| if ta { Ok(boxed(h.to_async())) } else { Err(h) }, shared: [g_send_sync, g_bsend_sync, g_probe, g_cap]);
imp!(mpsc::BoundedSyncReceiver<V>, 'r', false, mutyes, [g_recv_sync, g_timeout, g_brecv_sync, g_probe, g_cap], [],
  clone: no_clone, conv: |h, ta| if ta { Ok(boxed(h.to_async())) } else { Err(h) }, shared: [g_recv_sync, g_timeout, g_brecv_sync, g_probe, g_cap]);
imp!(mpsc::BoundedAsyncSender<V>, 's', true, mutno, [g_send_async, g_bsend_async, g_probe, g_cap], [f_send, f_bsend],
  clone: |h| Some(boxed(h.clone())), conv: |h, ta| if !ta { Ok(boxed(h.to_sync())) } else { Err(h) }, shared: [g_send_async, g_bsend_async, g_probe, g_cap]);
imp!(mpsc::BoundedAsyncReceiver<V>, 'r', true, mutno, [g_recv_async, g_brecv_async, g_probe, g_cap], [f_recv, f_brecv],
  clone: no_clone, conv: |h, ta| if !ta { Ok(boxed(h.to_sync())) } else { Err(h) }, shared: [g_recv_async, g_brecv_async, g_probe, g_cap]);

// ---------------------------------------------------------------- mpsc unbounded (v3)
imp!(mpsc::UnboundedSyncSender<V>, 's', false, mutyes, [g_send_sync, g_bsend_sync, g_probe, g_scount], [],
  clone: |h| Some(boxed(h.clone())), conv: |h, ta| if ta { Ok(boxed(h.to_async())) } else { Err(h) }, shared: [g_scount]);
imp!(mpsc::UnboundedSyncReceiver<V>, 'r', false, mutyes, [g_recv_sync, g_timeout, g_brecv_sync, g_probe, g_scount], [],
  clone: no_clone, conv: |h, ta| if ta { Ok(boxed(h.to_async())) } else { Err(h) }, shared: [g_recv_sync, g_timeout, g_brecv_sync, g_probe, g_scount]);
imp!(mpsc::UnboundedAsyncSender<V>, 's', true, mutyes, [g_send_async, g_bsend_async, g_probe, g_scount], [f_send, f_bsend],
  clone: |h| Some(boxed(h.clone())), conv: |h, ta| if !ta { Ok(boxed(h.to_sync())) } else { Err(h) }, shared: [g_scount]);
imp!(mpsc::UnboundedAsyncReceiver<V>, 'r', true, mutyes, [g_recv_async, g_brecv_async, g_probe, g_scount], [f_recv, f_brecv],
  clone: no_clone, conv: |h, ta| if !ta { Ok(boxed(h.to_sync())) } else { Err(h) }, shared: [g_probe, g_scount]);

// ---------------------------------------------------------------- mpmc bounded (v2)
imp!(mpmc::Sender<V>, 's', false, mutyes, [g_send_sync, g_bsend_sync, g_probe, g_cap], [],
  clone: |h| Some(boxed(h.clone())), conv: |h, ta| if ta { Ok(boxed(h.to_async())) } else { Err(h) }, shared: [g_send_sync, g_bsend_sync, g_probe, g_cap]);
imp!(mpmc::Receiver<V>, 'r', false, mutyes, [g_recv_sync, g_timeout, g_brecv_sync, g_probe, g_cap], [],
  clone: |h| Some(boxed(h.clone())), conv: |h, ta| if ta { Ok(boxed(h.to_async())) } else { Err(h) }, shared: [g_recv_sync, g_timeout, g_brecv_sync, g_probe, g_cap]);
imp!(mpmc::AsyncSender<V>, 's', true, mutno, [g_send_async, g_bsend_async, g_probe, g_cap], [f_send, f_bsend],
  clone: |h| Some(boxed(h.clone())), conv: |h, ta| if !ta { Ok(boxed(h.to_sync())) } else { Err(h) }, shared: [g_send_async, g_bsend_async, g_probe, g_cap]);
imp!(mpmc::AsyncReceiver<V>, 'r', true, mutno, [g_recv_async, g_brecv_async, g_probe, g_cap], [f_recv, f_brecv],
  clone: |h| Some(boxed(h.clone())), conv: |h, ta| if !ta { Ok(boxed(h.to_sync())) } else { Err(h) }, shared: [g_recv_async, g_brecv_async, g_probe, g_cap]);

// ---------------------------------------------------------------- mpmc unbounded
imp!(mpmc::UnboundedSyncSender<V>, 's', false, mutyes, [g_send_sync, g_bsend_sync, g_probe, g_cap, g_scount], [],
  clone: |h| Some(boxed(h.clone())), conv: |h, ta| if ta { Ok(boxed(h.to_async())) } else { Err(h) }, shared: [g_cap, g_scount]);
imp!(mpmc::UnboundedSyncReceiver<V>, 'r', false, mutyes, [g_recv_sync, g_timeout, g_brecv_sync, g_probe, g_cap, g_scount], [],
  clone: |h| Some(boxed(h.clone())), conv: |h, ta| if ta { Ok(boxed(h.to_async())) } else { Err(h) }, shared: [g_probe, g_cap, g_scount]);
imp!(mpmc::UnboundedAsyncSender<V>, 's', true, mutyes, [g_send_async, g_bsend_async, g_probe, g_cap, g_scount], [f_send, f_bsend],
  clone: |h| Some(boxed(h.clone())), conv: |h, ta| if !ta { Ok(boxed(h.to_sync())) } else { Err(h) }, shared: [g_cap, g_scount]);
imp!(mpmc::UnboundedAsyncReceiver<V>, 'r', true, mutyes, [g_recv_async, g_brecv_async, g_probe, g_cap, g_scount], [f_recv, f_brecv],
  clone: |h| Some(boxed(h.clone())), conv: |h, ta| if !ta { Ok(boxed(h.to_sync())) } else { Err(h) }, shared: [g_probe, g_cap, g_scount]);

// ---------------------------------------------------------------- rendezvous
imp!(spsc::RendezvousSyncSender<V>, 's', false, mutyes, [g_send_sync, g_probe, g_capopt], [],
  clone: no_clone, conv: |h, ta| if ta { Ok(boxed(h.to_async())) } else { Err(h) }, shared: [g_send_sync, g_probe, g_capopt]);
imp!(spsc::RendezvousSyncReceiver<V>, 'r', false, mutyes, [g_recv_sync, g_timeout, g_probe, g_capopt], [],
  clone: no_clone, conv: |h, ta| if ta { Ok(boxed(h.to_async())) } else { Err(h) }, shared: [g_recv_sync, g_timeout, g_probe, g_capopt]);
imp!(spsc::RendezvousAsyncSender<V>, 's', true, mutno, [g_send_async, g_probe, g_capopt], [f_send],
  clone: no_clone, conv: |h, ta| if !ta { Ok(boxed(h.to_sync())) } else { Err(h) }, shared: [g_send_async, g_probe, g_capopt]);
imp!(spsc::RendezvousAsyncReceiver<V>, 'r', true, mutno, [g_recv_async, g_probe, g_capopt], [f_recv],
  clone: no_clone, conv: |h, ta| if !ta { Ok(boxed(h.to_sync())) } else { Err(h) }, shared: [g_recv_async, g_probe, g_capopt]);

imp!(mpsc::RendezvousSyncSender<V>, 's', false, mutyes, [g_send_sync, g_probe, g_capopt], [],
  clone: |h| Some(boxed(h.clone())), conv: |h, ta| if ta { Ok(boxed(h.to_async())) } else { Err(h) }, shared: [g_send_sync, g_probe, g_capopt]);
imp!(mpsc::RendezvousSyncReceiver<V>, 'r', false, mutyes, [g_recv_sync, g_timeout, g_probe, g_capopt], [],
  clone: no_clone, conv: |h, ta| if ta { Ok(boxed(h.to_async())) } else { Err(h) }, shared: [g_recv_sync, g_timeout, g_probe, g_capopt]);
imp!(mpsc::RendezvousAsyncSender<V>, 's', true, mutno, [g_send_async, g_probe, g_capopt], [f_send],
  clone: |h| Some(boxed(h.clone())), conv: |h, ta| if !ta { Ok(boxed(h.to_sync())) } else { Err(h) }, shared: [g_send_async, g_probe, g_capopt]);
imp!(mpsc::RendezvousAsyncReceiver<V>, 'r', true, mutno, [g_recv_async, g_probe, g_capopt], [f_recv],
  clone: no_clone, conv: |h, ta| if !ta { Ok(boxed(h.to_sync())) } else { Err(h) }, shared: [g_recv_async, g_probe, g_capopt]);

imp!(mpmc::RendezvousSyncSender<V>, 's', false, mutyes, [g_send_sync, g_probe, g_capopt], [],
  clone: |h| Some(boxed(h.clone())), conv: |h, ta| if ta { Ok(boxed(h.to_async())) } else { Err(h) }, shared: [g_send_sync, g_probe, g_capopt]);
imp!(mpmc::RendezvousSyncReceiver<V>, 'r', false, mutyes, [g_recv_sync, g_timeout, g_probe, g_capopt], [],
  clone: |h| Some(boxed(h.clone())), conv: |h, ta| if ta { Ok(boxed(h.to_async())) } else { Err(h) }, shared: [g_recv_sync, g_timeout, g_probe, g_capopt]);
imp!(mpmc::RendezvousAsyncSender<V>, 's', true, mutno, [g_send_async, g_probe, g_capopt], [f_send],
  clone: |h| Some(boxed(h.clone())), conv: |h, ta| if !ta { Ok(boxed(h.to_sync())) } else { Err(h) }, shared: [g_send_async, g_probe, g_capopt]);
imp!(mpmc::RendezvousAsyncReceiver<V>, 'r', true, mutno, [g_recv_async, g_probe, g_capopt], [f_recv],
  clone: |h| Some(boxed(h.clone())), conv: |h, ta| if !ta { Ok(boxed(h.to_sync())) } else { Err(h) }, shared: [g_recv_async, g_probe, g_capopt]);

// ---------------------------------------------------------------- spmc broadcast
imp!(spmc::BoundedSyncSender<V>, 's', false, mutyes, [g_send_sync, g_bsend_sync, g_probe, g_cap], [],
  clone: no_clone, conv: |h, ta| if ta { Ok(boxed(h.to_async())) } else { Err(h) }, shared: [g_cap]);
imp!(spmc::BoundedSyncReceiver<V>, 'r', false, mutyes, [g_recv_sync, g_timeout, g_brecv_sync, g_probe, g_cap], [],
  clone: |h| Some(boxed(h.clone())), conv: |h, ta| if ta { Ok(boxed(h.to_async())) } else { Err(h) }, shared: [g_recv_sync, g_timeout, g_brecv_sync, g_probe, g_cap]);
imp!(spmc::BoundedAsyncSender<V>, 's', true, mutyes, [g_send_async, g_bsend_async, g_probe, g_cap], [f_send, f_bsend],
  clone: no_clone, conv: |h, ta| if !ta { Ok(boxed(h.to_sync())) } else { Err(h) }, shared: [g_cap]);
imp!(spmc::BoundedAsyncReceiver<V>, 'r', true, mutno, [g_recv_async, g_brecv_async, g_probe, g_cap], [f_recv, f_brecv],
  clone: |h| Some(boxed(h.clone())), conv: |h, ta| if !ta { Ok(boxed(h.to_sync())) } else { Err(h) }, shared: [g_recv_async, g_brecv_async, g_probe, g_cap]);

// ---------------------------------------------------------------- oneshot
impl H for W<oneshot::Sender<V>> {
  fn side(&self) -> char {
    's'
  }
  fn is_async(&self) -> bool {
    false
  }
  fn mut_api(&self) -> bool {
    false
  }
  fn call(&self, op: &Op) -> String {
    let h = unsafe { &*self.0.get() };
    if let Some(r) = g_oneshot_s!(h, op) {
      return r;
    }
    "unsupported".to_string()
  }
  fn clone_h(&self) -> Option<Box<dyn H>> {
    Some(boxed(unsafe { &*self.0.get() }.clone()))
  }
  fn convert(self: Box<Self>, _to_async: bool) -> Result<Box<dyn H>, Box<dyn H>> {
    Err(self)
  }
  fn consume(self: Box<Self>, op: &Op) -> Result<String, Box<dyn H>> {
    if op.name() == "send" {
      let h = self.0.into_inner();
      Ok(fmt_try_send(h.send(V::new(op.v0()))))
    } else {
      Err(self)
    }
  }
}

impl H for W<oneshot::Receiver<V>> {
  fn side(&self) -> char {
    'r'
  }
  fn is_async(&self) -> bool {
    true
  }
  fn mut_api(&self) -> bool {
    false
  }
  fn call(&self, op: &Op) -> String {
    let h = unsafe { &*self.0.get() };
    if let Some(r) = g_oneshot_r!(h, op) {
      return r;
    }
    "unsupported".to_string()
  }
  fn make_fut(&self, op: &Op) -> Option<BoxFut> {
    let h = unsafe { &*(self.0.get() as *const oneshot::Receiver<V>) as &'static oneshot::Receiver<V> };
    f_recv!(h, op)
  }
  fn convert(self: Box<Self>, _to_async: bool) -> Result<Box<dyn H>, Box<dyn H>> {
    Err(self)
  }
  fn consume(self: Box<Self>, _op: &Op) -> Result<String, Box<dyn H>> {
    Err(self)
  }
}

// ---------------------------------------------------------------- construction

/// Create the channel of a flavour; returns (s0, r0).
pub fn make_channel(flavour: &str, cap: usize) -> Result<(Box<dyn H>, Box<dyn H>), String> {
  fn pair<A, B>(p: (A, B)) -> (Box<dyn H>, Box<dyn H>)
  where
    W<A>: H + 'static,
    W<B>: H + 'static,
  {
    (boxed(p.0), boxed(p.1))
  }
  let need_cap = |c: usize| if c == 0 { Err(format!("flavour {} needs cap >= 1", flavour)) } else { Ok(c) };
  Ok(match flavour {
    "spsc" => pair(spsc::bounded_sync::<V>(need_cap(cap)?)),
    "spsc_async" => pair(spsc::bounded_async::<V>(need_cap(cap)?)),
    "mpsc_b" => pair(mpsc::bounded::<V>(need_cap(cap)?)),
    "mpsc_b_async" => pair(mpsc::bounded_async::<V>(need_cap(cap)?)),
    "mpsc_u" => pair(mpsc::unbounded::<V>()),
    "mpsc_u_async" => pair(mpsc::unbounded_async::<V>()),
    "mpmc_b" => pair(mpmc::bounded::<V>(need_cap(cap)?)),
    "mpmc_b_async" => pair(mpmc::bounded_async::<V>(need_cap(cap)?)),
    "mpmc_u" => pair(mpmc::unbounded::<V>()),
    "mpmc_u_async" => pair(mpmc::unbounded_async::<V>()),
    "rdv_spsc" => pair(spsc::rendezvous::rendezvous::<V>()),
    "rdv_spsc_async" => pair(spsc::rendezvous::rendezvous_async::<V>()),
    "rdv_mpsc" => pair(mpsc::rendezvous::rendezvous::<V>()),
    "rdv_mpsc_async" => pair(mpsc::rendezvous::rendezvous_async::<V>()),
    "rdv_mpmc" => pair(mpmc::rendezvous::rendezvous::<V>()),
    "rdv_mpmc_async" => pair(mpmc::rendezvous::rendezvous_async::<V>()),
    "oneshot" => pair(oneshot::oneshot::<V>()),
    "spmc" => pair(spmc::bounded::<V>(need_cap(cap)?)),
    "spmc_async" => pair(spmc::bounded_async::<V>(need_cap(cap)?)),
    _ => return Err(format!("unknown channel flavour {}", flavour)),
  })
}
