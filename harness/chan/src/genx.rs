//! Extended ("x") generator families: size and contention diversity (README "Extended generator families").
//!
//! * `big`      (seq)   capacity from `CAPS_X`, batches up to 40, optional soak prefix
//! * `soak`     (conc / async) the setup thread pushes / pops enough to wrap rings and cross chunk / slab boundaries,
//!              then the classic concurrent / manual-poll program runs (batches up to 5) on a `CAPS_X` capacity
//! * `waiters-recv` / `waiters-send` (conc) k > cap threads parked in `recv` / `send`, then the other side moves
//!              cap+1 items with non-blocking forms, probes `len` / `is_full`, and releases everybody
//! * `contend`  (conc)  2–3 producers race batch sends (mostly the in-place forms) for the last free slots of a
//!              nearly full small channel; every producer drops its handle; the consumer drains to Disconnected
//! * `waiters-fut-recv` / `waiters-fut-send` (async) the same with manually polled futures in one thread
//!              (deterministic: k > cap registered waiters, then cap+1 non-blocking operations of the other side)

use crate::gen::{batch_k, fl, gen_async_with, gen_conc_with, gen_seq_big, soak_prefix, Fl, Rng, CAPS_X};
use crate::prog::{arg_list, Op};

const SMALL_CAPS: &[usize] = &[1, 2, 3, 3, 5, 5, 6, 7];

fn op(parts: &[&str]) -> Op {
  Op::new(parts)
}

/// (capacity, programs, family name)
pub fn gen_x(rng: &mut Rng, mode: &str, flavour: &str, thorough: bool) -> (usize, Vec<Vec<Op>>, &'static str) {
  let f = fl(flavour);
  let bounded = !f.unbounded && !f.rdv && !f.oneshot;
  match mode {
    "seq" => {
      let cap = *rng.pick(CAPS_X);
      (cap, gen_seq_big(rng, flavour, cap, thorough), "big")
    }
    "async" => {
      let mut fams: Vec<&'static str> = vec!["soak"];
      if bounded && !f.spmc && f.r_clone {
        fams.extend(["waiters-fut-recv", "waiters-fut-recv"]);
      }
      if bounded && !f.spmc && f.s_clone {
        fams.extend(["waiters-fut-send", "waiters-fut-send"]);
      }
      match *rng.pick(&fams) {
        "waiters-fut-recv" => {
          let cap = *rng.pick(SMALL_CAPS);
          (cap, waiters_fut(rng, f, cap, true), "waiters-fut-recv")
        }
        "waiters-fut-send" => {
          let cap = *rng.pick(SMALL_CAPS);
          (cap, waiters_fut(rng, f, cap, false), "waiters-fut-send")
        }
        _ => {
          let cap = *rng.pick(CAPS_X);
          let (pre, nv) = soak_prefix(rng, flavour, cap);
          (cap, gen_async_with(rng, flavour, cap, thorough, pre, nv), "soak")
        }
      }
    }
    _ => {
      if f.rdv {
        return (0, timed_park(rng, f, 0), "timed-park");
      }
      let mut fams: Vec<&'static str> = vec!["soak", "soak"];
      if !f.asyn {
        fams.extend(["timed-park", "timed-park"]);
      }
      if f.r_clone && !f.rdv {
        fams.extend(["waiters-recv", "waiters-recv"]);
      }
      if f.s_clone && bounded {
        fams.extend(["waiters-send", "waiters-send", "contend", "contend", "contend"]);
      }
      match *rng.pick(&fams) {
        "waiters-recv" => {
          // (sizes: the history-level engines enumerate the orders in which k parked operations take effect — the
          // waiter-queue engine of the bounded mpmc needs seconds per case from 4 parked receivers on — so the threaded
          // families stay at k ≤ 3; capacities 3,5,6,7 with k > cap waiters are reached by the manual-poll families)
          let cap = *rng.pick(&[1usize, 1, 2, 2]);
          (cap, waiters_recv(rng, f, cap), "waiters-recv")
        }
        "waiters-send" => {
          // k parked senders can take effect in k! orders: the linearizability search stays cheap up to ~4 of them
          let cap = *rng.pick(&[1usize, 1, 2, 2]);
          (cap, waiters_send(rng, f, cap), "waiters-send")
        }
        "timed-park" => {
          let cap = *rng.pick(&[1usize, 1, 2, 2, 3]);
          (cap, timed_park(rng, f, cap), "timed-park")
        }
        "contend" => {
          let cap = *rng.pick(&[1usize, 2, 2, 3, 3, 5]);
          (cap, contend(rng, f, cap), "contend")
        }
        _ => {
          let cap = *rng.pick(CAPS_X);
          let (pre, nv) = soak_prefix(rng, flavour, cap);
          (cap, gen_conc_with(rng, flavour, cap, thorough, pre, nv, 5), "soak")
        }
      }
    }
  }
}

fn vals(next_v: &mut u32, k: usize) -> Vec<u32> {
  (0..k)
    .map(|_| {
      let v = *next_v;
      *next_v += 1;
      v
    })
    .collect()
}

/// The consumer parks in the TIMED receive on an empty channel (it is thread 1, spawned first); the producer sends
/// cap+1 items: the first wakes the consumer, the rest fill the ring, the last one parks the producer — which only the
/// consumer's wake-path `notify_senders` releases. The consumer does little or nothing afterwards, so a producer left
/// parked with space available stays visible (deadlock + `blocked-with-space-available`).
fn timed_park(rng: &mut Rng, f: Fl, cap: usize) -> Vec<Vec<Op>> {
  let mut next_v = 1u32;
  let mut c = vec![op(&["recv_timeout", "r0"])];
  match rng.below(10) {
    0..=3 => {}
    4..=5 => c.push(op(&["len", "r0"])),
    6..=7 => c.push(op(&["try_recv", "r0"])),
    _ => c.push(op(&["recv_timeout", "r0"])),
  }
  if rng.chance(40) {
    c.push(op(&["drop", "r0"]));
  }
  let mut p = Vec::new();
  let n = if f.rdv || f.unbounded { rng.range(1, 2) } else { cap + 1 };
  if f.batch && !f.spmc && rng.chance(25) {
    let vs = vals(&mut next_v, n);
    p.push(op(&[*rng.pick(&["send_batch", "send_batch_mut"]), "s0", &arg_list(&vs)]));
  } else {
    for _ in 0..n {
      let v = vals(&mut next_v, 1);
      p.push(op(&["send", "s0", &v[0].to_string()]));
    }
  }
  if rng.chance(60) {
    p.push(op(&["drop", "s0"]));
  }
  vec![Vec::new(), c, p]
}

/// k > cap receivers (clones) parked in a blocking receive; the sender moves cap+1 items with `try_send*`,
/// probes, sends what is needed for everybody, and drops (so every receiver returns).
fn waiters_recv(rng: &mut Rng, f: Fl, cap: usize) -> Vec<Vec<Op>> {
  let c = if f.unbounded { rng.range(1, 2) } else { cap };
  let k = (c + rng.range(1, 2)).min(3);
  let mut setup = Vec::new();
  for i in 1..k {
    setup.push(op(&["clone", "r0", &format!("r{}", i)]));
  }
  let mut progs = vec![setup];
  let mut next_v = 1u32;
  // sender first (tid 1): it is spawned first, the receivers park while it is being scheduled
  let mut s = Vec::new();
  if rng.chance(35) {
    s.push(op(&["len", "s0"]));
  }
  if f.batch && rng.chance(30) {
    let vs = vals(&mut next_v, c + 1);
    s.push(op(&[*rng.pick(&["try_send_batch", "try_send_batch_mut"]), "s0", &arg_list(&vs)]));
  } else {
    for _ in 0..c + 1 {
      let v = vals(&mut next_v, 1);
      s.push(op(&["try_send", "s0", &v[0].to_string()]));
    }
  }
  s.push(op(&["len", "s0"]));
  if f.has_cap {
    s.push(op(&["is_full", "s0"]));
  }
  let more = rng.range(0, 2);
  for _ in 0..more {
    let v = vals(&mut next_v, 1);
    s.push(op(&[*rng.pick(&["send", "try_send"]), "s0", &v[0].to_string()]));
  }
  s.push(op(&["drop", "s0"]));
  progs.push(s);
  for i in 0..k {
    let h = format!("r{}", i);
    let mut p = Vec::new();
    let form = if f.batch { *rng.pick(&["recv", "recv", "recv", "recv_batch", "recv_batch_mut"]) } else { "recv" };
    if form == "recv" {
      p.push(op(&["recv", &h]));
    } else {
      p.push(op(&[form, &h, &rng.range(1, 2).to_string()]));
    }
    if rng.chance(25) {
      p.push(op(&[*rng.pick(&["try_recv", "recv", "len"]), &h]));
    }
    if rng.chance(85) {
      p.push(op(&["drop", &h]));
    }
    progs.push(p);
  }
  progs
}

/// the channel is full; k > cap senders (clones) park in a blocking send; the receiver probes, takes items out with
/// non-blocking forms first, then drains to Disconnected.
fn waiters_send(rng: &mut Rng, f: Fl, cap: usize) -> Vec<Vec<Op>> {
  let k = (cap + rng.range(1, 2)).min(3);
  let mut next_v = 1u32;
  let mut setup = Vec::new();
  for i in 1..k {
    setup.push(op(&["clone", "s0", &format!("s{}", i)]));
  }
  for _ in 0..cap {
    let v = vals(&mut next_v, 1);
    setup.push(op(&["try_send", "s0", &v[0].to_string()]));
  }
  let mut progs = vec![setup];
  let mut total = cap;
  let mut senders = Vec::new();
  for i in 0..k {
    let h = format!("s{}", i);
    let mut p = Vec::new();
    if f.batch && rng.chance(25) {
      let n = rng.range(1, 2);
      let vs = vals(&mut next_v, n);
      total += n;
      p.push(op(&[*rng.pick(&["send_batch", "send_batch_mut"]), &h, &arg_list(&vs)]));
    } else {
      let v = vals(&mut next_v, 1);
      total += 1;
      p.push(op(&["send", &h, &v[0].to_string()]));
    }
    p.push(op(&["drop", &h]));
    senders.push(p);
  }
  // receiver (tid 1)
  let mut r = Vec::new();
  r.push(op(&["len", "r0"]));
  let mut taken = 0usize;
  let first = rng.range(1, cap + 1);
  if f.batch && rng.chance(40) {
    r.push(op(&[*rng.pick(&["try_recv_batch", "try_recv_batch_mut"]), "r0", &first.to_string()]));
  } else {
    for _ in 0..first {
      r.push(op(&["try_recv", "r0"]));
    }
  }
  taken += first;
  r.push(op(&["len", "r0"]));
  if f.has_cap {
    r.push(op(&["is_full", "r0"]));
  }
  while taken < total + 1 {
    if f.batch && rng.chance(30) {
      let n = rng.range(2, 4);
      r.push(op(&[*rng.pick(&["recv_batch", "recv_batch_mut"]), "r0", &n.to_string()]));
      taken += 1; // a batch receive returns at least one item; count conservatively so the drain reaches Disconnected
    } else {
      r.push(op(&["recv", "r0"]));
      taken += 1;
    }
  }
  r.push(op(&["drop", "r0"]));
  progs.push(r);
  progs.extend(senders);
  progs
}

/// 2–3 producers race batch sends for the last free slots of a nearly full small channel; each drops its handle;
/// the consumer drains until Disconnected, so a value whose send reported success and that is never delivered
/// breaks the history (and the drop accounting).
fn contend(rng: &mut Rng, f: Fl, cap: usize) -> Vec<Vec<Op>> {
  let ns = rng.range(2, 3);
  let mut next_v = 1u32;
  let mut setup = Vec::new();
  for i in 1..ns {
    setup.push(op(&["clone", "s0", &format!("s{}", i)]));
  }
  let pre = rng.range(0, cap);
  for _ in 0..pre {
    let v = vals(&mut next_v, 1);
    setup.push(op(&["try_send", "s0", &v[0].to_string()]));
  }
  let mut total = pre;
  let mut progs = vec![setup];
  let mut senders = Vec::new();
  for i in 0..ns {
    let h = format!("s{}", i);
    let mut p = Vec::new();
    let n = rng.range(1, 3);
    for _ in 0..n {
      let form = *rng.pick(&[
        "send_batch_mut", "send_batch_mut", "send_batch_mut", "send_batch_mut", "send_batch", "send_batch", "try_send_batch_mut",
        "try_send_batch", "send",
      ]);
      if form == "send" {
        let v = vals(&mut next_v, 1);
        total += 1;
        p.push(op(&["send", &h, &v[0].to_string()]));
      } else {
        let k = rng.range(1, 3);
        let vs = vals(&mut next_v, k);
        total += k;
        p.push(op(&[form, &h, &arg_list(&vs)]));
      }
    }
    p.push(op(&["drop", &h]));
    senders.push(p);
  }
  let mut r = Vec::new();
  let mut taken = 0usize;
  while taken < total + 1 {
    if rng.chance(20) {
      r.push(op(&[*rng.pick(&["recv_batch", "recv_batch_mut"]), "r0", &rng.range(1, 3).to_string()]));
    } else if rng.chance(12) {
      r.push(op(&["try_recv", "r0"]));
      continue;
    } else {
      r.push(op(&["recv", "r0"]));
    }
    taken += 1;
  }
  r.push(op(&["drop", "r0"]));
  progs.push(r);
  progs.extend(senders);
  let _ = f;
  progs
}

/// One thread, manually polled futures: `recv_side`: k > cap receive futures registered on an empty channel, then
/// cap+1 `try_send`s, `len` / `is_full`, `wakes`, polls; else: the channel is filled, k > cap send futures are
/// registered, then receives, probes, `wakes`, polls.
fn waiters_fut(rng: &mut Rng, f: Fl, cap: usize, recv_side: bool) -> Vec<Vec<Op>> {
  let k = (cap + rng.range(1, 2)).min(9);
  let mut ops = Vec::new();
  let mut next_v = 1u32;
  // one live future per handle (clones give the concurrency): a second receive future on a single-consumer
  // receiver only overwrites the one waker slot, which is not a meaningful use of the API
  let can_clone = if recv_side { f.r_clone } else { f.s_clone };
  let side = if recv_side { "r" } else { "s" };
  let nh = if can_clone { k } else { 1 };
  for i in 1..nh {
    ops.push(op(&["clone", &format!("{}0", side), &format!("{}{}", side, i)]));
  }
  let kk = nh;
  if !recv_side {
    for _ in 0..cap {
      let v = vals(&mut next_v, 1);
      ops.push(op(&["try_send", "s0", &v[0].to_string()]));
    }
  }
  let mut futs = Vec::new();
  for i in 0..kk {
    let h = format!("{}{}", side, i % nh);
    let fname = format!("f{}", i);
    if recv_side {
      if f.batch && rng.chance(15) {
        ops.push(op(&["fut", &fname, "=", "recv_batch_fut", &h, &rng.range(1, 2).to_string()]));
      } else {
        ops.push(op(&["fut", &fname, "=", "recv_fut", &h]));
      }
    } else if f.batch && rng.chance(15) {
      let vs = vals(&mut next_v, rng.range(1, 2));
      ops.push(op(&["fut", &fname, "=", "send_batch_fut", &h, &arg_list(&vs)]));
    } else {
      let v = vals(&mut next_v, 1);
      ops.push(op(&["fut", &fname, "=", "send_fut", &h, &v[0].to_string()]));
    }
    ops.push(op(&["poll", &fname]));
    futs.push(fname);
  }
  let probe_h = if recv_side { "s0" } else { "r0" };
  if recv_side {
    if f.batch && rng.chance(25) {
      let vs = vals(&mut next_v, cap + 1);
      ops.push(op(&["try_send_batch", "s0", &arg_list(&vs)]));
    } else {
      for _ in 0..cap + 1 {
        let v = vals(&mut next_v, 1);
        ops.push(op(&["try_send", "s0", &v[0].to_string()]));
      }
    }
  } else {
    let n = rng.range(1, cap + 1);
    if f.batch && rng.chance(30) {
      ops.push(op(&["try_recv_batch", "r0", &n.to_string()]));
    } else {
      for _ in 0..n {
        ops.push(op(&["try_recv", "r0"]));
      }
    }
  }
  ops.push(op(&["len", probe_h]));
  if f.has_cap {
    ops.push(op(&["is_full", probe_h]));
  }
  if rng.chance(50) {
    let fw = rng.pick(&futs[..]).clone();
    ops.push(op(&["wakes", &fw]));
  }
  // polled in registration order, none left out: the wake-ups went to the oldest waiters, so no un-woken future is
  // polled while an item meant for a woken one is there (that "steal" leaves a dangling waiter record in the
  // bounded mpmc — known finding F17, undefined behaviour — and is left to the classic generator's random polls)
  for fname in &futs {
    ops.push(op(&["poll", fname]));
  }
  ops.push(op(&["len", probe_h]));
  // a second round of the other side, then poll again
  if recv_side {
    for _ in 0..rng.range(0, 2) {
      let v = vals(&mut next_v, 1);
      ops.push(op(&["try_send", "s0", &v[0].to_string()]));
    }
  } else {
    for _ in 0..rng.range(0, 3) {
      ops.push(op(&["try_recv", "r0"]));
    }
  }
  let skip_from = rng.range(1, futs.len());
  for fname in futs.iter().take(skip_from) {
    ops.push(op(&["poll", fname]));
  }
  for fname in &futs {
    if rng.chance(70) {
      ops.push(op(&["dropfut", fname]));
    }
  }
  let _ = batch_k;
  vec![ops]
}
