#!/usr/bin/env python3
"""Rebuild /verif/harness/chan/FINDINGS.md from the witness files (run after mkwitness.py)."""
F = "/verif/findings/"
groups = [
    ("F1", "C01 (C06 for the future shape)", F + "C01_F1_rdv_timed_recv_cancel_race.case",
     "rendezvous `cancel_receiver` CASes WAITING→CANCELLED before taking the lock; a sender that pops the record in between completes the hand-off: `try_send` = ok, `recv_timeout` = Timeout, value dropped unreceived"),
    ("F1", "C06", F + "C06_F1_rdv_dropped_recv_future.case", "same race with a dropped pending `RecvFuture` instead of the timeout"),
    ("F2", "C06", F + "C06_F2_wake_one_swallowed_by_dropped_future.case",
     "wake-one consumed by a future that is then dropped is not forwarded (mpmc bounded v2 receivers and senders, mpsc bounded v3 senders, mpmc unbounded receivers); sequential manual-poll programs"),
    ("F3 (open)", "C04", F + "C04_F3_conversion_resets_closed.case",
     "`to_async`/`to_sync` on a handle whose `close()` already ran yields a handle with `closed=false` that accepts ops again — every flavour EXCEPT mpsc_b*, mpsc_u*, mpmc_u* (these carry the flag over)"),
    ("F3 (open, further call sites)", "C04", F + "C04_F3_mpmc_async_futures_ignore_closed.case",
     "mpmc bounded `AsyncSender::{send,send_batch,send_batch_mut}` and `AsyncReceiver::{recv,recv_batch,recv_batch_mut}` futures never check the handle's `closed` flag"),
    ("F3 (open, further call sites)", "C04", F + "C04_F3_rdv_async_futures_ignore_closed.case",
     "rendezvous (spsc/mpsc/mpmc) async `send`/`recv` futures on a closed handle register and wait forever instead of returning Closed/Disconnected"),
    ("F5", "C05 (C01)", F + "C05_F5_mpmc_recv_timeout_unreachable.case",
     "mpmc `recv_timeout`: waiter marked SUCCESS by a sender, item taken by a barging receiver, deadline path hits `unreachable!(\"state was finished but channel empty\")`"),
    ("F14", "C05", F + "C05_F14_mpsc_b_send_blocked_with_space.case",
     "mpsc bounded v3 hoards freed credit: a sender parked in `send` is not woken by a `recv()` that frees a slot; deadlock while the receiver handle idles"),
    ("F14", "C06", F + "C06_F14_mpsc_b_async_send_fut_not_woken.case",
     "async shape: Pending `SendFuture` gets 0 waker calls after `try_recv` freed a slot (len 3/4, is_full false, try_send ok)"),
    ("N1 (new)", "C04 (i),(ii)", F + "C04_N1_mpmc_disconnected_before_drain.case",
     "mpmc bounded v2 (sync and async): a parked receiver whose waiter was marked CLOSED by the last sender's drop returns Disconnected without re-checking the queue while an item is still buffered (its wake-one went to another receiver); the same handle then receives that item (value after Disconnected)"),
    ("OBS", "C04/C05?", F + "C04_OBS_oneshot_recv_after_taken.case",
     "oneshot after the value was taken and all senders are gone: `try_recv` = Empty (not Disconnected); a `recv()` that is already Pending when the last sender leaves is never woken (conc runs: `oneshot:recv:blocked-after-all-senders-gone`). Possibly API misuse; listed for a decision"),
]


def sigs(path):
    out, cid = [], None
    for l in open(path):
        if l.startswith("#case "):
            cid = l.split()[1]
        if l.startswith("!monitor "):
            out.append((l[len("!monitor "):].split(" | ")[0].strip(), cid))
    return out


md = ["# Findings exhibited by chanh\n\n",
      "Each row: DESIGN §11 id, property, monitor signature (the exact string after `!monitor `), witness file, case id inside the file, what fails. ",
      "`chanh run <file>` reproduces every witness deterministically (the files are full transcripts with their `S` lines; `chanh run` ignores the recorded results). ",
      "Regenerate with `python3 /verif/harness/chan/tools/mkwitness.py && python3 /verif/harness/chan/tools/mkfindings.py` (needs a built chanh). ",
      "`/verif/known_findings.json` is not edited by this harness; copy entries from here.\n\n",
      "Consequences of a closed-handle defect inside the same case are reported with a suffix (`-after-conversion`, `-after-clone-of-closed-handle`, `-after-closed-handle-accepted`) so that they do not look like independent findings.\n\n",
      "| id | property | signature | witness | case | what |\n|---|---|---|---|---|---|\n"]
for fid, prop, path, what in groups:
    for sig, cid in sigs(path):
        md.append(f"| {fid} | {prop} | `{sig}` | {path} | {cid} | {what} |\n")
md.append("\n## No longer reproducing (fixed in the /repo working tree) — regression cases\n\n"
          "`/verif/corpus/chan/C04_F3_fixed_sites.case`: spsc `send_batch` after `close()`, mpsc v3 `recv_timeout` and mpmc `recv_timeout` on a closed receiver. "
          "Former signatures: `spsc:send_batch:closed-handle-accepted`, `mpsc_b:recv_timeout0:closed-handle-accepted`, `mpmc_b:recv_timeout0:closed-handle-accepted`. No monitor may fire on these cases now.\n")
md.append("\n## Not reproducible through this harness\n\n"
          "* F3 topic `recv`/`try_recv` ignoring `closed`, F4 (topic): the topic module is outside the loom facade and is not driven by chanh.\n"
          "* F3 \"mpmc converted handle's drop underflows `sender_count` (panic in dev profile)\": chanh is built in release profile (wrapping arithmetic); the double `close_internal` shows only through `closed-handle-accepted-after-conversion` and its suffixed consequences.\n")
open("/verif/harness/chan/FINDINGS.md", "w").write("".join(md))
print("FINDINGS.md:", sum(1 for l in md if l.startswith("| ") and not l.startswith("| id")), "rows")
