#!/usr/bin/env python3
"""Regenerate the channel witness files under /verif/findings and the fixed-site
regression cases under /verif/corpus/chan.

Schedules for the racy witnesses are found by a tiny search: thread 1 runs k
decisions, then thread 2 (then 3) run to completion (`prefer=`), for k = 0..60;
the first k whose transcript carries the wanted monitor signature is kept. The
stored file is the full transcript (with its S lines), which `chanh run`
replays exactly."""
import os, subprocess, sys

B = os.environ.get("CHANH", "/verif/.build/cargo/chan/release/chanh")
FIND = "/verif/findings"
CORP = "/verif/corpus/chan"
TMP = "/verif/.build/scratch-chanh"
os.makedirs(TMP, exist_ok=True)


def run(text):
    p = os.path.join(TMP, "mkw.case")
    open(p, "w").write(text)
    r = subprocess.run([B, "run", p], stdout=subprocess.PIPE, stderr=subprocess.DEVNULL, text=True, timeout=600)
    return r.stdout


def blocks(out):
    return [b + "#end\n" for b in out.split("#end\n") if b.strip()]


def case(cid, fl, cap, progs, sched=None, extra=""):
    s = f"#case {cid} flavour={fl} cap={cap} strategy=replay seed=0 mode=witness{extra}\n"
    for t, p in enumerate(progs):
        s += f"P {t} {p}\n"
    if sched is not None:
        s += "S " + ",".join(map(str, sched)) + "\n"
    return s + "#end\n"


def search(cid, fl, cap, progs, want, prefer, lead, kmax=60):
    """first k such that [lead] + [1]*k + prefer-default shows `want`"""
    txt = "".join(case(f"{cid}", fl, cap, progs, lead + [1] * k, f" prefer={prefer}") for k in range(kmax))
    for b in blocks(run(txt)):
        if want in b:
            return b
    raise SystemExit(f"no schedule found for {cid} ({want})")


def write(path, parts, header):
    with open(path, "w") as fh:
        fh.write(header)
        for p in parts:
            fh.write(p)
    print("wrote", path, len(parts), "case(s)")


def must(b, want):
    if want not in b:
        raise SystemExit("expected signature missing: " + want + "\n" + b)
    return b


def main():
    # ---------------- F1 (C01): timed receive cancel race
    parts = []
    for fl in ["rdv_spsc", "rdv_mpsc", "rdv_mpmc"]:
        parts.append(search(f"F1-{fl}-recv_timeout-vs-try_send", fl, 0, ["", "recv_timeout0 r0", "try_send s0 1"],
                            f"{fl}:try_send:ok-value-never-received:timed-recv-cancel-race", "2,1", [0, 0]))
    write(f"{FIND}/C01_F1_rdv_timed_recv_cancel_race.case", parts,
          "# F1: rendezvous cancel_receiver CASes WAITING->CANCELLED before taking the lock; a sender pops the record in between:\n"
          "# try_send returns ok, recv_timeout returns Timeout, the value is dropped unreceived.\n")
    # ---------------- F1 (C06): dropped receive future
    parts = []
    for fl in ["rdv_spsc_async", "rdv_mpsc_async", "rdv_mpmc_async"]:
        parts.append(search(f"F1-{fl}-dropped-recv_fut-vs-try_send", fl, 0, ["", "fut f0 = recv_fut r0 ; poll f0 ; dropfut f0", "try_send s0 1"],
                            f"{fl}:try_send:ok-value-never-received:dropped-recv-future-race", "2,1", [0, 0]))
    write(f"{FIND}/C06_F1_rdv_dropped_recv_future.case", parts,
          "# F1 (async shape): a pending rendezvous RecvFuture is dropped while a sender hands over: try_send ok, value lost.\n")
    # ---------------- F2 (C06): wake-one swallowed by a cancelled future (sequential, manual polling)
    progs = {
        ("mpmc_b_async", "recv_fut", 2): "clone r0 r1 ; fut f0 = recv_fut r0 ; fut f1 = recv_fut r1 ; poll f0 ; poll f1 ; try_send s0 1 ; wakes f0 ; wakes f1 ; dropfut f0 ; wakes f1 ; len r1 ; poll f1",
        ("mpmc_b_async", "send_fut", 1): "clone s0 s1 ; try_send s0 1 ; fut f0 = send_fut s0 2 ; fut f1 = send_fut s1 3 ; poll f0 ; poll f1 ; try_recv r0 ; wakes f0 ; wakes f1 ; dropfut f0 ; wakes f1 ; len s1 ; poll f1",
        ("mpsc_b_async", "send_fut", 1): "clone s0 s1 ; try_send s0 1 ; fut f0 = send_fut s0 2 ; fut f1 = send_fut s1 3 ; poll f0 ; poll f1 ; try_recv r0 ; try_recv r0 ; wakes f0 ; wakes f1 ; dropfut f0 ; wakes f1 ; len s1 ; poll f1",
        ("mpmc_u_async", "recv_fut", 0): "clone r0 r1 ; fut f0 = recv_fut r0 ; fut f1 = recv_fut r1 ; poll f0 ; poll f1 ; try_send s0 1 ; wakes f0 ; wakes f1 ; dropfut f0 ; wakes f1 ; poll f1",
    }
    parts = []
    for (fl, form, cap), prog in progs.items():
        b = blocks(run(case(f"F2-{fl}-{form}", fl, cap, [prog])))[0]
        parts.append(must(b, f"{fl}:{form}:pending-enabled-not-woken:after-woken-future-dropped"))
    write(f"{FIND}/C06_F2_wake_one_swallowed_by_dropped_future.case", parts,
          "# F2: a wake-one consumed by a future that is then dropped is not forwarded: the other pending future stays\n"
          "# unwoken although an item / a slot is available.\n")
    # ---------------- F3 (C04): closed-handle family, all sequential
    fls = ["spsc", "spsc_async", "mpsc_b", "mpsc_b_async", "mpsc_u", "mpsc_u_async", "mpmc_b", "mpmc_b_async", "mpmc_u", "mpmc_u_async",
           "rdv_spsc", "rdv_spsc_async", "rdv_mpsc", "rdv_mpsc_async", "rdv_mpmc", "rdv_mpmc_async", "spmc", "spmc_async"]
    txt, n = "", 0
    for fl in fls:
        rdv = fl.startswith("rdv")
        pre = "" if rdv else "try_send s0 1 ; try_send s0 2 ; "
        conv = "to_sync" if fl.endswith("_async") else "to_async"
        txt += case(f"F3-{fl}-close-{conv}-sender", fl, 4, [pre + f"close s0 ; {conv} s0 ; try_send s0 9 ; is_closed s0"])
        txt += case(f"F3-{fl}-close-{conv}-receiver", fl, 4, [pre + f"close r0 ; {conv} r0 ; try_recv r0 ; is_closed r0"])
    conv_parts = [b for b in blocks(run(txt)) if "closed-handle-accepted-after-conversion" in b]
    write(f"{FIND}/C04_F3_conversion_resets_closed.case", conv_parts,
          "# F3 (open part): to_async/to_sync build the converted handle with closed=false: a handle whose close() already ran\n"
          "# accepts operations again (and its drop runs close_internal a second time).\n")
    txt = ""
    pre = "try_send s0 1 ; try_send s0 2 ; "
    for f in ["send s0 9", "send_batch s0 8,9", "send_batch_mut s0 8,9"]:
        txt += case(f"F3-mpmc_b_async-closed-{f.split()[0]}", "mpmc_b_async", 4, [pre + "close s0 ; " + f])
    txt += case("F3-mpmc_b_async-closed-send_fut", "mpmc_b_async", 4, [pre + "close s0 ; fut f0 = send_fut s0 9 ; poll f0"])
    for f in ["recv r0", "recv_batch r0 2", "recv_batch_mut r0 2"]:
        txt += case(f"F3-mpmc_b_async-closed-{f.split()[0]}", "mpmc_b_async", 4, [pre + "close r0 ; " + f])
    txt += case("F3-mpmc_b_async-closed-recv_fut", "mpmc_b_async", 4, [pre + "close r0 ; fut f0 = recv_fut r0 ; poll f0"])
    parts = [must(b, "closed-handle-accepted") for b in blocks(run(txt))]
    write(f"{FIND}/C04_F3_mpmc_async_futures_ignore_closed.case", parts,
          "# F3 (further call sites): the futures of mpmc bounded AsyncSender/AsyncReceiver never look at the handle's closed flag.\n")
    txt = ""
    for fl in ["rdv_spsc_async", "rdv_mpsc_async", "rdv_mpmc_async"]:
        txt += case(f"F3-{fl}-closed-send", fl, 0, ["close s0 ; send s0 9"])
        txt += case(f"F3-{fl}-closed-send_fut", fl, 0, ["close s0 ; fut f0 = send_fut s0 9 ; poll f0"])
        txt += case(f"F3-{fl}-closed-recv", fl, 0, ["close r0 ; recv r0"])
        txt += case(f"F3-{fl}-closed-recv_fut", fl, 0, ["close r0 ; fut f0 = recv_fut r0 ; poll f0"])
    parts = [must(b, "closed-handle-blocks") for b in blocks(run(txt))]
    write(f"{FIND}/C04_F3_rdv_async_futures_ignore_closed.case", parts,
          "# F3 (further call sites): rendezvous async send/recv futures on a handle whose close() already ran register and wait\n"
          "# instead of returning Closed / Disconnected.\n")
    # fixed call sites -> regression corpus (must NOT fire)
    txt = case("F3fixed-spsc-send_batch-after-close", "spsc", 4, ["try_send s0 1 ; close s0 ; send_batch s0 8,9 ; try_recv r0 ; try_recv r0"])
    txt += case("F3fixed-mpsc_b-recv_timeout-after-close", "mpsc_b", 4, ["try_send s0 1 ; close r0 ; recv_timeout0 r0"])
    txt += case("F3fixed-mpmc_b-recv_timeout-after-close", "mpmc_b", 4, ["try_send s0 1 ; close r0 ; recv_timeout0 r0"])
    os.makedirs(CORP, exist_ok=True)
    write(f"{CORP}/C04_F3_fixed_sites.case", blocks(run(txt)),
          "# F3 call sites repaired in /repo (spsc send_batch, mpsc v3 / mpmc recv_timeout on a closed handle): regression cases,\n"
          "# no monitor may fire.\n")
    # ---------------- F5 (C05/C01): mpmc recv_timeout unreachable!
    b = search("F5-mpmc_b-recv_timeout-barging-receiver", "mpmc_b", 1, ["clone r0 r1", "recv_timeout0 r0", "try_send s0 1", "try_recv r1"],
               "mpmc_b:recv_timeout0:panic:", "2,3,1", [0, 0, 0])
    write(f"{FIND}/C05_F5_mpmc_recv_timeout_unreachable.case", [b],
          "# F5: timed receiver is marked SUCCESS by a sender, another receiver takes the item, the deadline path hits unreachable!().\n")
    # ---------------- F14 (C05 sync deadlock, C06 async not woken)
    b = blocks(run(case("F14-mpsc_b-send-parked-with-space", "mpsc_b", 2, ["", "send s0 1 ; send s0 2 ; send s0 3 ; drop s0", "recv r0"])))[0]
    write(f"{FIND}/C05_F14_mpsc_b_send_blocked_with_space.case", [must(b, "mpsc_b:send:blocked-with-space-available")],
          "# F14: the consumer's recv() frees a slot but does not publish the credit; the parked sender is never woken while the\n"
          "# receiver handle stays alive and idle.\n")
    b = blocks(run(case("F14-mpsc_b_async-send_fut-not-woken", "mpsc_b_async", 4,
                        ["try_send s0 1 ; try_send s0 2 ; try_send s0 3 ; try_send s0 4 ; fut f0 = send_fut s0 5 ; poll f0 ; try_recv r0 ; wakes f0 ; len s0 ; is_full s0 ; try_send s0 6"])))[0]
    write(f"{FIND}/C06_F14_mpsc_b_async_send_fut_not_woken.case", [must(b, "mpsc_b_async:send_fut:pending-enabled-not-woken")],
          "# F14 (async shape): Pending SendFuture gets no waker call after try_recv freed a slot (len 3 of 4, is_full false, try_send ok).\n")
    # ---------------- N1 (C04 i/ii): Disconnected returned while an item is still buffered (mpmc bounded v2)
    parts = []
    for fl in ["mpmc_b", "mpmc_b_async"]:
        txt = "".join(f"#case N1-{fl}-disconnected-before-drain flavour={fl} cap=2 strategy={'rand' if sd % 2 else 'pct'} seed={sd} mode=witness\n"
                      "P 0 clone r0 r1\nP 1 send s0 6 ; drop s0\nP 2 recv r0\nP 3 recv_batch r1 3 ; recv r1\n#end\n" for sd in range(1, 400))
        hits = [b for b in blocks(run(txt)) if f"{fl}:recv_batch:disconnected-before-drain" in b]
        if not hits:
            raise SystemExit("N1 not found for " + fl)
        parts.append(min(hits, key=len))
    write(f"{FIND}/C04_N1_mpmc_disconnected_before_drain.case", parts,
          "# N1 (not in DESIGN §11): mpmc bounded v2: a parked receiver whose waiter state was set to CLOSED by the last sender's drop\n"
          "# returns Disconnected without re-checking the queue, although an item (whose wake-one went to another receiver) is still\n"
          "# buffered; it then receives that very item by a later call (value after Disconnected).\n")
    # ---------------- observations outside F1-F16
    txt = case("OBS-oneshot-recv-after-value-taken", "oneshot", 0, ["send s0 1 ; try_recv r0 ; try_recv r0 ; recv r0"])
    b = blocks(run(txt))[0]
    write(f"{FIND}/C04_OBS_oneshot_recv_after_taken.case", [b],
          "# observation: after the value was taken and every sender is gone, oneshot try_recv answers Empty (not Disconnected) and\n"
          "# recv() stays Pending forever.\n")


if __name__ == "__main__":
    main()
